#!/bin/bash
# tools/run_seed.sh <seeded-dir> <check id> [<check id> ...]
# Applies <seeded-dir>/patch.diff to /repo, runs the given checks (quick tier unless VERIF_TIER is set),
# and ALWAYS restores /repo afterwards.  Prints one line per check: DETECTED / MISSED.
set -u
d="$1"; shift
cd /verif
if [ -n "$(git -C /repo status --porcelain --untracked-files=no)" ]; then echo "/repo is dirty; refusing"; exit 2; fi
restore() { git -C /repo checkout -- . ; git -C /repo clean -fdq -- mypy mypyc 2>/dev/null; }
trap restore EXIT
git -C /repo apply "$d/patch.diff" || { echo "patch does not apply"; exit 2; }
for c in "$@"; do
  out=$(./check "$c" --no-evidence 2>&1); rc=$?
  if echo "$out" | grep -q "^VIOLATION property=$c"; then
    echo "DETECTED $c (exit $rc): $(echo "$out" | grep -A1 "^VIOLATION" | grep signature | head -3 | cut -c1-300 | tr '\n' ';')"
  elif [ $rc -ne 0 ]; then
    echo "ERROR $c (exit $rc): $(echo "$out" | tail -3 | cut -c1-300 | tr '\n' ';')"
  else
    echo "MISSED $c (exit 0)"
  fi
done
