#!/venv/bin/python
"""Confirmation lane for C03 findings: replays a history through the REAL `dmypy` command line
(bundled typeshed, real daemon process, wall clock) and compares the last response with `mypy`.

usage: tools/confirm_c03.py <replay.json>
   or  tools/confirm_c03.py U1 error-all [init:tmp/c.py=3] 'tmp/a.py=1' 'tmp/c.py=1' ['tmp/b.py=1!']
       (a trailing '!' marks an edit that is NOT followed by a check request; cache-start mode starts the
        daemon with --use-fine-grained-cache on a cache written by `mypy --cache-fine-grained` for the initial state)
"""
import json
import os
import shutil
import subprocess
import sys
import time

sys.path.insert(0, os.path.dirname(os.path.dirname(os.path.abspath(__file__))))
from mc.checks import c03  # noqa: E402


def main() -> int:
    if sys.argv[1].endswith(".json"):
        d = json.load(open(sys.argv[1]))["detail"]
        uname, mode = d["universe"], d["mode"]
        init = tuple((p, v) for p, v in d.get("init", []))
        hist = tuple((h[0], h[1], h[2] if len(h) > 2 else 1) for h in d["history"])
    else:
        uname, mode = sys.argv[1], sys.argv[2]
        init_l, hist_l = [], []
        for a in sys.argv[3:]:
            checked = 1
            if a.endswith("!"):
                a, checked = a[:-1], 0
            if a.startswith("init:"):
                p, v = a[5:].split("=")
                init_l.append((p, int(v)))
            else:
                p, v = a.split("=")
                hist_l.append((p, int(v), checked))
        init, hist = tuple(init_l), tuple(hist_l)
    u = c03.U(uname)
    root = f"/dev/shm/confirm-c03-{os.getpid()}"
    shutil.rmtree(root, ignore_errors=True)
    os.makedirs(root)
    env = dict(os.environ, PYTHONPATH=os.environ.get("VERIF_REPO", "/repo"))
    env.pop("PYTHON_MYPY_VERIF", None)
    flags = ["--follow-imports=" + ("normal" if mode == "normal-root" else "error"), "--no-error-summary",
             "--show-error-codes"]
    for k, v in u.overrides.items():
        if k != "follow_imports" and v is True:
            flags.append("--" + k.replace("_", "-"))
    flags += os.environ.get("CONFIRM_EXTRA_FLAGS", "").split()
    states = c03.states_after(u, init, hist)
    checked = [1] + [h[2] for h in hist]
    out = None
    try:
        now = time.time() - 1000
        for i, vm in enumerate(states):
            for p, v in vm.items():
                if i == 0 or states[i - 1][p] != v:
                    c03._set_file(root, u, p, v, int(now) + 10 * i)
            if not checked[i]:
                print(f"step {i}: edit without a check request")
                continue
            files = [p for p, _m in c03.sources_for(u, vm, mode)]
            if i == 0 and mode == "cache-start":
                r0 = subprocess.run([sys.executable, "-m", "mypy", "--cache-fine-grained", "--local-partial-types",
                                     *flags, *files], cwd=root, env=env, capture_output=True, text=True)
                print(f"step 0 mypy --cache-fine-grained -> exit {r0.returncode}")
                for l in r0.stdout.splitlines():
                    print("   ", l)
                subprocess.run([sys.executable, "-m", "mypy.dmypy", "start", "--", "--use-fine-grained-cache",
                                *flags], cwd=root, env=env, capture_output=True, text=True)
                continue
            cmd = ["check", "--", *files] if mode == "cache-start" else ["run", "--", *flags, *files]
            r = subprocess.run([sys.executable, "-m", "mypy.dmypy", *cmd], cwd=root, env=env,
                               capture_output=True, text=True)
            out = (r.stdout.splitlines(), r.returncode)
            print(f"step {i} dmypy {cmd[0]} -> exit {r.returncode}")
            for l in r.stdout.splitlines() + r.stderr.splitlines()[-3:]:
                print("   ", l)
        files = [p for p, _m in c03.sources_for(u, states[-1], mode)]
        r = subprocess.run([sys.executable, "-m", "mypy", "--no-incremental", "--local-partial-types", *flags, *files],
                           cwd=root, env=env, capture_output=True, text=True)
        print(f"mypy (full, non-incremental) -> exit {r.returncode}")
        for l in r.stdout.splitlines():
            print("   ", l)
        d_lines = [l for l in (out[0] if out else []) if l not in ("Daemon started",)]
        same = sorted(d_lines) == sorted(r.stdout.splitlines()) and out is not None and out[1] == r.returncode
        print("CONFIRMED-DIFFERENT" if not same else "SAME (not reproduced through the real CLI)")
        return 0 if same else 1
    finally:
        subprocess.run([sys.executable, "-m", "mypy.dmypy", "stop"], cwd=root, env=env, capture_output=True)
        shutil.rmtree(root, ignore_errors=True)


if __name__ == "__main__":
    sys.exit(main())
