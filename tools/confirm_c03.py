#!/venv/bin/python
"""Confirmation lane for C03 findings: replays a history through the REAL `dmypy` command line
(bundled typeshed, real daemon process, wall clock) and compares the last response with `mypy`.

usage: tools/confirm_c03.py <replay.json>   |   tools/confirm_c03.py U1 error-all 'tmp/a.py=1' 'tmp/c.py=1'
"""
import json
import os
import shutil
import subprocess
import sys
import time

sys.path.insert(0, os.path.dirname(os.path.dirname(os.path.abspath(__file__))))
from mc import universes  # noqa: E402
from mc.checks import c03  # noqa: E402


def main() -> int:
    if sys.argv[1].endswith(".json"):
        d = json.load(open(sys.argv[1]))["detail"]
        uname, mode, hist = d["universe"], d["mode"], tuple((p, v) for p, v in d["history"])
    else:
        uname, mode = sys.argv[1], sys.argv[2]
        hist = tuple((a.split("=")[0], int(a.split("=")[1])) for a in sys.argv[3:])
    u = universes.ALL[uname]
    root = f"/dev/shm/confirm-c03-{os.getpid()}"
    shutil.rmtree(root, ignore_errors=True)
    os.makedirs(root)
    env = dict(os.environ, PYTHONPATH="/repo")
    env.pop("PYTHON_MYPY_VERIF", None)
    flags = ["--follow-imports=" + ("normal" if mode == "normal-root" else "error"), "--no-error-summary",
             "--show-error-codes"]
    for k, v in u.overrides.items():
        if k != "follow_imports" and v is True:
            flags.append("--" + k.replace("_", "-"))
    states = c03.apply_history(u, hist)
    out = None
    try:
        for i, vm in enumerate(states):
            c03.write_state(root, u, vm, i, states[i - 1] if i else None)
            now = time.time() + i  # real, increasing mtimes
            for p, v in vm.items():
                if u.files[p][v] is not None and (i == 0 or states[i - 1][p] != v):
                    os.utime(os.path.join(root, c03._strip(p)), (now, now))
            files = [p for p, _m in c03.sources_for(u, vm, mode)]
            r = subprocess.run([sys.executable, "-m", "mypy.dmypy", "run", "--", *flags, *files], cwd=root, env=env,
                               capture_output=True, text=True)
            out = (r.stdout.splitlines(), r.returncode)
            print(f"step {i} dmypy run -> exit {r.returncode}")
            for l in r.stdout.splitlines():
                print("   ", l)
        files = [p for p, _m in c03.sources_for(u, states[-1], mode)]
        r = subprocess.run([sys.executable, "-m", "mypy", "--no-incremental", "--local-partial-types", *flags, *files],
                           cwd=root, env=env, capture_output=True, text=True)
        print(f"mypy (full, non-incremental) -> exit {r.returncode}")
        for l in r.stdout.splitlines():
            print("   ", l)
        same = out is not None and sorted(out[0]) == sorted(l for l in r.stdout.splitlines()
                                                              if l != "Daemon started") and out[1] == r.returncode
        d_lines = [l for l in (out[0] if out else []) if l not in ("Daemon started",)]
        same = sorted(d_lines) == sorted(r.stdout.splitlines()) and out[1] == r.returncode
        print("CONFIRMED-DIFFERENT" if not same else "SAME (not reproduced through the real CLI)")
        return 0 if same else 1
    finally:
        subprocess.run([sys.executable, "-m", "mypy.dmypy", "stop"], cwd=root, env=env, capture_output=True)
        shutil.rmtree(root, ignore_errors=True)


if __name__ == "__main__":
    sys.exit(main())
