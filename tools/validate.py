#!/opt/veriftools/pyvenv/bin/python
"""Validate MANIFEST.json and every evidence/*.json against the given schemas."""
import glob, json, sys
import jsonschema
ok = True
def check(path, schema):
    global ok
    try:
        jsonschema.validate(json.load(open(path)), json.load(open(schema)))
    except Exception as e:  # noqa
        ok = False
        print("INVALID", path, str(e)[:300])
check("/verif/MANIFEST.json", "/root/.vp/MANIFEST.schema.json")
for p in sorted(glob.glob("/verif/evidence/*.json")):
    check(p, "/root/.vp/EVIDENCE.schema.json")
m = json.load(open("/verif/MANIFEST.json"))
ids = [c["property_id"] if "property_id" in c else c.get("id") for c in m.get("checks", [])]
print("manifest checks:", len(ids), "evidence files:", len(glob.glob("/verif/evidence/*.json")), "OK" if ok else "FAILED")
sys.exit(0 if ok else 1)
