#!/usr/bin/env python3
"""tools/save_seed.py <src dir> <seed id> <property> <needs> <ran> <result...>  -> /verif/seeded/<id>/"""
import json, os, shutil, sys
src, sid, prop, needs, ran = sys.argv[1:6]
result = " ".join(sys.argv[6:])
dst = f"/verif/seeded/{sid}"
os.makedirs(dst, exist_ok=True)
for f in os.listdir(src):
    if os.path.isfile(os.path.join(src, f)):
        shutil.copy(os.path.join(src, f), os.path.join(dst, f))
meta = {"id": sid, "property": prop, "needs_to_manifest": needs, "what_was_run": ran, "check_result": result,
        "origin": "independent sub-agent given only the property text and a scratch worktree"}
json.dump(meta, open(os.path.join(dst, "meta.json"), "w"), indent=1)
print("saved", dst)
