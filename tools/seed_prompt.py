#!/usr/bin/env python3
"""Prints the prompt for an independent mutation agent (gets ONLY the property text + a worktree)."""
import json, sys
pid, wt = sys.argv[1], sys.argv[2]
n = sys.argv[3] if len(sys.argv) > 3 else "2"
for l in open('/verif/properties.jsonl'):
    p = json.loads(l)
    if p['id'] == pid:
        break
print(f"""You are helping to evaluate a verification effort for python/mypy (a static type checker for Python, plus mypyc, its Python-to-C compiler). You get a private git worktree of the repository at {wt} (python: /venv/bin/python; run things with PYTHONPATH={wt} so that YOUR copy is imported, e.g. `cd {wt} && PYTHONPATH={wt} /venv/bin/python -m mypy ...` or `PYTHONPATH={wt} /venv/bin/python -m pytest -q -p no:cacheprovider -n 4 mypy/test/testcheck.py`; mypyc builds: see mypyc/test/test_run.py). Work ONLY inside {wt} and under /tmp/{pid.lower()}-scratch-* ; do NOT read, list or use anything under /verif or /root/.vp (that would spoil the evaluation), do NOT touch /repo, no network is available.

The semantic property under study:
  TITLE: {p['title']}
  STATEMENT: {p['statement']}
  QUANTIFIER: {p['quantifier']['text']}

Task: produce {n} DIFFERENT realistic changes to the source of python/mypy (each in its own patch, each touching one or two sites, the kind of regression a plausible refactoring/optimisation/bug-fix could introduce — not sabotage like deleting a whole feature) such that each change (1) BREAKS the property above, (2) still compiles/imports, and (3) the repository's existing test suite still passes with it (run at least the test files that exercise the code you touched, e.g. for cache/build code: mypy/test/testcheck.py (-k incremental and the whole file), mypy/test/testfinegrained.py, mypy/test/testdaemon.py, mypy/test/testcmdline.py, mypy/test/testpep561.py, mypyc/test/test_run.py -k <relevant> ...; use `-n 4` at most, the machine is shared; known pre-existing failure to ignore: testDaemonStatusKillRestartRecheck). Prefer changes that need something SPECIFIC to manifest — a particular interleaving or completion order, a crash or fault at a particular point, a multi-step sequence of operations/edits, an unusual input shape, or two cooperating sites that each look fine alone — not ones that ordinary use would expose at once (the existing tests passing is evidence of that). The two changes should exercise different mechanisms behind the property.

For each change deliver, under {wt}/SEED/<a|b>/ : `patch.diff` (output of `git diff` for that change alone, against HEAD, applying cleanly with `git apply`), a demonstration `demo.py` or `demo.sh` (a small self-contained program/script that exits non-zero / prints FAIL with the change applied and exits 0 / prints PASS on the unmodified HEAD; it must take the repo root as argv[1] (use it for PYTHONPATH) and create its scratch files under a fresh temp dir), and `NOTES.md` (what the change is, why it breaks the property, what exactly it needs in order to manifest, which test files you ran with what result). Leave the worktree at HEAD (no uncommitted source changes besides the SEED directory) when you finish. Final message: a short summary per change (files touched, trigger needed, tests run, demo behaviour with/without).""")
