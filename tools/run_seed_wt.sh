#!/bin/bash
# tools/run_seed_wt.sh <seeded-dir> <check id> [...]   — like run_seed.sh but against the scratch worktree
# ${WT:-/tmp/wt-seed2} through VERIF_REPO (only for checks whose modules honour VERIF_REPO; /repo stays untouched,
# so other sessions working on /repo are not disturbed).
set -u
d="$1"; shift
WT=${WT:-/tmp/wt-seed2}
cd /verif
[ -d $WT ] || git -C /repo worktree add -q $WT HEAD
git -C $WT checkout -q -f --detach "$(git -C /repo rev-parse HEAD)"
git -C $WT checkout -- . ; git -C $WT clean -fdq
restore() { git -C $WT checkout -- . ; git -C $WT clean -fdq; }
trap restore EXIT
git -C $WT apply "$d/patch.diff" || { echo "patch does not apply"; exit 2; }
for c in "$@"; do
  out=$(VERIF_REPO=$WT C05_REPO=$WT VERIF_C15_TREE=$WT ./check "$c" --no-evidence 2>&1); rc=$?
  if echo "$out" | grep -q "^VIOLATION property=$c"; then
    echo "DETECTED $c (exit $rc): $(echo "$out" | grep -A1 "^VIOLATION" | grep signature | head -3 | cut -c1-260 | tr '\n' ';')"
  elif [ $rc -ne 0 ]; then
    echo "ERROR $c (exit $rc): $(echo "$out" | tail -3 | cut -c1-300 | tr '\n' ';')"
  else
    echo "MISSED $c (exit 0)"
  fi
done
