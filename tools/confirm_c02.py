#!/venv/bin/python
"""Confirmation lane for C02 findings: replays a history through the REAL `python -m mypy` command line
(bundled typeshed, real cache store, real mtimes) and compares the last warm run with a cold run.

usage: tools/confirm_c02.py <replay.json>
   or  tools/confirm_c02.py U4b fs ff 'set tmp/p/m.py=1' 'set tmp/p/m.py=0'
"""
import json
import os
import shutil
import subprocess
import sys
import time

sys.path.insert(0, os.path.dirname(os.path.dirname(os.path.abspath(__file__))))
from mc import universes  # noqa: E402
from mc.s1 import Instance  # noqa: E402


def main() -> int:
    if sys.argv[1].endswith(".json"):
        d = json.load(open(sys.argv[1]))["detail"]
        uname, store, fmt, hist = d["job"]["universe"], d["job"]["store"], d["job"]["fmt"], d["history"]
    else:
        uname, store, fmt, hist = sys.argv[1], sys.argv[2], sys.argv[3], sys.argv[4:]
    u = universes.ALL[uname]
    work = f"/dev/shm/confirm-c02-{os.getpid()}"
    shutil.rmtree(work, ignore_errors=True)
    inst = Instance(u, store, fmt, work)
    root = inst.root
    env = dict(os.environ, PYTHONPATH="/repo")
    env.pop("PYTHON_MYPY_VERIF", None)
    flags = ["--no-error-summary", "--show-error-codes", "--no-sqlite-cache" if store == "fs" else "--sqlite-cache",
             "--fixed-format-cache" if fmt == "ff" else "--no-fixed-format-cache"]
    for k, v in {**u.overrides}.items():
        if v is True:
            flags.append("--" + k.replace("_", "-"))
        elif isinstance(v, str):
            flags.append(f"--{k.replace('_', '-')}={v}")

    def run(F, cache):
        files = [p[len("tmp/"):] for p, _m in u.sources[F[-1]]]
        r = subprocess.run([sys.executable, "-m", "mypy", *flags, "--cache-dir", cache, *files],
                           cwd=os.path.join(root, "tmp"), env=env, capture_output=True, text=True)
        return sorted(r.stdout.splitlines()), r.returncode

    try:
        F = inst.initial_F()
        now = time.time() - 1000
        steps = [("initial", F)]
        for depth, label in enumerate(hist):
            F = dict([("rerun", F)] + inst.edits(F, depth))[label]
            steps.append((label, F))
        warm = None
        for i, (label, F) in enumerate(steps):
            fm = inst.file_map(F)
            for p, v in fm.items():
                dst = os.path.join(root, p)
                if v is None:
                    if os.path.exists(dst):
                        os.remove(dst)
                    continue
                os.makedirs(os.path.dirname(dst), exist_ok=True)
                old = open(dst).read() if os.path.exists(dst) else None
                if old != v[0] or label.startswith("touch"):
                    with open(dst, "w") as f:
                        f.write(v[0])
                    os.utime(dst, (now + 10 * i, now + 10 * i))
            warm = run(F, os.path.join(work, "realcache"))
            print(f"step {i} [{label}] warm -> exit {warm[1]}")
            for l in warm[0]:
                print("    ", l)
        cold = run(steps[-1][1], os.devnull)
        print(f"cold -> exit {cold[1]}")
        for l in cold[0]:
            print("    ", l)
        same = warm == cold
        print("SAME (not reproduced through the real CLI)" if same else "CONFIRMED-DIFFERENT")
        return 0 if same else 1
    finally:
        shutil.rmtree(work, ignore_errors=True)


if __name__ == "__main__":
    sys.exit(main())
