#!/usr/bin/env python3
"""Regenerates /verif/MANIFEST.json from the table below (run after registering a check)."""
import json
import os

V = os.path.dirname(os.path.dirname(os.path.abspath(__file__)))
BASELINE = ("cd /repo && env -u PYTHON_MYPY_VERIF /venv/bin/python -m pytest -ra -q -p no:cacheprovider "
            "--timeout=900 --continue-on-collection-errors")

# id -> (category, technique, level text, level note, design ref)
CHECKS = {
    "C02": ("model_checking",
            "explicit-state BFS to closure over (source tree, cache dir) states of the real build",
            "Every reachable (files, cache) state of 16 closed universes (diamond, indirect deps, type lists, cycles, packages, "
            "namespace packages appearing, stubs, path switches, ...) x 4 store/format configs under an owned "
            "clock, every alphabet edit from every state, real mypy.build.build per transition, oracle = cold run. "
            "Closure means unbounded history depth inside the universe; a monotone-clock lane covers all histories "
            "to a stated depth.",
            "fixture stubs on both sides of the comparison; harness-owned mtimes; same-second same-size edits out "
            "of scope (documented mypy limitation)", "4/C02"),
    "C04": ("fault_enumeration",
            "exhaustive kill-point and failed-write-subset enumeration on the real build's store-operation log",
            "For every base transition (warm, partially stale cache + one edit) of 5 universes x both stores: the run is "
            "killed (real os._exit) before/after EVERY store operation and inside every file-store write, and every subset "
            "of failed writes up to size 2 (Q) / 3 (T) (all subsets for short logs) is injected, under two clock answers; "
            "the recovery run (T: also after each further edit) must equal a cold run.",
            "single-process build lane; kill = process death at a store-operation boundary (no power-loss / page-cache "
            "model); fixture stubs on both sides", "4/C04"),
    "C09": ("model_checking",
            "exhaustive option-toggle histories (depth 2-3) over the introspected flag table through the real CLI",
            "Every flag of mypy.main.define_options() (introspected), plus value-carrying flags with corpus values and "
            "[mypy]/[mypy-module] config spellings, toggled in both directions between two (T: three) runs sharing a cache, "
            "on every corpus program that uses the flag and a generic witness set; compared with a cold run of the last "
            "option set. Only (program, option) pairs whose cold outputs differ count (witness). Further lanes: every "
            "per-module option through 4 section shapes on an imported package module, every error code through "
            "--disable/--enable-error-code on top of a config base with per-module sections, follow_imports for every ordered "
            "value pair globally and per module (ignored import, import of an import, package / submodule / ancestor, "
            "submodule as the command-line target), --shadow-file with same-size and other-size shadow files.",
            "fixture stubs on both sides; options without a witness program are listed as coverage gaps", "4/C09"),
    "C03": ("model_checking",
            "exhaustive edit-history tree (depth-bounded) on the real dmypy Server, fork-cloned at every node",
            "ALL legal single-file-edit histories (incl. edits not followed by a check) up to depth 2-3 (Q) / 3-4 (T) from "
            "every initial file state at distance <= 1, over 14 universes (diamond, indirect deps, chains, packages, stubs, a "
            "module appearing with a blocker, type guards, protocol notes, ...) x {follow_imports=error with "
            "all files, follow_imports=normal with the root only, start from a fine-grained cache} x {check, cmd_recheck}; "
            "the real Server answers after every edit and every node is compared with a non-incremental build of that "
            "node's files. A self-test asserts the fork-cloned tree observes what a straight-line replay observes.",
            "fixture stubs on both sides; owned monotone mtimes; when several files carry a blocking error at once any "
            "blocker a fresh run reports for some file order is accepted", "4/C03"),
    "C15": ("exploration",
            "exhaustive boundary-operand enumeration of compiled one-operation functions vs the interpreter",
            "1020 generated one-operation functions (every operator x operand static types incl. i64/i32/i16/u8, literals, "
            "conversions) compiled by mypyc from the working tree at opt 0 and 3; ALL operand tuples from the boundary set "
            "(and all 65536 u8 pairs / i16 values) evaluated in both and compared: same value and type or same exception type.",
            "64-bit gcc platform; signed native-int overflow and float->native conversions exercised but not judged "
            "(documented as undefined)", "4/C15"),
    "C08": ("exploration",
            "exhaustive all-pairs / all-chains / all-permutations law checking on types from a real build",
            "~500 (Q) / ~1080 (T) types (48 atoms + every depth-1 construction) taken from a real bundled-typeshed build; "
            "ALL ordered pairs for reflexivity, proper=>subtype, join upper bound, meet lower bound; ALL chains s<:t<:u for "
            "transitivity on Any-free types; ALL item sequences <=3 (Q) / <=4 (T) over a 20-type core for union "
            "simplification; every query answered under 3 (T: 4) cache states for cache independence.",
            "nesting depth <= 1 only; bare `type` treated as Any-containing; join argument-order equivalence reported as a "
            "statistic (the statement only demands an upper bound in either order)", "4/C08"),
    "C16": ("model_checking",
            "exhaustive frame segmentations + all client-behaviour sequences (depth-bounded) against the real daemon",
            "Frames: every segmentation (2^(L-1)) of every stream of 1-3 frames with payload length 1-4, every EOF offset, "
            "oversized headers, through the real IPCBase.read_bytes/frame_from_buffer. Daemon: ALL sequences of length <=2 (Q) "
            "over a 116-symbol client-behaviour alphabet (close at every byte offset, garbage frames, unknown/ill-formed "
            "commands, no-read clients) and length 3 over a reduced alphabet (T), each followed by a probe status/edit/check "
            "compared with a cold build, against the real Server.serve loop over the real AF_UNIX socket.",
            "Linux AF_UNIX only; one client at a time; fixture stubs on both sides of the probe comparison", "4/C16"),
    "C17": ("exploration",
            "exhaustive option x source x conflicting-pair enumeration and all small section sets vs the documented rule",
            "149 introspected options x value domains x every source spelling (flag, inverse, ini, setup.cfg, pyproject, "
            "per-module sections, overrides, inline) for equivalence of Options snapshots; all ordered pairs of 8 source "
            "kinds for precedence; ALL ordered sets of <=3 (Q) / <=4 (T) per-module sections over 9 pattern shapes x all "
            "module names to depth 3 (4) against a ~20-line transcription of the documented precedence; witness programs "
            "through mypy.main.main for end-to-end effect.",
            "which modules a pattern matches is taken from mypy itself (not judged); inline application in snapshot lanes "
            "replicates build's three calls, the real State path is covered by the witness lane", "4/C17"),
    "C07": ("model_checking",
            "stateless deviation-bounded schedule exploration of the real coordinator + worker processes under an owned scheduler",
            "The real mypy.build coordinator (num_workers=N) and real `python -m mypy.build_worker` processes run under a "
            "controller that owns every scheduling decision (which gated worker phase advances, which responses are "
            "delivered together, which free worker gets a batch); ALL schedules with <= 2 (Q: U1 N=2) / <= 1 deviations "
            "(T: <= 3 / <= 2) from the default are executed for diamond, cycle, wide and deep import graphs, N in 1..4 (8 "
            "with the default schedule), cold and warm caches, both stores; every schedule's output is compared with "
            "the sequential build and the cache it leaves is validated by a sequential warm run (T: after each edit). "
            "Replaying a prefix must reproduce the recorded enabled sets (divergence = hard error).",
            "atomic step = worker phase (interface compute/send, implementation compute/send): races between individual "
            "store calls of two workers inside a phase are out of reach; fixture stubs, native parser, binary cache", "4/C07"),
    "C10": ("exploration",
            "exhaustive seed-set x program, all file-order permutations, all build pairs/triples in one interpreter",
            "(a) every program of the slice (all file states of 4 (Q) / 9 (T) universes + corpus multi-file cases) built in "
            "subprocesses differing only in PYTHONHASHSEED (4 seeds Q / 32 T): identical messages and byte-identical cache "
            "records in both formats; (b) every permutation of the file arguments of every acyclic universe state gives the "
            "same diagnostic set; (c) every ordered pair (Q) / triple (T) of a 12-build alphabet (incl. a blocker build and a "
            "daemon-style build) run in ONE interpreter: last build's messages and cache bytes equal a fresh process.",
            "2^32 hash seeds are not enumerable: a listed seed set; fixture stubs; owned cache-record clock", "4/C10"),
    "C11": ("exploration",
            "exhaustive round trips: every stdlib/corpus module x both formats, every flag subset of every node/type class",
            "Every module of the bundled stdlib closure (Q 117 / T all 752 stubs) and every multi-file corpus case is built "
            "cold with cache in both formats and loaded in a new process through the real process_fresh_modules; oracles: "
            "byte-identical re-serialization per format, JSON-loaded == binary-loaded, attribute-wise walk of every slot of "
            "every reachable node and type (justified skip list in the evidence), byte-identical serialization across hash "
            "seeds. Synthetic lane: ALL 2^n subsets of the discovered boolean attributes of 31 node/type classes (Var: "
            "subsets <=2 + complements in Q, all 2^20 in T) x optional-field combinations through serialize/deserialize and "
            "write/read + fixup.",
            "librt primitives only through the Python-level write/read paths (no rebuild of librt); generated programs not "
            "enumerated", "4/C11"),
    "C01": ("exploration",
            "exhaustive enumeration of a typed program grammar, each accepted program executed on all inputs",
            "Six generated families (narrowing: 22 declared types x 52 guards x 12 control shapes x uses; operators over all "
            "ordered type pairs; calls/generics/overloads incl. keyword-only / positional-only callees and splats; joins; "
            "classes/dataclasses/enums/protocols; control flow incl. nested exception frames, each entered with the local at "
            "its declared and at a narrowed type) = 103k (Q) / 320k (T) functions type-checked by the real build (bundled typeshed); every ACCEPTED function is run "
            "by CPython on every argument tuple of its value domains with recording probes: no TypeError/AttributeError "
            "from generated code, every observed value is a member of the static type of its probe, no probe executes in "
            "code mypy treated as unreachable. Rejected functions are the single-edit ill-typed perturbations.",
            "small-scope fragment of 'all programs'; membership relation only flags what it can decide (undecided counted); "
            "functions in which typeshed leaks Any are executed but not judged", "4/C01"),
    "C05": ("exploration",
            "exhaustive differential enumeration: compiled extension vs the same source interpreted",
            "Families generated from the primitive registry (all 351 entries introspected), all call shapes <=3 actuals "
            "against all signatures <=3 parameters x 5 callee kinds, try/finally clause-action products, generator "
            "step scripts, closures, all 584 single-inheritance class chains of depth <= 3 x module placements x "
            "single / multi_file / separate layouts, 330 evaluation-order forms (every operand position of every registered "
            "specialiser and of short-circuit / display / call / statement contexts tagged and made to raise in turn), (T) "
            "loops over every iterable kind, native class features, in opt 0/3; every case is evaluated in the mypyc-compiled module (built from the "
            "working tree incl. lib-rt) and in CPython: same value+type, same exception type (message only for "
            "program-raised exceptions), same stdout, same mutation of passed-in objects; a signal is a violation.",
            "documented differences only (differences_from_python.rst); ill-typed calls are not generated", "4/C05"),
    "C06": ("model_checking",
            "explicit-state search of every function's CFG over abstract ownership states + dynamic conformance",
            "Every function of the mypyc corpus (Q: refcount/irbuild-basic/classes/try + 200 cases; T: all 1439) and of a "
            "generated family is compiled by the real pipeline and checked twice (after refcount insertion and on the final "
            "IR) by a path-based abstract interpretation whose transfer functions come only from the op objects "
            "(is_borrowed, stolen(), sources(), error kinds, Inc/DecRef): over-release, leak on any return/error path, use "
            "after release, undefined read, NULL use; plus the documented handler-edge rule on the real get_cfg output. "
            "Generated families: net-neutral functions, multi-steal (31 stealing constructs x operand multiset shapes x 16 "
            "provenances), nested protected regions (outer region x inner try x first assignment x readers). Conformance: compiled generated functions are executed on tracked "
            "objects (refcount deltas, weakref census, PYTHONMALLOC=debug, signals) and all 32 assignment-subset "
            "undefined-read programs are compared with CPython.",
            "lib-rt's declared steal/borrow contracts are trusted statically (checked only dynamically)", "4/C06"),
    "C12": ("exploration",
            "exhaustive enumeration of call shapes, class hierarchies, version/platform conditions and constant expressions vs CPython",
            "Calls: every signature <=3 (T 4) parameters over 8 kinds x every call shape <=3 actuals (positional, keyword, "
            "*tuple, **TypedDict): mypy's arity/keyword verdict vs really calling the function, both directions. MRO: all "
            "hierarchies <=5 classes (T: 6 with <=2 bases) vs type(...).__mro__. Reachability: every sys.version_info / "
            "sys.platform comparison form x targets 3.0-3.15 x platforms, both parsers, vs eval with a fake sys. Folding: all "
            "expressions to depth 2 over boundary leaves for mypy's and mypyc's folders vs eval.",
            "depth-3 folding only as a restricted slice; mypyc folder called directly (not through a compiled extension)", "4/C12"),
    "C18": ("exploration",
            "exhaustive enumeration of all small directory trees x option grid x invocation forms",
            "Every directory tree over names {a,b} up to 3 files / depth 2 (T: 4 files, depth 3 for <=2 files) with "
            ".py/.pyi/__init__ variants x {namespace packages off/on, explicit package bases} x MYPYPATH x cwd; for each: "
            "`mypy DIR`, files in every order, `-p PKG`, `-m MOD` through the real process_options + build: same "
            "diagnostics (unless the duplicate-module blocker), and graph[module_of(F)].path is F or its sibling stub.",
            "fixture stubs (real typeshed only in the replay's CLI leg); 4-file layers screened by source-list comparison", "4/C18"),
    "C19": ("exploration",
            "exhaustive enumeration of a definition grammar x stubgen modes against four oracles",
            "Every element of a definition grammar (all 149 parameter-kind sequences x default forms x annotation modes, "
            "annotation spellings, classes/properties/static/class methods, dataclasses, enums, NamedTuple and TypedDict in "
            "both syntaxes, overloads, old-style and PEP 695 generics, aliases, conditional definitions, 15 __all__ variants "
            "over a plain body and over a body with decorated non-exported definitions first, "
            "relative imports) x {--parse-only, default, --inspect-mode} through the real stubgen; oracles: ast.parse, mypy "
            "on the stub alone (bundled typeshed), stubtest against the imported runtime module, and a structural "
            "comparison of names and spelled-out annotations. Every signature is re-run with its element alone.",
            "batching may let a neighbour supply an import an element needs (isolation re-runs only for seen signatures)",
            "4/C19"),
    "C13": ("exploration",
            "exhaustive metamorphic enumeration: all subsets of error lines x ignore kinds, all codes disabled, vs a reference model",
            "For every single-step corpus program (Q: 12 seed-selected check-*.test files, T: all 99): every subset of its "
            "annotatable error lines (all when <=5, else size <=2 + full) x {bare, exact code, super-code, wrong code, two "
            "codes} x unused-ignore reporting off/on, every error code present disabled globally / per-module / "
            "re-enabled / via its super-code, and every ABSENT code of a 14-code probe list disabled (all at once, per module, "
            "one by one: output must not change); expected output from a ~60-line model over the baseline run's ErrorInfo objects "
            "(origin span, code, sub_code_of, blocker, parent notes), rendered by mypy's own sort/format pipeline; exit "
            "status 0/1/2 rule through mypy.main.main.",
            "fixture stubs; lines where appending a comment changes the token structure are skipped and counted", "4/C13"),
    "C14": ("exploration",
            "exhaustive differential enumeration of a syntax grammar, token corruptions and the corpus under both parsers",
            "Corpus programs without type comments x target versions, a syntax grammar (163 statement x 145 expression forms, "
            "patterns, type expressions, 35 layouts) enumerated to depth 2 (Q: products with a representative factor, T: "
            "full), and every single-token corruption {delete, duplicate, 14 replacements} of depth-1 programs and a corpus "
            "slice: real builds with native_parser off/on, columns and ends shown; identical diagnostics at two strengths, "
            "blocker iff blocker, and every position of either parser inside the file.",
            "fixture stubs; targets 3.10-3.14 (the tree rejects 3.9); syntax newer than the running interpreter excluded", "4/C14"),
    "C20": ("exploration",
            "exhaustive single-mutation neighbourhood of corpus programs, batch and daemon lanes",
            "For every corpus program of the slice (Q: 8 seed-selected check-*.test files up to 800 mutants each; T: all "
            "9583 programs of check-*, semanal-*, fine-grained*) EVERY delete / duplicate / swap-with-next of each "
            "top-level or class-level statement (T: also renames, type-expression swaps, truncations, mutual references, "
            "pairs of mutations), and EVERY placement of 34 context-sensitive statements and 8 expressions into 27 "
            "suite / expression contexts nested to depth 2 (18 858 programs), is run through the real mypy.main.main with the bundled typeshed (fresh child, warm "
            "stdlib cache copy) and as original -> mutant -> original edits through a real dmypy Server: exit status in "
            "{0,1,2}, no INTERNAL ERROR / traceback / malformed line / hang, daemon alive and answering the original "
            "program as before. Every witness is re-run through the real `python -m mypy` / dmypy before it is reported.",
            "crash-site signatures (exception type + innermost mypy frame) may merge distinct causes at one assertion", "4/C20"),
}

NOT_BUILT = {}


def main() -> None:
    props = [json.loads(l)["id"] for l in open(os.path.join(V, "properties.jsonl"))]
    checks = []
    for pid in props:
        if pid not in CHECKS:
            continue
        cat, tech, text, note, ref = CHECKS[pid]
        checks.append({
            "property_id": pid,
            "quick_cmd": f"./check {pid} --tier quick",
            "thorough_cmd": f"./check {pid} --tier thorough",
            "evidence_file": f"/verif/evidence/{pid}.json",
            "replay_cmd_template": f"./check {pid} --replay {{path}}",
            "engine": "mc",
            "level_claimed": {"category": cat, "text": text, "design_ref": f"DESIGN.md section {ref}"},
            "level_note": note,
            "technique": tech,
        })
    na = [{"property_id": p, "reason": NOT_BUILT.get(p, "check not built yet in this session (see DESIGN.md section 8 build order); no claim is made")}
          for p in props if p not in CHECKS]
    man = {
        "version": 1,
        "setup_cmd": "cd /verif && ./setup.sh",
        "hooks": {
            "guard": "PYTHON_MYPY_VERIF",
            "enable": "no source hooks in /repo: checks import the working tree (editable install / PYTHONPATH=/repo) and "
                      "monkey-patch inside harness processes; worker subprocesses get /verif/mc/shim on PYTHONPATH, whose "
                      "sitecustomize.py is inert unless PYTHON_MYPY_VERIF=1",
            "baseline_off_cmd": BASELINE,
            "source_commits": [],
            "add_only": True,
        },
        "engines": [{
            "name": "mc", "path": "/verif/mc",
            "serves_properties": sorted(CHECKS),
            "kind_free_text": "hand-written explicit-state / stateless bounded-exhaustive explorer in Python driving the real "
                              "mypy / mypyc code (fork-isolated executions, owned clock, store proxy, fault injector, scheduler)",
        }],
        "checks": checks,
        "notes": "All checks: ./check <ID> [--tier quick|thorough] [--replay PATH]; honours VERIF_SEED (exploration order / "
                 "corpus slice only) and VERIF_TIER. Known genuine defects: /verif/known_findings.jsonl.",
        "not_applicable": na,
    }
    with open(os.path.join(V, "MANIFEST.json"), "w") as f:
        json.dump(man, f, indent=1)
        f.write("\n")
    print(f"{len(checks)} checks, {len(na)} not claimed")


if __name__ == "__main__":
    main()
