#!/bin/bash
# Offline setup: nothing to build; verifies the toolchain the checks need is present.
set -e
cd "$(dirname "$0")"
/venv/bin/python -c "import mypy, sys; assert mypy.__file__.startswith('/repo/'), mypy.__file__; print('mypy from', mypy.__file__)"
mkdir -p evidence replays
chmod +x check
echo setup ok
