"""C11: named property-breaking faults, applied by monkey-patching the imported mypy (never edits /repo).

Usage:  cd /verif && PYTHONHASHSEED=0 /venv/bin/python -m mc.c11_faults <fault> [lanes]
runs the quick C11 check with the fault active in this process (forked workers inherit it; the hash-seed
subprocesses apply it through the C11_FAULT environment variable) and prints the violations it reports.
"""

from __future__ import annotations

import os
import sys


def apply(name: str) -> None:
    import mypy.nodes as N
    import mypy.types as T
    from mypy.cache import END_TAG, read_bool, read_str, read_tag

    if name == "var_flags_drop":  # a flag falls out of the JSON flag list
        N.VAR_FLAGS.remove("is_classvar")
    elif name == "funcdef_write_forgets_deprecated":  # binary writer forgets one optional field
        orig = N.FuncDef.write

        def write(self, data):  # type: ignore[no-untyped-def]
            saved, self.deprecated = self.deprecated, None
            try:
                orig(self, data)
            finally:
                self.deprecated = saved

        N.FuncDef.write = write  # type: ignore[method-assign]
    elif name == "typealias_read_swaps":  # reader mirrors the writer in the wrong order
        def read(cls, data):  # type: ignore[no-untyped-def]
            fullname = read_str(data)
            module = read_str(data)
            target = T.read_type(data)
            alias_tvars = T.read_type_var_likes(data)
            normalized = read_bool(data)  # swapped with no_args
            no_args = read_bool(data)
            ret = N.TypeAlias(target, fullname, module, -1, -1, alias_tvars=alias_tvars, no_args=no_args,
                              normalized=normalized, python_3_12_type_alias=read_bool(data))
            assert read_tag(data) == END_TAG
            return ret

        N.TypeAlias.read = classmethod(read)  # type: ignore[method-assign]
    elif name == "typeinfo_json_drops_metaclass":  # JSON reader defaults a class-structure field
        orig_d = N.TypeInfo.deserialize.__func__

        def deserialize(cls, data):  # type: ignore[no-untyped-def]
            ti = orig_d(cls, data)
            ti.declared_metaclass = None
            return ti

        N.TypeInfo.deserialize = classmethod(deserialize)  # type: ignore[method-assign]
        N.deserialize_map["TypeInfo"] = N.TypeInfo.deserialize  # the dispatch table captured the bound method
    elif name == "unsorted_future_flags_and_slots":  # serialized bytes depend on set iteration order
        import builtins

        real = builtins.sorted
        # module-level shadow of the builtin: sets are written in iteration order (slots, future flags, ...)
        N.sorted = lambda x, *a, **k: list(x) if isinstance(x, (set, frozenset)) else real(x, *a, **k)  # type: ignore[attr-defined]
    else:
        raise SystemExit(f"unknown fault {name}")


FAULTS = ["var_flags_drop", "funcdef_write_forgets_deprecated", "typealias_read_swaps", "typeinfo_json_drops_metaclass",
          "unsorted_future_flags_and_slots"]


def main() -> None:
    name = sys.argv[1]
    only = sys.argv[2].split(",") if len(sys.argv) > 2 else None
    apply(name)
    os.environ["C11_FAULT"] = name
    from mc.checks import c11
    from mc.common import Ctx, load_known_findings

    res = c11.run(Ctx(tier="quick", seed=0), only=only)
    known, _ = load_known_findings()
    base = set(BASELINE)
    new = [v for v in res.violations if v.signature not in base and ("C11", v.signature) not in known]
    print(f"FAULT {name}: {len(res.violations)} violations, {len(new)} not in the unchanged-tree baseline")
    for v in new:
        print("  NEW", v.signature, "::", v.what[:220])
    sys.exit(0 if new else 3)


# signatures the unchanged tree produces (genuine findings, see the builder report)
BASELINE = [
    "crash|ff|UnicodeEncodeError|cache.py:write_literal",
    "crash|json|TypeError|util.py:json_dumps",
    "walk|CallableType.from_type_type|ff+json",
    "walk|CallableType.special_sig|ff+json",
    "walk|Parameters.is_ellipsis_args|ff+json",
    "walk|TypedDictType.items#key-order|ff",
]

if __name__ == "__main__":
    main()
