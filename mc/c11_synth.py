"""C11 sub-enumeration (b): every flag combination of every serializable SymbolNode / Type class.

For each class a factory builds a well-formed object; its boolean attributes are DISCOVERED (every slot
whose value on a fresh object is a bool) rather than taken from mypy's own flag lists (VAR_FLAGS,
FUNCDEF_FLAGS, TypeInfo.FLAGS ...), so that a flag dropped from such a list is still toggled and its loss
observed.  Objects are put into a synthetic module `m` (module-level and class-member positions) next to a
real, freshly analysed `builtins`/`typing`/`env` (fixture stubs), and the module goes through the real
serialize -> json_dumps -> json_loads -> deserialize -> fixup  and  write -> read -> fixup  paths.

Oracles per batch (see checks/c11.py): (i) byte-identical re-serialization per format, (ii) both loaded
trees re-serialize to identical JSON and identical binary, (iii) attribute-wise walk original vs loaded.
"""

from __future__ import annotations

import itertools
import os
import traceback
from typing import Any, Callable, Iterator

from mc import c11_walk

# Boolean/optional attributes that exist on the class but cannot be set on an object that is reachable from a
# module's serialized symbol table; they are not toggled.  (Attributes in c11_walk.SKIP are not toggled either.)
UNREACHABLE: dict[tuple[str, str], str] = {
    ("Var", "is_self"): "set only on the Var of a function's first Argument (semanal), which lives in the function's "
                        "local scope; JSON lists it in VAR_FLAGS, the binary writer omits it",
    ("Var", "is_cls"): "as is_self (first argument of a classmethod)",
    ("Var", "is_argument"): "Var of a function Argument: local scope only, never in a module/class table",
    ("TypeAlias", "eager"): "True only for aliases defined inside a function (semanal: eager = self.is_func_scope())",
    ("UnpackType", "from_star_syntax"): "parser-level marker consumed by typeanal while analysing the defining module",
    ("UnionType", "is_evaluated"): "parser-level marker (string annotation / type comment), consumed by typeanal",
    ("UnboundType", "optional"): "parser-level marker consumed by typeanal; unbound types survive only after errors",
    ("UnboundType", "empty_tuple_index"): "parser-level marker consumed by typeanal",
    ("UninhabitedType", "ambiguous"): "inference-internal: checker.is_valid_inferred_type rejects any inferred variable "
                                      "type that contains an ambiguous UninhabitedType; declared types never are",
}

ENV_SRC = """\
from typing import Generic, TypeVar
T = TypeVar("T")
class A: pass
class B(A): pass
class G(Generic[T]): pass
class Meta(type): pass
Alias = G[int]
"""


class Env:
    """Real modules to point at (fixture stubs, freshly analysed in THIS process)."""

    def __init__(self, root: str) -> None:
        import shutil

        from mypy import build as mb
        from mypy.modulefinder import BuildSource
        from mypy.options import Options

        os.makedirs(os.path.join(root, "tmp"), exist_ok=True)
        shutil.copyfile("/repo/test-data/unit/fixtures/dict.pyi", os.path.join(root, "tmp", "builtins.pyi"))
        with open(os.path.join(root, "tmp", "env.py"), "w") as f:
            f.write(ENV_SRC)
        os.chdir(root)
        o = Options()
        o.use_builtins_fixtures = True
        o.incremental = False
        o.cache_dir = os.devnull
        o.show_traceback = True
        o.python_executable = None
        res = mb.build([BuildSource("tmp/env.py", "env", None)], o, alt_lib_path="tmp")
        if res.errors:
            raise RuntimeError(f"env build reported {res.errors}")
        self.modules = dict(res.files)
        self.manager = res.manager

    def info(self, fullname: str) -> Any:
        mod, _, name = fullname.rpartition(".")
        n = self.modules[mod].names[name].node
        return n


# --------------------------------------------------------------------------- value pools


class Pool:
    def __init__(self, env: Env) -> None:
        import mypy.nodes as N
        import mypy.types as T

        self.N, self.T, self.env = N, T, env
        i = env.info
        self.obj = lambda: T.Instance(i("builtins.object"), [])
        self.int = lambda: T.Instance(i("builtins.int"), [])
        self.str = lambda: T.Instance(i("builtins.str"), [])
        self.bool = lambda: T.Instance(i("builtins.bool"), [])
        self.func = lambda: T.Instance(i("builtins.function"), [])
        self.tuple = lambda: T.Instance(i("builtins.tuple"), [self.obj()])
        self.dict = lambda: T.Instance(i("builtins.dict"), [self.str(), self.obj()])
        self.a = lambda: T.Instance(i("env.A"), [])
        self.g_int = lambda: T.Instance(i("env.G"), [self.int()])
        self.meta = lambda: T.Instance(i("env.Meta"), [])
        self.any = lambda: T.AnyType(T.TypeOfAny.explicit)
        self.omitted = lambda: T.AnyType(T.TypeOfAny.from_omitted_generics)

    def tvar(self, name: str = "T", ns: str = "m.f", variance: int = 0, raw: int = -1) -> Any:
        T = self.T
        return T.TypeVarType(name, "m." + name, T.TypeVarId(raw, namespace=ns), [], self.obj(), self.omitted(), variance)

    def pspec(self, flavor: int = 0) -> Any:
        T = self.T
        return T.ParamSpecType("P", "m.P", T.TypeVarId(-2, namespace="m.f"), flavor, self.obj(), self.omitted())

    def tvt(self) -> Any:
        T = self.T
        return T.TypeVarTupleType("Ts", "m.Ts", T.TypeVarId(-3, namespace="m.f"), self.obj(), self.tuple(), self.omitted())

    def callable(self, **kw: Any) -> Any:
        N, T = self.N, self.T
        return T.CallableType([self.int(), self.str()], [N.ARG_POS, N.ARG_OPT], ["x", None], self.a(), self.func(), **kw)

    def literal(self, v: Any = 1) -> Any:
        T = self.T
        fb = self.bool() if isinstance(v, bool) else self.int() if isinstance(v, int) else self.str()
        return T.LiteralType(v, fb)

    def typeddict(self, **kw: Any) -> Any:
        T = self.T
        return T.TypedDictType({"zeta": self.int(), "alpha": self.str(), "mid": self.a()}, {"zeta", "mid"}, {"alpha"},
                               self.dict(), **kw)

    def tupletype(self, **kw: Any) -> Any:
        return self.T.TupleType([self.int(), self.str()], self.tuple(), **kw)

    def type_atoms(self) -> list[tuple[str, Callable[[], Any]]]:
        """Representative types used as 'non-None' values of optional Type fields."""
        T = self.T
        return [("Instance", self.int), ("Generic", self.g_int), ("Callable", self.callable),
                ("Union", lambda: T.UnionType([self.int(), T.NoneType()]))]


# --------------------------------------------------------------------------- variants


class Spec:
    """One class under test: how to build it, which optional fields to vary, how to place it in module m."""

    def __init__(self, name: str, make: Callable[[], Any], optional: dict[str, list[Callable[[], Any]]],
                 setter: Callable[[Any, str, Any], None] | None = None, fixed: tuple[str, ...] = (),
                 enums: dict[str, list[Any]] | None = None, places: tuple[str, ...] = ("module",),
                 normalize: Callable[[Any], None] | None = None) -> None:
        self.name, self.make, self.optional, self.fixed = name, make, optional, fixed
        self.normalize = normalize
        self.setter = setter or setattr
        self.enums = enums or {}
        self.places = places

    def flags(self) -> list[str]:
        o = self.make()
        cls = type(o)
        skipped = c11_walk._skipped(cls)
        names = list(c11_walk.all_slots(cls))
        if getattr(o, "__dict__", None):
            names += list(o.__dict__)
        out = []
        for f in names:
            if f in skipped or (cls.__name__, f) in UNREACHABLE or any((k.__name__, f) in UNREACHABLE for k in cls.__mro__):
                continue
            try:
                v = getattr(o, f)
            except AttributeError:
                continue
            if isinstance(v, bool) and f not in self.optional and f not in self.fixed and f not in self.enums:
                out.append(f)
        return out


def flag_sets(flags: list[str], full_limit: int) -> tuple[list[tuple[str, ...]], bool]:
    """All subsets (exhaustive) when len(flags) <= full_limit, else subsets of size <= 2 and their complements."""
    n = len(flags)
    if n <= full_limit:
        out = [c for k in range(n + 1) for c in itertools.combinations(flags, k)]
        return out, True
    small = [c for k in range(3) for c in itertools.combinations(flags, k)]
    comp = [tuple(f for f in flags if f not in c) for c in small]
    seen: set = set()
    res = []
    for c in small + comp:
        if c not in seen:
            seen.add(c)
            res.append(c)
    return res, False


def variants(spec: Spec, full_limit: int) -> Iterator[tuple[dict[str, Any], Callable[[], Any]]]:
    """(label, thunk building the object).  A: all flag sets x {all optional fields at first value, all at last value};
    B: all combinations of optional/enum values x {no flag set, all flags set}."""
    flags = spec.flags()
    fsets, _full = flag_sets(flags, full_limit)
    opt_names = list(spec.optional) + list(spec.enums)
    choices = {k: list(range(len(v))) for k, v in spec.optional.items()}
    choices.update({k: list(range(len(v))) for k, v in spec.enums.items()})

    def build(fs: tuple[str, ...], sel: dict[str, int]) -> Any:
        o = spec.make()
        for k, idx in sel.items():
            val = spec.optional[k][idx]() if k in spec.optional else spec.enums[k][idx]
            spec.setter(o, k, val)
        for f in flags:
            spec.setter(o, f, f in fs)
        if spec.normalize is not None:
            spec.normalize(o)
        return o

    seen: set = set()
    firsts = {k: 0 for k in opt_names}
    lasts = {k: len(choices[k]) - 1 for k in opt_names}
    for fs in fsets:
        for sel in (firsts, lasts):
            key = (fs, tuple(sorted(sel.items())))
            if key in seen:
                continue
            seen.add(key)
            yield {"class": spec.name, "flags": list(fs), "fields": dict(sel)}, (lambda fs=fs, sel=dict(sel): build(fs, sel))
    few = [(), tuple(flags)] if flags else [()]
    for combo in itertools.product(*[choices[k] for k in opt_names]):
        sel = dict(zip(opt_names, combo))
        for fs in few:
            key = (fs, tuple(sorted(sel.items())))
            if key in seen:
                continue
            seen.add(key)
            yield {"class": spec.name, "flags": list(fs), "fields": dict(sel)}, (lambda fs=fs, sel=dict(sel): build(fs, sel))


def dense_variants(spec: Spec) -> Iterator[tuple[dict[str, Any], Callable[[], Any]]]:
    flags = spec.flags()
    opt_names = list(spec.optional) + list(spec.enums)
    lasts = {k: len(spec.optional[k] if k in spec.optional else spec.enums[k]) - 1 for k in opt_names}

    def build(fs: tuple[str, ...]) -> Any:
        o = spec.make()
        for k, idx in lasts.items():
            spec.setter(o, k, spec.optional[k][idx]() if k in spec.optional else spec.enums[k][idx])
        for f in flags:
            spec.setter(o, f, f in fs)
        if spec.normalize is not None:
            spec.normalize(o)
        return o

    for k in range(len(flags) + 1):
        for fs in itertools.combinations(flags, k):
            yield {"class": spec.name, "flags": list(fs), "fields": dict(lasts)}, (lambda fs=fs: build(fs))


# --------------------------------------------------------------------------- specs


def make_specs(pool: Pool) -> list[Spec]:
    N, T = pool.N, pool.T
    none = lambda: None  # noqa: E731
    specs: list[Spec] = []

    # ---- symbol nodes
    def mk_var() -> Any:
        return N.Var("x", None)

    def norm_var(v: Any) -> None:
        # UNREACHABLE COMBINATION (type None, is_inferred False): semanal clears is_inferred only for a declaration
        # with an explicit type (make_name_lvalue_var(inferred=not explicit_type)), whose type is then stored; the
        # JSON reader relies on the constructor default `is_inferred = type is None` and cannot represent it.
        if v.type is None:
            v.is_inferred = True

    specs.append(Spec("Var", mk_var, {
        "type": [none, pool.int, pool.callable],
        "setter_type": [none, pool.callable],
        "final_value": [none, lambda: 7, lambda: -(2 ** 70), lambda: 0.5, lambda: float("inf"), lambda: "s",
                        lambda: "", lambda: True, lambda: False, lambda: 3 + 2j, lambda: "\ud800",
                        lambda: "x" * 70000],
    }, fixed=(), places=("module", "member"), normalize=norm_var))

    def mk_func() -> Any:
        f = N.FuncDef("f", [], N.Block([]), None)
        f.arg_names = ["self", None]
        f.arg_kinds = [N.ARG_POS, N.ARG_STAR]
        return f

    def dts() -> Any:
        return N.DataclassTransformSpec(eq_default=False, order_default=True, kw_only_default=True,
                                        frozen_default=True, field_specifiers=("m.field", "m.other"))

    specs.append(Spec("FuncDef", mk_func, {
        "type": [none, pool.callable, lambda: T.Overloaded([pool.callable(), pool.callable(name="g")])],
        "dataclass_transform_spec": [none, dts],
        "deprecated": [none, lambda: "do not use"],
        "original_first_arg": [none, lambda: "self"],
    }, enums={"abstract_status": [N.NOT_ABSTRACT, N.IS_ABSTRACT, N.IMPLICITLY_ABSTRACT]},
        places=("module", "member")))

    def mk_dec() -> Any:
        f = mk_func()
        v = N.Var("f", pool.callable())
        v.is_ready = True
        return N.Decorator(f, [], v)

    specs.append(Spec("Decorator", mk_dec, {}, places=("module", "member")))

    def mk_ovl() -> Any:
        o = N.OverloadedFuncDef([mk_dec(), mk_dec()])
        return o

    def set_ovl(o: Any, k: str, v: Any) -> None:
        setattr(o, k, v)

    specs.append(Spec("OverloadedFuncDef", mk_ovl, {
        "type": [none, lambda: T.Overloaded([pool.callable(), pool.callable()])],
        "impl": [none, mk_func, mk_dec],
        "deprecated": [none, lambda: "old"],
        "setter_index": [none, lambda: 1],
    }, setter=set_ovl, places=("module", "member")))

    def mk_tvexpr() -> Any:
        return N.TypeVarExpr("TV", "m.TV", [], pool.obj(), pool.omitted(), N.INVARIANT)

    specs.append(Spec("TypeVarExpr", mk_tvexpr, {
        "values": [lambda: [], lambda: [pool.int(), pool.str()]],
        "upper_bound": [pool.obj, pool.a],
        "default": [pool.omitted, pool.int],
    }, enums={"variance": [N.INVARIANT, N.COVARIANT, N.CONTRAVARIANT, N.VARIANCE_NOT_READY]}))

    specs.append(Spec("ParamSpecExpr", lambda: N.ParamSpecExpr("PS", "m.PS", pool.obj(), pool.omitted(), N.INVARIANT), {
        "upper_bound": [pool.obj, pool.a],
        "default": [pool.omitted, lambda: T.Parameters([pool.int()], [N.ARG_POS], [None])],
    }, enums={"variance": [N.INVARIANT, N.COVARIANT, N.CONTRAVARIANT, N.VARIANCE_NOT_READY]}))

    specs.append(Spec("TypeVarTupleExpr",
                      lambda: N.TypeVarTupleExpr("TT", "m.TT", pool.obj(), pool.tuple(), pool.omitted(), N.INVARIANT), {
                          "default": [pool.omitted, lambda: T.UnpackType(pool.tuple())],
                      }, enums={"variance": [N.INVARIANT, N.COVARIANT, N.CONTRAVARIANT, N.VARIANCE_NOT_READY]}))

    def mk_alias() -> Any:
        return N.TypeAlias(pool.g_int(), "m.AL", "m", -1, -1)

    def set_alias(o: Any, k: str, v: Any) -> None:
        setattr(o, k, v)
        if k == "alias_tvars":  # what TypeAlias.__init__ derives from alias_tvars
            o.tvar_tuple_index = None
            for i, t in enumerate(v):
                if isinstance(t, T.TypeVarTupleType):
                    o.tvar_tuple_index = i

    specs.append(Spec("TypeAlias", mk_alias, setter=set_alias, optional={
        "target": [pool.g_int, pool.typeddict, lambda: T.UnionType([pool.int(), T.NoneType()])],
        "alias_tvars": [lambda: [], lambda: [pool.tvar(ns="m.AL", raw=1)], lambda: [pool.pspec(), pool.tvt()]],
    }))

    # ---- TypeInfo
    def mk_info() -> Any:
        defn = N.ClassDef("K", N.Block([]))
        defn.fullname = "m.K"
        info = N.TypeInfo(N.SymbolTable(), defn, "m")
        defn.info = info
        info.bases = [pool.a()]
        info.mro = [info, pool.env.info("env.A"), pool.env.info("builtins.object")]
        return info

    def set_info_field(o: Any, k: str, v: Any) -> None:
        if k in ("tuple_type", "typeddict_type"):
            if v is not None:
                if k == "tuple_type":
                    v.partial_fallback = T.Instance(o, [])
                    o.update_tuple_type(v)
                else:
                    o.update_typeddict_type(v)
                # semanal.py (analyze_class, after a named tuple / typed dict base): same derivation
                o.special_alias.alias_tvars = list(o.defn.type_vars)
                for i, t in enumerate(o.defn.type_vars):
                    if isinstance(t, T.TypeVarTupleType):
                        o.special_alias.tvar_tuple_index = i
        elif k == "type_vars_defn":  # first in the table: everything below derives from the class type variables
            if v:
                o.defn.type_vars = v
                o.type_vars = []
                o.add_type_vars()
        else:
            setattr(o, k, v)

    specs.append(Spec("TypeInfo", mk_info, {
        "type_vars_defn": [lambda: [], lambda: [pool.tvar(ns="m.K", raw=1), pool.pspec()]],
        "alt_promote": [none, pool.int],
        "declared_metaclass": [none, pool.meta],
        "metaclass_type": [none, pool.meta],
        "tuple_type": [none, pool.tupletype],
        "typeddict_type": [none, pool.typeddict],
        "slots": [none, lambda: {"b", "a"}],
        "self_type": [none, lambda: pool.tvar("Self", ns="m.K", raw=0)],
        "dataclass_transform_spec": [none, dts],
        "deprecated": [none, lambda: "gone"],
        "metadata": [lambda: {}, lambda: {"zplug": {"b": [1, "x", None, True, 2.5], "a": {"n": {}}}, "aplug": {}}],
        "_promote": [lambda: [], lambda: [pool.int(), pool.a()]],
        "abstract_attributes": [lambda: [], lambda: [("f", 1), ("g", 2)]],
        "deletable_attributes": [lambda: [], lambda: ["d1", "d2"]],
    }, setter=set_info_field, fixed=("has_type_var_tuple_type",)))

    # ---- SymbolTableNode (flags x kind x node kind) is enumerated separately in batches()

    # ---- types (held by a Var)
    specs.append(Spec("CallableType", pool.callable, {
        "name": [none, lambda: "f of K"],
        "type_guard": [none, pool.int],
        "type_is": [none, pool.a],
        "instance_type": [none, pool.a],
        "special_sig": [none, lambda: "dict"],
        "variables": [lambda: (), lambda: (pool.tvar(), pool.pspec(), pool.tvt())],
    }, places=("type",)))
    specs.append(Spec("Parameters", lambda: T.Parameters([pool.int()], [N.ARG_POS], ["x"]), {
        "variables": [lambda: [], lambda: [pool.tvar()]],
    }, fixed=(), places=("type_arg",)))
    specs.append(Spec("TupleType", pool.tupletype, {}, places=("type",)))
    def set_td(o: Any, k: str, v: Any) -> None:
        setattr(o, k, v)
        if k == "required_keys":  # what TypedDictType.__init__ derives from required_keys
            o.can_be_false = len(v) == 0

    specs.append(Spec("TypedDictType", pool.typeddict, {
        "required_keys": [lambda: set(), lambda: {"zeta", "alpha"}],
        "readonly_keys": [lambda: set(), lambda: {"mid", "alpha"}],
    }, setter=set_td, places=("type",)))
    specs.append(Spec("UnionType", lambda: T.UnionType([pool.int(), T.NoneType()]), {}, places=("type",)))
    specs.append(Spec("TypeType", lambda: T.TypeType(pool.a()), {}, places=("type",)))
    specs.append(Spec("UnpackType", lambda: T.UnpackType(pool.tvt()), {}, places=("tuple_item",)))
    specs.append(Spec("UninhabitedType", lambda: T.UninhabitedType(), {}, places=("type",)))
    specs.append(Spec("NoneType", lambda: T.NoneType(), {}, places=("type",)))
    specs.append(Spec("DeletedType", lambda: T.DeletedType(), {"source": [none, lambda: "x"]}, places=("type",)))
    def set_any(o: Any, k: str, v: Any) -> None:
        # AnyType has constructor invariants (which kinds may carry a source / an import name): take a whole,
        # constructor-built value instead of poking single attributes
        for f in ("type_of_any", "source_any", "missing_import_name"):
            setattr(o, f, getattr(v, f))

    any_shapes = [lambda k=k: T.AnyType(k) for k in (1, 2, 3, 4, 5, 6, 8, 9)]
    any_shapes.append(lambda: T.AnyType(T.TypeOfAny.from_unimported_type, None, "pkg.missing"))
    any_shapes.append(lambda: T.AnyType(T.TypeOfAny.from_another_any, T.AnyType(T.TypeOfAny.explicit)))
    any_shapes.append(lambda: T.AnyType(T.TypeOfAny.from_another_any,
                                        T.AnyType(T.TypeOfAny.from_unimported_type, None, "pkg.mod")))
    specs.append(Spec("AnyType", lambda: T.AnyType(T.TypeOfAny.explicit), {"shape": any_shapes}, setter=set_any,
                      fixed=("type_of_any", "source_any", "missing_import_name"), places=("type",)))
    specs.append(Spec("UnboundType", lambda: T.UnboundType("nm", [pool.int()]), {
        "original_str_expr": [none, lambda: "  foo "],
        "original_str_fallback": [none, lambda: "builtins.str"],
    }, places=("type",)))
    specs.append(Spec("Instance", pool.g_int, {
        "last_known_value": [none, lambda: pool.literal(3)],
        "extra_attrs": [none, lambda: T.ExtraAttrs({"zz": pool.int(), "aa": pool.str()}, {"zz"}, "pkg.mod")],
    }, places=("type",)))
    specs.append(Spec("LiteralType", pool.literal, {
        "value": [lambda: 1, lambda: 2 ** 64, lambda: -1, lambda: "v", lambda: "", lambda: True, lambda: False,
                  lambda: T.SentinelValue("m.MISSING", "MISSING"), lambda: "\ud800", lambda: "\x00€"],
    }, places=("type",)))
    specs.append(Spec("TypeVarType", pool.tvar, {
        "values": [lambda: [], lambda: [pool.int(), pool.str()]],
        "upper_bound": [pool.obj, pool.a],
        "default": [pool.omitted, pool.int],
        "id": [lambda: T.TypeVarId(-1, namespace="m.f"), lambda: T.TypeVarId(3, namespace="m.K"),
               lambda: T.TypeVarId(0, namespace="")],
    }, enums={"variance": [N.INVARIANT, N.COVARIANT, N.CONTRAVARIANT, N.VARIANCE_NOT_READY]}, places=("type",)))
    specs.append(Spec("ParamSpecType", pool.pspec, {
        "prefix": [lambda: T.Parameters([], [], []), lambda: T.Parameters([pool.int()], [N.ARG_POS], [None])],
    }, enums={"flavor": [0, 1, 2]}, places=("type",)))
    specs.append(Spec("TypeVarTupleType", pool.tvt, {}, enums={"min_len": [0, 2]}, places=("tuple_item_unpack",)))
    specs.append(Spec("TypeAliasType", lambda: T.TypeAliasType(pool.env.info("env.Alias"), []), {
        "args": [lambda: [], lambda: [pool.int()]],
    }, places=("type",)))
    specs.append(Spec("Overloaded", lambda: T.Overloaded([pool.callable(), pool.callable(name="h")]), {}, places=("type",)))
    specs.append(Spec("ExtraAttrs", lambda: T.ExtraAttrs({"b": pool.int(), "a": pool.str()}, {"b"}, None), {
        "mod_name": [none, lambda: "pkg.m"],
        "immutable": [lambda: set(), lambda: {"b", "a"}],
    }, places=("extra_attrs",)))
    specs.append(Spec("DataclassTransformSpec", dts, {
        "field_specifiers": [lambda: (), lambda: ("m.z", "m.a")],
    }, places=("dts",)))
    return specs


# --------------------------------------------------------------------------- module assembly / round trip


class Module:
    """Synthetic module `m` under construction."""

    def __init__(self, pool: Pool) -> None:
        N = pool.N
        self.N, self.pool = N, pool
        self.tree = N.MypyFile([], [])
        self.tree._fullname = "m"
        self.tree.path = "m.py"
        self.tree.names = N.SymbolTable()
        self.labels: dict[str, dict] = {}
        self.n = 0

    def _class(self, name: str) -> Any:
        N = self.N
        defn = N.ClassDef(name, N.Block([]))
        defn.fullname = "m." + name
        info = N.TypeInfo(N.SymbolTable(), defn, "m")
        defn.info = info
        info.bases = [self.pool.obj()]
        info.mro = [info, self.pool.env.info("builtins.object")]
        self.tree.names[name] = N.SymbolTableNode(N.GDEF, info)
        return info

    def add(self, label: dict, obj: Any, place: str, sym_kw: dict | None = None, kind: int | None = None) -> str:
        N, T = self.N, self.pool.T
        name = f"s{self.n}"
        self.n += 1
        self.labels[name] = label
        sym_kw = sym_kw or {}
        if place == "module":
            _rename(obj, name, "m." + name, N)
            self.tree.names[name] = N.SymbolTableNode(N.GDEF if kind is None else kind, obj, **sym_kw)
        elif place == "member":
            info = self._class("C" + name)
            _rename(obj, name, f"m.C{name}.{name}", N)
            N.set_info(obj, info)
            info.names[name] = N.SymbolTableNode(N.MDEF if kind is None else kind, obj, **sym_kw)
        else:
            if place == "type":
                t = obj
            elif place == "type_arg":
                t = T.Instance(self.pool.env.info("env.G"), [obj])
            elif place == "tuple_item":
                t = T.TupleType([self.pool.int(), obj], self.pool.tuple())
            elif place == "tuple_item_unpack":
                t = T.TupleType([self.pool.int(), T.UnpackType(obj)], self.pool.tuple())
            elif place == "extra_attrs":
                t = self.pool.g_int()
                t.extra_attrs = obj
            elif place == "dts":
                f = N.FuncDef(name, [], N.Block([]), None)
                f._fullname = "m." + name
                f.dataclass_transform_spec = obj
                self.tree.names[name] = N.SymbolTableNode(N.GDEF, f)
                return name
            else:
                raise AssertionError(place)
            v = N.Var(name, t)
            v._fullname = "m." + name
            self.tree.names[name] = N.SymbolTableNode(N.GDEF, v)
        return name


def _rename(obj: Any, name: str, fullname: str, N: Any) -> None:
    if isinstance(obj, N.TypeInfo):
        obj.defn.name = name
        obj.defn.fullname = fullname
        obj._fullname = fullname
        if obj.special_alias is not None:
            obj.special_alias._fullname = fullname
        for t in (obj.tuple_type,):
            if t is not None:
                pass
    elif isinstance(obj, N.Decorator):
        obj.func._name = name
        obj.func._fullname = fullname
        obj.var._name = name
        obj.var._fullname = fullname
    elif isinstance(obj, N.OverloadedFuncDef):
        obj._fullname = fullname
        for it in obj.items + ([obj.impl] if obj.impl else []):
            _rename(it, name, fullname, N)
    elif isinstance(obj, (N.FuncDef, N.Var, N.TypeVarLikeExpr)):
        obj._name = name
        obj._fullname = fullname
    elif isinstance(obj, N.TypeAlias):
        obj._fullname = fullname


def _fix(tree: Any, env: Env) -> None:
    """What State.fix_cross_refs does, with `m` registered next to the real modules."""
    from mypy.fixup import NodeFixer
    from mypy.modules_state import modules_state
    from mypy.types import instance_cache

    modules = dict(env.modules)
    modules["m"] = tree
    modules_state.modules = modules
    fixer = modules_state.node_fixer = NodeFixer(modules, False)
    fixer.visit_symbol_table(tree.names)
    for inst in (instance_cache.str_type, instance_cache.function_type, instance_cache.int_type,
                 instance_cache.bool_type, instance_cache.object_type):
        if inst is not None:
            inst.accept(fixer.type_fixer)


def round_trip(mod: Module, env: Env) -> dict[str, Any]:
    """All oracles on one synthetic module.  Returns {errors: [...], diffs: {fmt: [...]}, bytes: {...}}."""
    from librt.internal import ReadBuffer, WriteBuffer

    import mypy.nodes as N
    from mypy.util import json_dumps, json_loads

    out: dict[str, Any] = {"stage_errors": {}, "diffs": {}, "bytes": {}, "tolerated": 0}
    dumper = c11_walk.Dumper()
    tree = mod.tree
    orig = dumper.module(tree)
    loaded: dict[str, Any] = {}
    first: dict[str, bytes] = {}
    # --- JSON
    try:
        js = json_dumps(tree.serialize())
        first["json"] = js
        t = N.MypyFile.deserialize(json_loads(js))
        _fix(t, env)
        loaded["json"] = t
    except BaseException as e:  # noqa: BLE001
        out["stage_errors"]["json"] = _exc(e)
    # --- binary
    try:
        buf = WriteBuffer()
        tree.write(buf)
        ff = buf.getvalue()
        first["ff"] = ff
        t = N.MypyFile.read(ReadBuffer(ff))
        _fix(t, env)
        loaded["ff"] = t
    except BaseException as e:  # noqa: BLE001
        out["stage_errors"]["ff"] = _exc(e)
    re_json: dict[str, bytes] = {}
    re_ff: dict[str, bytes] = {}
    for fmt, t in loaded.items():
        try:
            d = dumper.module(t)  # also forces the lazy per-symbol fixup
            diffs = c11_walk.diff(orig, d, limit=100000)
            out["tolerated"] += sum(1 for x in diffs if c11_walk.tolerated(*x))
            out["diffs"][fmt] = [(c11_walk.field_of(p), _sym_of(p), c11_walk.show_path(p), c11_walk.brief(a), c11_walk.brief(b))
                                 for p, a, b in diffs if not c11_walk.tolerated(p, a, b)]
        except BaseException as e:  # noqa: BLE001
            out["stage_errors"][fmt + "-walk"] = _exc(e)
            continue
        try:
            re_json[fmt] = json_dumps(t.serialize())
        except BaseException as e:  # noqa: BLE001
            out["stage_errors"].setdefault("json-rewrite", _exc(e))
        try:
            buf = WriteBuffer()
            t.write(buf)
            re_ff[fmt] = buf.getvalue()
        except BaseException as e:  # noqa: BLE001
            out["stage_errors"].setdefault("ff-rewrite", _exc(e))
    b = out["bytes"]
    if "json" in re_json and "json" in first:
        b["i_json"] = re_json["json"] == first["json"]
    if "ff" in re_ff and "ff" in first:
        b["i_ff"] = re_ff["ff"] == first["ff"]
    if "json" in re_json and "ff" in re_json:
        b["ii_json"] = re_json["json"] == re_json["ff"]
    if "json" in re_ff and "ff" in re_ff:
        b["ii_ff"] = re_ff["json"] == re_ff["ff"]
    out["counts"] = dumper.counts
    return out


def _sym_of(path: tuple) -> str | None:
    """Top-level symbol (or class C<sym>) of module m the difference sits under."""
    for i, p in enumerate(path):
        if p == ("f", "MypyFile.names") and i + 1 < len(path):
            s = path[i + 1]
            return s[1:] if isinstance(s, str) and s.startswith("Cs") else s
    return None


def _exc(e: BaseException) -> dict[str, str]:
    tb = traceback.extract_tb(e.__traceback__)
    where = next((f"{os.path.basename(fr.filename)}:{fr.name}" for fr in reversed(tb) if "/repo/mypy/" in fr.filename), "?")
    return {"type": type(e).__name__, "msg": str(e)[:200], "where": where, "tb": "".join(traceback.format_exception(e))[-1500:]}


# --------------------------------------------------------------------------- SymbolTableNode enumeration


def symbol_variants(pool: Pool) -> Iterator[tuple[dict[str, Any], Callable[[], Any], str, dict, int]]:
    """All 2^4 boolean combinations x 4 kinds x node shapes (own Var / own class / cross reference / module)."""
    N = pool.N
    bools = ["module_public", "implicit", "module_hidden", "plugin_generated"]
    shapes: list[tuple[str, Callable[[], Any], str]] = [
        ("own-Var", lambda: N.Var("x", pool.int()), "module"),
        ("member-Var", lambda: N.Var("x", pool.int()), "member"),
        ("xref-TypeInfo", lambda: pool.env.info("env.A"), "raw"),
        ("xref-TypeAlias", lambda: pool.env.info("env.Alias"), "raw"),
        ("module", lambda: pool.env.modules["env"], "raw"),
    ]
    for shape, mk, place in shapes:
        for kind in (N.LDEF, N.GDEF, N.MDEF, N.UNBOUND_IMPORTED):
            for k in range(len(bools) + 1):
                for on in itertools.combinations(bools, k):
                    kw = {b: (b in on) for b in bools}
                    yield ({"class": "SymbolTableNode", "flags": list(on), "fields": {"kind": kind, "shape": shape}},
                           mk, place, kw, kind)


# --------------------------------------------------------------------------- runner


def _add_symbol(mod: Module, label: dict, thunk: Callable[[], Any], place: str, kw: dict, kind: int) -> str:
    N = mod.N
    if place != "raw":
        return mod.add(label, thunk(), place, sym_kw=kw, kind=kind)
    name = f"s{mod.n}"
    mod.n += 1
    mod.labels[name] = label
    mod.tree.names[name] = N.SymbolTableNode(kind, thunk(), **kw)
    return name


def _run_group(pool: Pool, env: Env, group: list[tuple], agg: dict[str, Any], promote0: list) -> None:
    """One synthetic module holding `group`; attribute problems to single variants."""

    def build(items: list[tuple]) -> Module:
        mod = Module(pool)
        for it in items:
            if len(it) == 3:
                label, thunk, place = it
                mod.add(label, thunk(), place)
            else:
                _add_symbol(mod, *it)
        return mod

    def restore() -> None:
        env.info("builtins.int")._promote[:] = promote0

    mod = build(group)
    rt = round_trip(mod, env)
    restore()
    agg["modules"] += 1
    agg["tolerated"] += rt["tolerated"]
    for k, v in rt.get("counts", {}).items():
        agg["counts"][k] = agg["counts"].get(k, 0) + v
    for fmt, diffs in rt["diffs"].items():
        for field, sym, path, a, b in diffs:
            label = mod.labels.get(sym or "", {"class": "?", "symbol": sym})
            agg["findings"].append({"kind": "walk", "fmt": fmt, "field": field, "label": label, "path": path,
                                    "fresh": a, "loaded": b})
    bad_bytes = [k for k, ok in rt["bytes"].items() if not ok]
    if not rt["stage_errors"] and not bad_bytes:
        return
    if len(group) == 1:
        label = group[0][0]
        for stage, e in rt["stage_errors"].items():
            agg["findings"].append({"kind": "crash", "fmt": stage.split("-")[0], "stage": stage, "exc": e["type"],
                                    "msg": e["msg"], "where": e["where"], "label": label, "tb": e["tb"]})
        walk_fields = sorted({d[0] for ds in rt["diffs"].values() for d in ds})
        for k in bad_bytes:
            agg["findings"].append({"kind": "bytes", "oracle": k, "label": label, "explained_by": walk_fields})
        return
    for it in group:  # isolate
        _run_group(pool, env, [it], agg, promote0)


def run_job(job: dict[str, Any]) -> dict[str, Any]:
    """job: {cls, full_limit, root, part, parts, group}.  Runs in a fresh process (builds its own Env)."""
    env = Env(job["root"])
    pool = Pool(env)
    promote0 = list(env.info("builtins.int")._promote)
    agg: dict[str, Any] = {"cls": job["cls"], "findings": [], "modules": 0, "variants": 0, "tolerated": 0, "counts": {},
                           "flag_sets": 0, "flags": [], "exhaustive_flags": True, "optional": [], "samples": []}
    if job["cls"] == "SymbolTableNode":
        it: Iterator = symbol_variants(pool)
        agg["flags"] = ["module_public", "implicit", "module_hidden", "plugin_generated"]
        agg["optional"] = ["kind", "shape"]
        agg["flag_sets"] = 16
        items = ((lab, th, pl, kw, kd) for lab, th, pl, kw, kd in it)
    else:
        spec = next(s for s in make_specs(pool) if s.name == job["cls"])
        flags = spec.flags()
        fsets, full = flag_sets(flags, job["full_limit"])
        agg["flags"], agg["flag_sets"], agg["exhaustive_flags"] = flags, len(fsets), full
        agg["optional"] = list(spec.optional) + list(spec.enums)
        o = spec.make()
        cls = type(o)
        agg["unvaried"] = [f for f in c11_walk.all_slots(cls) if f not in c11_walk._skipped(cls) and f not in flags
                           and f not in spec.optional and f not in spec.enums
                           and not any((k.__name__, f) in UNREACHABLE for k in cls.__mro__)]
        agg["unreachable"] = [f for f in c11_walk.all_slots(cls) if any((k.__name__, f) in UNREACHABLE for k in cls.__mro__)]
        if job.get("dense"):
            # thorough only: ALL 2^n flag subsets, every optional field at its last value, last placement
            agg["flag_sets"], agg["exhaustive_flags"], agg["dense"] = 2 ** len(flags), True, True
            items = ((lab, th, spec.places[-1]) for lab, th in dense_variants(spec))
        else:
            items = ((lab, th, pl) for lab, th in variants(spec, job["full_limit"]) for pl in spec.places)
    group: list[tuple] = []
    for idx, item in enumerate(items):
        if idx % job["parts"] != job["part"]:
            continue
        agg["variants"] += 1
        if len(agg["samples"]) < 2 and idx > 3:
            agg["samples"].append(item[0])
        group.append(item)
        if len(group) >= job["group"]:
            _run_group(pool, env, group, agg, promote0)
            group = []
    if group:
        _run_group(pool, env, group, agg, promote0)
    # keep the transfer small: first finding per (kind, fmt, field/where/oracle) + counts
    seen: dict[tuple, dict] = {}
    n_by: dict[tuple, int] = {}
    for f in agg["findings"]:
        key = (f["kind"], f.get("fmt"), f.get("field") or f.get("oracle") or (f.get("exc"), f.get("where")),
               tuple(f.get("explained_by", ())))
        n_by[key] = n_by.get(key, 0) + 1
        seen.setdefault(key, f)
    agg["findings"] = [dict(f, occurrences=n_by[k]) for k, f in seen.items()]
    return agg


def replay_variant(job: dict[str, Any]) -> dict[str, Any]:
    """Rebuild exactly one labelled variant and round-trip it alone."""
    env = Env(job["root"])
    pool = Pool(env)
    promote0 = list(env.info("builtins.int")._promote)
    label = job["label"]
    agg: dict[str, Any] = {"findings": [], "modules": 0, "variants": 1, "tolerated": 0, "counts": {}}
    if label["class"] == "SymbolTableNode":
        for it in symbol_variants(pool):
            if it[0] == label:
                _run_group(pool, env, [it], agg, promote0)
                break
    else:
        spec = next(s for s in make_specs(pool) if s.name == label["class"])
        for lab, th in variants(spec, 99):
            if lab["flags"] == label["flags"] and lab["fields"] == label["fields"]:
                for pl in spec.places:
                    _run_group(pool, env, [(lab, th, pl)], agg, promote0)
                break
    return agg


ALL_CLASSES = ["Var", "FuncDef", "Decorator", "OverloadedFuncDef", "TypeVarExpr", "ParamSpecExpr", "TypeVarTupleExpr",
               "TypeAlias", "TypeInfo", "SymbolTableNode", "CallableType", "Parameters", "TupleType", "TypedDictType",
               "UnionType", "TypeType", "UnpackType", "UninhabitedType", "NoneType", "DeletedType", "AnyType",
               "UnboundType", "Instance", "LiteralType", "TypeVarType", "ParamSpecType", "TypeVarTupleType",
               "TypeAliasType", "Overloaded", "ExtraAttrs", "DataclassTransformSpec"]
