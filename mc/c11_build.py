"""C11 helper: cold build WITH cache (writer side) and fresh-from-cache load in another process.

`cold(spec)` and `load(spec)` must run in two different freshly forked/spawned processes.

spec keys
  root       cwd of the build
  sources    [(path, module)]
  fixtures   True: fixture stubs (corpus cases, alt_lib_path "tmp"); False: bundled typeshed
  flags      `# flags:` tokens of a corpus case (processed by mypy.main.process_options) or None
  pyversion  (major, minor) or None
  fmt        "ff" | "json"
  cache_dir  cache directory (per format)
  dump       path of the pickle with the fresh structural dumps (written by cold, read by load)
  want_bytes list of module ids whose serialized bytes are returned verbatim (hash-seed lane)
"""

from __future__ import annotations

import hashlib
import io
import os
import pickle
import sys
import traceback
from typing import Any

from mc import c11_walk


def _options(spec: dict[str, Any]) -> Any:
    from mypy.options import Options

    flags = spec.get("flags")
    if flags:
        from mypy.main import process_options

        _t, o = process_options(list(flags) + ["--no-site-packages"], require_targets=False,
                                stdout=io.StringIO(), stderr=io.StringIO())
    else:
        o = Options()
    o.error_summary = False
    o.show_traceback = True
    o.python_executable = None
    o.use_builtins_fixtures = bool(spec.get("fixtures"))
    if spec.get("pyversion") and not any(f.split("=")[0] == "--python-version" for f in (flags or [])):
        o.python_version = tuple(spec["pyversion"])
    o.incremental = True
    o.cache_dir = spec["cache_dir"]
    o.sqlite_cache = False
    o.fixed_format_cache = spec["fmt"] == "ff"
    o.num_workers = 0
    return o


def _build(spec: dict[str, Any], on_write: Any = None) -> tuple[Any, dict[str, Any]]:
    from mypy import build as mb
    from mypy.errors import CompileError
    from mypy.modulefinder import BuildSource

    os.chdir(spec["root"])
    out: dict[str, Any] = {"blocker": False, "crashed": None, "messages": []}
    try:
        o = _options(spec)
    except SystemExit as e:
        out["crashed"] = f"options rejected: SystemExit({e.code})"
        out["options_rejected"] = True
        return None, out
    srcs = [BuildSource(p, m, None) for p, m in spec["sources"]]
    serr, sout = io.StringIO(), io.StringIO()
    res = None
    if on_write is not None:
        # observe the tree at the moment it is serialized: State.write_cache calls the module-level function
        real_write_cache = mb.write_cache

        def write_cache(id: str, path: str, tree: Any, *a: Any, **k: Any) -> Any:
            r = real_write_cache(id, path, tree, *a, **k)
            on_write(id, tree)
            return r

        mb.write_cache = write_cache
    try:
        res = mb.build(sources=srcs, options=o, alt_lib_path="tmp" if spec.get("fixtures") else None,
                       stdout=sout, stderr=serr)
        out["messages"] = list(res.errors)
    except CompileError as e:
        out["messages"] = list(e.messages)
        out["blocker"] = True
    except SystemExit as e:
        out["crashed"] = f"SystemExit({e.code})\n{serr.getvalue()[-4000:]}"
    except BaseException as e:  # noqa: BLE001
        out["crashed"] = f"{type(e).__name__}: {e}\n{traceback.format_exc()[-4000:]}"
    if out["crashed"] is None and ("INTERNAL ERROR" in serr.getvalue() or "Traceback (most recent" in serr.getvalue()):
        out["crashed"] = serr.getvalue()[-4000:]
    return res, out


def _sha(b: bytes) -> str:
    return hashlib.sha1(b).hexdigest()


def cold(spec: dict[str, Any]) -> dict[str, Any]:
    """Writer side: build everything from source with the cache enabled; dump each freshly analysed tree right
    after mypy serialized it (later modules of the same build may still mutate shared objects: decorators naming a
    callable of another module, native-int promotions appended to builtins.int, ...)."""
    dumper = c11_walk.Dumper()
    dumps: dict[str, Any] = {}
    dump_errors: list[str] = []

    def on_write(mid: str, tree: Any) -> None:
        try:
            dumps[mid] = dumper.module(tree)
        except BaseException as e:  # noqa: BLE001
            dump_errors.append(f"{mid}: {type(e).__name__}: {e}\n{traceback.format_exc()[-1500:]}")

    res, out = _build(spec, on_write)
    if dump_errors:
        out["dump_errors"] = dump_errors
    if res is None:
        return out
    m = res.manager
    g = res.graph
    mods: dict[str, Any] = {}
    want = set(spec.get("want_bytes") or ())
    for mid in sorted(g):
        st = g[mid]
        tree = m.modules.get(mid)
        if tree is None:
            continue
        info: dict[str, Any] = {"interface_hash": st.interface_hash.hex(), "cached": False}
        if st.meta is not None:
            try:
                data = m.metastore.read(st.meta.data_file)
                info["cached"] = True
                info["data_sha"] = _sha(data)
                info["data_len"] = len(data)
                if mid in want:
                    info["data"] = data
            except OSError:
                pass
        mods[mid] = info
        if tree.is_cache_skeleton:
            info["from_cache"] = True  # a dependency taken from a pre-warmed cache: not freshly analysed here
    with open(spec["dump"], "wb") as f:
        pickle.dump(dumps, f, protocol=pickle.HIGHEST_PROTOCOL)
    out["modules"] = mods
    out["counts"] = dumper.counts
    out["opaque"] = dumper.opaque
    out["rechecked"] = sorted(m.rechecked_modules)
    try:
        m.metastore.close()
    except Exception:  # noqa: BLE001
        pass
    return out


def load(spec: dict[str, Any]) -> dict[str, Any]:
    """Reader side: warm build (nothing may be stale), then load EVERY module from its cache file with
    the real `process_fresh_modules` (load_tree + fix_cross_refs) in dependency order, exactly as
    `maybe_load_deps` does for the dependencies of a stale module."""
    from librt.internal import WriteBuffer

    from mypy import build as mb
    from mypy.util import json_dumps

    res, out = _build(spec)
    if res is None:
        return out
    m = res.manager
    g = res.graph
    out["rechecked"] = sorted(m.rechecked_modules)
    out["stale"] = sorted(m.stale_modules)
    out["preloaded"] = sorted(m.modules)  # trees already in memory after the warm build (expected: none)
    fresh_ids = [mid for mid in g if mid not in m.rechecked_modules and g[mid].meta is not None]
    loaded: list[str] = []
    load_error = None
    try:
        for sid in m.top_order:
            scc = m.scc_by_id[sid]
            ids = sorted(i for i in scc.mod_ids)
            if sid in m.done_sccs or any(i in m.rechecked_modules or g[i].meta is None for i in ids):
                continue
            m.done_sccs.add(sid)
            mb.process_fresh_modules(g, ids, m)
            loaded.extend(ids)
    except BaseException as e:  # noqa: BLE001
        load_error = f"{type(e).__name__}: {e}\n{traceback.format_exc()[-3000:]}"
    out["load_error"] = load_error
    out["fresh_ids"] = sorted(fresh_ids)
    with open(spec["dump"], "rb") as f:
        fresh_dumps = pickle.load(f)
    dumper = c11_walk.Dumper()
    mods: dict[str, Any] = {}
    want = set(spec.get("want_bytes") or ())
    for mid in sorted(loaded):
        tree = m.modules.get(mid)
        info: dict[str, Any] = {}
        mods[mid] = info
        if tree is None or not tree.is_cache_skeleton:
            info["error"] = "module was not loaded from cache"
            continue
        try:
            data = m.metastore.read(g[mid].meta.data_file)
            # (iii) structural walk first: it also forces the lazy per-symbol fixup
            fd = fresh_dumps.get(mid)
            if fd is None:
                info["dependency_only"] = True
                continue
            d = dumper.module(tree)
            if True:
                diffs = c11_walk.diff(fd, d, limit=400)
                info["tolerated"] = sum(1 for p, a, b in diffs if c11_walk.tolerated(p, a, b))
                diffs = [x for x in diffs if not c11_walk.tolerated(*x)][:40]
                info["diffs"] = [(c11_walk.field_of(p), c11_walk.show_path(p), c11_walk.brief(a), c11_walk.brief(b))
                                 for p, a, b in diffs]
            # (i)/(ii) re-serialize the loaded tree in both formats
            buf = WriteBuffer()
            tree.write(buf)
            ff = buf.getvalue()
            js = json_dumps(tree.serialize(), m.options.debug_cache)
            same = ff if spec["fmt"] == "ff" else js
            if same != data:
                saved = c11_walk.strip_backward_promotions(tree)
                if saved:  # cross-module state re-created by fixup, see c11_walk.Dumper.type_info
                    if spec["fmt"] == "ff":
                        buf = WriteBuffer()
                        tree.write(buf)
                        same2 = buf.getvalue()
                    else:
                        same2 = json_dumps(tree.serialize(), m.options.debug_cache)
                    for ti, orig in saved:
                        ti._promote = orig
                    if same2 == data:
                        same = same2
                        info["rt_modulo_backward_promotions"] = True
            info["rt_equal"] = same == data
            if same != data:
                info["rt_first_diff"] = _first_diff(data, same)
            info["ff_sha"] = _sha(ff)
            info["json_sha"] = _sha(js)
            info["data_sha"] = _sha(data)
            if mid in want:
                info["json"] = js
        except BaseException as e:  # noqa: BLE001
            info["error"] = f"{type(e).__name__}: {e}\n{traceback.format_exc()[-2500:]}"
    out["modules"] = mods
    out["counts"] = dumper.counts
    try:
        m.metastore.close()
    except Exception:  # noqa: BLE001
        pass
    return out


def _first_diff(a: bytes, b: bytes) -> dict[str, Any]:
    n = min(len(a), len(b))
    i = next((k for k in range(n) if a[k] != b[k]), n)
    return {"offset": i, "len_cache": len(a), "len_reserialized": len(b),
            "cache": repr(a[max(0, i - 60): i + 60]), "reserialized": repr(b[max(0, i - 60): i + 60])}


# --------------------------------------------------------------------------- hash-seed lane (real subprocess)


def main() -> None:
    """python -m mc.c11_build <spec.pickle> <out.pickle>: cold() in a real new interpreter (own PYTHONHASHSEED)."""
    if os.environ.get("C11_FAULT"):  # detection demos only (mc/c11_faults.py); never set by ./check
        from mc import c11_faults

        c11_faults.apply(os.environ["C11_FAULT"])
    with open(sys.argv[1], "rb") as f:
        spec = pickle.load(f)
    out = cold(spec)
    out["hashseed"] = os.environ.get("PYTHONHASHSEED")
    out["hash_probe"] = hash("c11-probe")  # differs between interpreters with different seeds
    with open(sys.argv[2], "wb") as f:
        pickle.dump(out, f)


if __name__ == "__main__":
    main()
