"""C20 mutation operators: every single structure-aware mutation of a corpus program.

All operators are pure functions text -> list of (kind, descriptor, mutant text); they enumerate their
whole space in a canonical order (scope by scope, statement by statement), never sample.  Mutants
equal to the original or to an earlier mutant of the same program are dropped by the caller
(`dedupe`).

Kinds
  1 delete        each top-level / class-level statement removed (a class body that would become empty
                  gets `pass`, so the mutation stays a structural one instead of a syntax error)
  2 duplicate     each such statement repeated right after itself
  3 swap          each such statement exchanged with its next sibling
  4 rename        each defined identifier renamed (all NAME tokens) to each other defined identifier
  5 retype        each type expression occurrence replaced by each other type expression text of the file
  6 truncate      the program cut after each line
  7 cycle         each pair of top-level definitions made mutually referential
                  (class: extra base; function: extra parameter with the other as default; variable: alias)
  8 pair          all sequences of two kind 1-3 mutations (programs of <= 12 lines)

Statement spans come from `ast` (decorators included; statements sharing a physical line are one unit);
programs that CPython's parser rejects fall back to "every non-blank line is a statement".
"""

from __future__ import annotations

import ast
import io
import tokenize
from typing import Iterator

Span = tuple[int, int]  # [start, end) 0-based line indexes


def _split(src: str) -> list[str]:
    return src.split("\n")


def _join(lines: list[str]) -> str:
    return "\n".join(lines)


def _stmt_span(s: ast.stmt) -> Span:
    start = s.lineno
    for d in getattr(s, "decorator_list", []) or []:
        start = min(start, d.lineno)
    return (start - 1, s.end_lineno or s.lineno)


def scopes_of(src: str) -> tuple[bool, list[tuple[str, list[Span]]]]:
    """(parsed, [(scope name, [unit spans])]) for the module body and every class body reachable
    through module/class bodies (class-level statements), in source order."""
    lines = _split(src)
    try:
        tree = ast.parse(src)
    except (SyntaxError, ValueError, RecursionError, MemoryError):
        units = [(i, i + 1) for i, ln in enumerate(lines) if ln.strip()]
        return False, [("<lines>", units)]
    out: list[tuple[str, list[Span]]] = []

    def visit(name: str, body: list[ast.stmt], header_line: int) -> None:
        spans: list[Span] = []
        for s in body:
            a, b = _stmt_span(s)
            if spans and a < spans[-1][1]:
                spans[-1] = (spans[-1][0], max(spans[-1][1], b))  # `x = 1; y = 2` is one unit
            else:
                spans.append((a, b))
        # a body that starts on its header's line (`class A: pass`) cannot be edited line-wise
        if spans and spans[0][0] > header_line:
            out.append((name, spans))
        for s in body:
            if isinstance(s, ast.ClassDef):
                visit(f"{name}.{s.name}" if name != "<module>" else s.name, s.body, s.lineno - 1)

    visit("<module>", tree.body, -1)
    return True, out


def _indent_of(line: str) -> str:
    return line[: len(line) - len(line.lstrip())]


def k123(src: str) -> Iterator[tuple[int, str, str]]:
    """Every delete / duplicate / swap-with-next of every top-level or class-level statement."""
    lines = _split(src)
    _parsed, scopes = scopes_of(src)
    for scope, spans in scopes:
        n = len(spans)
        for i, (a, b) in enumerate(spans):
            tag = f"{scope}#{i}@{a + 1}-{b}"
            if n == 1 and scope not in ("<module>", "<lines>"):
                yield 1, f"delete {tag} (body -> pass)", _join(lines[:a] + [_indent_of(lines[a]) + "pass"] + lines[b:])
            else:
                yield 1, f"delete {tag}", _join(lines[:a] + lines[b:])
            yield 2, f"duplicate {tag}", _join(lines[:b] + lines[a:b] + lines[b:])
            if i + 1 < n:
                a2, b2 = spans[i + 1]
                yield 3, f"swap {tag} <-> #{i + 1}@{a2 + 1}-{b2}", _join(
                    lines[:a] + lines[a2:b2] + lines[b:a2] + lines[a:b] + lines[b2:]
                )


# --------------------------------------------------------------------------- kind 4: rename


def defined_identifiers(tree: ast.Module) -> list[str]:
    """Names bound at module or class level (def / class / assignment / import), in order."""
    seen: dict[str, None] = {}

    def targets(t: ast.expr) -> None:
        if isinstance(t, ast.Name):
            seen.setdefault(t.id)
        elif isinstance(t, (ast.Tuple, ast.List)):
            for e in t.elts:
                targets(e)
        elif isinstance(t, ast.Starred):
            targets(t.value)

    def body(stmts: list[ast.stmt]) -> None:
        for s in stmts:
            if isinstance(s, (ast.FunctionDef, ast.AsyncFunctionDef)):
                seen.setdefault(s.name)
            elif isinstance(s, ast.ClassDef):
                seen.setdefault(s.name)
                body(s.body)
            elif isinstance(s, ast.Assign):
                for t in s.targets:
                    targets(t)
            elif isinstance(s, (ast.AnnAssign, ast.AugAssign)):
                targets(s.target)
            elif isinstance(s, (ast.Import, ast.ImportFrom)):
                for al in s.names:
                    nm = (al.asname or al.name).split(".")[0]
                    if nm != "*":
                        seen.setdefault(nm)
            elif hasattr(ast, "TypeAlias") and isinstance(s, ast.TypeAlias):  # type: ignore[attr-defined]
                targets(s.name)

    body(tree.body)
    return list(seen)


def _name_tokens(src: str) -> list[tokenize.TokenInfo] | None:
    try:
        return [t for t in tokenize.generate_tokens(io.StringIO(src).readline) if t.type == tokenize.NAME]
    except (tokenize.TokenError, IndentationError, SyntaxError):
        return None


def _replace_at(lines: list[str], edits: list[tuple[int, int, int, int, str]]) -> str:
    """Apply non-overlapping (row0, col0, row1, col1, text) edits (1-based rows, as in ast/tokenize,
    columns in characters)."""
    out = list(lines)
    for r0, c0, r1, c1, text in sorted(edits, reverse=True):
        if r0 == r1:
            out[r0 - 1] = out[r0 - 1][:c0] + text + out[r0 - 1][c1:]
        else:
            out[r0 - 1 : r1] = [out[r0 - 1][:c0] + text + out[r1 - 1][c1:]]
    return _join(out)


def k4_rename(src: str) -> Iterator[tuple[int, str, str]]:
    try:
        tree = ast.parse(src)
    except (SyntaxError, ValueError, RecursionError, MemoryError):
        return
    ids = defined_identifiers(tree)
    toks = _name_tokens(src)
    if toks is None or len(ids) < 2:
        return
    lines = _split(src)
    for a in ids:
        occ = [t for t in toks if t.string == a]
        if not occ:
            continue
        for b in ids:
            if a == b:
                continue
            edits = [(t.start[0], t.start[1], t.end[0], t.end[1], b) for t in occ]
            yield 4, f"rename {a} -> {b}", _replace_at(lines, edits)


# --------------------------------------------------------------------------- kind 5: retype


def _byte_to_char(line: str, col: int) -> int:
    return len(line.encode("utf-8")[:col].decode("utf-8", "replace"))


def type_expressions(src: str, tree: ast.Module) -> list[tuple[int, int, int, int, str]]:
    """(row0, col0, row1, col1, text) of every annotation expression (character columns)."""
    lines = _split(src)
    out = []
    for node in ast.walk(tree):
        anns: list[ast.expr | None] = []
        if isinstance(node, (ast.FunctionDef, ast.AsyncFunctionDef)):
            anns.append(node.returns)
        elif isinstance(node, ast.arg):
            anns.append(node.annotation)
        elif isinstance(node, ast.AnnAssign):
            anns.append(node.annotation)
        for e in anns:
            if e is None or e.end_lineno is None or e.end_col_offset is None:
                continue
            seg = ast.get_source_segment(src, e)
            if not seg:
                continue
            c0 = _byte_to_char(lines[e.lineno - 1], e.col_offset)
            c1 = _byte_to_char(lines[e.end_lineno - 1], e.end_col_offset)
            out.append((e.lineno, c0, e.end_lineno, c1, seg))
    out.sort()
    return out


def k5_retype(src: str) -> Iterator[tuple[int, str, str]]:
    try:
        tree = ast.parse(src)
    except (SyntaxError, ValueError, RecursionError, MemoryError):
        return
    occ = type_expressions(src, tree)
    texts = list(dict.fromkeys(o[4] for o in occ))
    if len(texts) < 2:
        return
    lines = _split(src)
    for r0, c0, r1, c1, seg in occ:
        for t in texts:
            if t == seg:
                continue
            yield 5, f"retype {seg!r}@{r0}:{c0} -> {t!r}", _replace_at(lines, [(r0, c0, r1, c1, t)])


# --------------------------------------------------------------------------- kind 6: truncate


def k6_truncate(src: str) -> Iterator[tuple[int, str, str]]:
    lines = _split(src)
    for k in range(1, len(lines)):
        yield 6, f"truncate after line {k}", _join(lines[:k])


# --------------------------------------------------------------------------- kind 7: cycles


def _def_header_insert(src: str, node: ast.AST, other: str) -> tuple[int, int, int, int, str] | None:
    """Edit that makes the definition `node` refer to `other`."""
    lines = _split(src)
    if isinstance(node, ast.Assign):
        v = node.value
        if v.end_lineno is None or v.end_col_offset is None:
            return None
        return (v.lineno, _byte_to_char(lines[v.lineno - 1], v.col_offset),
                v.end_lineno, _byte_to_char(lines[v.end_lineno - 1], v.end_col_offset), other)
    assert isinstance(node, (ast.ClassDef, ast.FunctionDef, ast.AsyncFunctionDef))
    # tokenize from the `class` / `def` keyword line to the end of the header
    start_row = node.lineno
    text = _join(lines[start_row - 1 :])
    try:
        toks = []
        for t in tokenize.generate_tokens(io.StringIO(text).readline):
            toks.append(t)
            if len(toks) > 4000:
                break
    except (tokenize.TokenError, IndentationError, SyntaxError):
        # the header itself is normally complete before the tokenizer gives up
        pass
    sig = [t for t in toks if t.type not in (tokenize.NL, tokenize.COMMENT, tokenize.NEWLINE, tokenize.INDENT, tokenize.DEDENT)]
    # find the name token
    idx = None
    for i, t in enumerate(sig):
        if t.type == tokenize.NAME and t.string in ("class", "def"):
            idx = i + 1
            break
    if idx is None or idx >= len(sig):
        return None
    i = idx + 1
    # skip PEP 695 type parameters
    if i < len(sig) and sig[i].string == "[":
        depth = 0
        while i < len(sig):
            if sig[i].string in "([{":
                depth += 1
            elif sig[i].string in ")]}":
                depth -= 1
                if depth == 0:
                    i += 1
                    break
            i += 1
    if i >= len(sig):
        return None

    def pos(t: tokenize.TokenInfo, end: bool = False) -> tuple[int, int]:
        r, c = t.end if end else t.start
        return (r + start_row - 1, c)

    if isinstance(node, ast.ClassDef):
        if sig[i].string == ":":
            r, c = pos(sig[i])
            return (r, c, r, c, f"({other})")
        if sig[i].string != "(":
            return None
    elif sig[i].string != "(":
        return None
    # find the matching ')' and (functions) a top-level `**`
    depth = 0
    j = i
    close = None
    dstar = None
    while j < len(sig):
        s = sig[j].string
        if s in ("(", "[", "{"):
            depth += 1
        elif s in (")", "]", "}"):
            depth -= 1
            if depth == 0:
                close = j
                break
        elif s == "**" and depth == 1 and dstar is None and sig[j - 1].string in ("(", ","):
            dstar = j
        j += 1
    if close is None:
        return None
    if isinstance(node, ast.ClassDef):
        item = other
        at = close
        prev = sig[at - 1].string
        r, c = pos(sig[at])
        if prev in ("(", ","):
            return (r, c, r, c, item)
        # keywords (metaclass=...) must stay last: put the base first instead
        r, c = pos(sig[i], end=True)
        return (r, c, r, c, item + ", ")
    item = f"c20_ref={other}"
    if dstar is not None:
        r, c = pos(sig[dstar])
        return (r, c, r, c, item + ", ")
    prev = sig[close - 1].string
    r, c = pos(sig[close])
    return (r, c, r, c, item if prev in ("(", ",") else ", " + item)


def k7_cycle(src: str) -> Iterator[tuple[int, str, str]]:
    try:
        tree = ast.parse(src)
    except (SyntaxError, ValueError, RecursionError, MemoryError):
        return
    defs: list[tuple[str, ast.AST]] = []
    for s in tree.body:
        if isinstance(s, (ast.ClassDef, ast.FunctionDef, ast.AsyncFunctionDef)):
            defs.append((s.name, s))
        elif isinstance(s, ast.Assign) and len(s.targets) == 1 and isinstance(s.targets[0], ast.Name):
            defs.append((s.targets[0].id, s))
    lines = _split(src)
    for i in range(len(defs)):
        for j in range(i + 1, len(defs)):
            (na, a), (nb, b) = defs[i], defs[j]
            if na == nb:
                continue
            ea = _def_header_insert(src, a, nb)
            eb = _def_header_insert(src, b, na)
            if ea is None or eb is None:
                continue
            yield 7, f"cycle {na}@{a.lineno} <-> {nb}@{b.lineno}", _replace_at(lines, [ea, eb])  # type: ignore[attr-defined]


# --------------------------------------------------------------------------- kind 8: pairs


def k8_pairs(src: str, max_lines: int = 12) -> Iterator[tuple[int, str, str]]:
    if len(_split(src)) > max_lines:
        return
    for _k1, d1, t1 in k123(src):
        for _k2, d2, t2 in k123(t1):
            yield 8, f"{d1} ; then {d2}", t2


def dedupe(original: str, muts: Iterator[tuple[int, str, str]]) -> list[tuple[int, str, str]]:
    seen = {original}
    out = []
    for k, d, t in muts:
        if t in seen:
            continue
        seen.add(t)
        out.append((k, d, t))
    return out
