"""C06 generated programs for the dynamic lanes.

1. Conformance family: small functions with ONE uniform signature

       f(a: object, b: object, xs: list[object], d: dict[str, object], bx: Box, k: int) -> object

   `k` selects the path (branch taken, where an exception is raised, where a loop exits).  Every function is
   *net neutral* by construction: after the call returns or raises, every container/attribute it touched
   holds what it held before (restores are done in `finally`).  So for CPython itself the reference count
   of every argument and of every object reachable from them is unchanged after dropping the result --
   which is exactly what the static model predicts for the compiled code (delta 0 per argument, owned
   result on every path).

2. Undefined-read family: every subset of {then, else, loop, except, del} assignments/deletions followed by
   a read, for a local (types object / int / i64) and for an attribute assigned conditionally in __init__.
"""

from __future__ import annotations

import textwrap

TRACK_MODULE = '''\
"""Interpreted helper classes (never compiled): tracked instances and a context manager."""
import weakref

LIVE = weakref.WeakSet()


class T:
    __slots__ = ("v", "__weakref__")

    def __init__(self, v=0):
        self.v = v
        LIVE.add(self)

    def __repr__(self):
        return "T(%r)" % (self.v,)


class CM:
    def __init__(self, val, swallow):
        self.val = val
        self.swallow = swallow

    def __enter__(self):
        return self.val

    def __exit__(self, *exc: object) -> bool:  # declared bool: mypy must treat the with block as possibly swallowing
        return bool(self.swallow) and exc[0] is not None
'''

PRELUDE = '''\
from typing import Any, Dict, Generator, Iterator, List, Optional, Tuple

from c06trk import CM, T


class Err(Exception):
    pass


class Box:
    def __init__(self, item: object) -> None:
        self.item = item
        self.other: object = None

    def get(self) -> object:
        return self.item

    def swap(self, x: object) -> object:
        old = self.item
        self.item = x
        return old


def raiser(k: int, x: object) -> object:
    if k == 1:
        raise Err("boom")
    return x


def gen(xs: List[object]) -> Iterator[object]:
    for x in xs:
        yield x


def gen_temp(a: object, b: object) -> Generator[object, object, None]:
    p, q = a, (yield b)
    yield p
    yield q


def gen_lit(a: object) -> Generator[object, object, None]:
    r = kw(b"c06-bytes-literal-that-is-not-immortal", (yield a))
    yield r


def va(k: int, *args: object) -> object:
    return args[k]


def kw(x: object, y: object = None, *, z: object = None) -> object:
    if z is not None:
        return z
    if y is not None:
        return y
    return x

'''

SIG = "(a: object, b: object, xs: List[object], d: Dict[str, object], bx: Box, k: int) -> object"

# (name, number of k values, body)
CONF: list[tuple[str, int, str]] = [
    ("ident", 1, "return a"),
    ("pick", 2, """
        if k == 0:
            return a
        return b"""),
    ("reassign_arg_branch", 2, """
        if k:
            a = b
        return a"""),
    ("reassign_arg_loop", 3, """
        i = 0
        while i < k:
            a = b
            b = xs[i]
            i += 1
        return a"""),
    ("list_get", 4, "return xs[k]"),
    ("list_get_neg", 2, "return xs[-1 - k]"),
    ("list_set_restore", 2, """
        old = xs[0]
        xs[0] = a
        try:
            raiser(k, a)
        finally:
            xs[0] = old
        return old"""),
    ("list_append_pop", 2, """
        xs.append(a)
        try:
            raiser(k, a)
        finally:
            xs.pop()
        return b"""),
    ("list_new_index", 3, """
        t = T(k)
        ys = [t, a]
        return ys[k]"""),
    ("list_comp", 2, """
        ys = [x for x in xs if x is not a or k]
        return ys"""),
    ("list_unpack", 2, """
        if k:
            p, q = xs
            return p
        p, q, r = xs
        return r"""),
    ("list_concat_slice", 2, """
        ys = xs + [a, b]
        zs = ys[1:4]
        if k:
            return zs[5]
        return zs[0]"""),
    ("list_loop_exits", 4, """
        r: object = None
        for x in xs:
            r = x
            if k == 1:
                break
            if k == 2:
                return x
            if k == 3:
                raise Err(x)
        return r"""),
    ("nested_loops", 2, """
        for row in [[a, b], [b, a]]:
            for x in row:
                if x is b and k:
                    return x
        return a"""),
    ("dict_get", 2, """
        if k:
            return d["missing"]
        return d["x"]"""),
    ("dict_get_default", 2, """
        if k:
            return d.get("zz", a)
        return d.get("x")"""),
    ("dict_set_del", 2, """
        d["t"] = a
        try:
            raiser(k, a)
        finally:
            del d["t"]
        return a"""),
    ("dict_iter_keys", 3, """
        r: object = None
        for key in d:
            r = d[key]
            if k == 1:
                break
            if k == 2:
                return key
        return r"""),
    ("dict_iter_items", 3, """
        r: object = None
        for key, v in d.items():
            r = v
            if k == 1:
                return (key, v)
            if k == 2:
                raise Err(key)
        return r"""),
    ("dict_comp", 1, """
        e = {key: v for key, v in d.items()}
        e["n"] = a
        return e"""),
    ("set_ops", 2, """
        s = set(xs)
        s.add(a)
        s.discard(b)
        if k:
            s.remove(T(1))
        return len(s)"""),
    ("tuple_pack_unpack", 2, """
        t = (a, b)
        x, y = t
        if k:
            return y
        return x"""),
    ("tuple_nested", 2, """
        t = ((a, b), xs)
        (p, q), r = t
        if k:
            return (q, r)
        return p"""),
    ("tuple_return", 1, "return (a, xs, k)"),
    ("tuple_index_obj", 3, """
        t: Tuple[object, ...] = tuple(xs)
        return t[k + 1]"""),
    ("box_get", 1, "return bx.item"),
    ("box_get_method", 1, "return bx.get()"),
    ("box_set_restore", 2, """
        old = bx.item
        bx.item = a
        try:
            raiser(k, a)
        finally:
            bx.item = old
        return old"""),
    ("box_swap_twice", 1, """
        x = bx.swap(a)
        y = bx.swap(x)
        return y"""),
    ("box_new", 2, """
        nb = Box(a)
        nb.other = b
        if k == 1:
            raise Err(nb)
        return nb.get()"""),
    ("box_new_in_loop", 4, """
        acc: List[Box] = []
        for x in xs:
            acc.append(Box(x))
        return acc[k].item"""),
    ("box_optional", 2, """
        o: Optional[Box] = None
        if k:
            o = bx
        if o is None:
            return a
        return o.item"""),
    ("isinstance_narrow", 2, """
        x: object = a
        if k:
            x = bx
        if isinstance(x, Box):
            return x.item
        return x"""),
    ("try_except_return", 2, """
        try:
            return raiser(k, a)
        except Err:
            return b"""),
    ("try_except_as", 2, """
        try:
            raiser(k, a)
        except Err as e:
            return e.args[0]
        return b"""),
    ("try_except_else_finally", 2, """
        r: object = None
        try:
            r = raiser(k, a)
        except Err:
            r = b
        else:
            r = xs[0]
        finally:
            xs.append(a)
            xs.pop()
        return r"""),
    ("try_nested_reraise", 3, """
        x: object = a
        try:
            try:
                raiser(1 if k else 0, a)
            finally:
                x = b
        except Err:
            if k == 2:
                raise
            return x
        return a"""),
    ("try_finally_return", 2, """
        try:
            if k:
                raise Err(a)
            return a
        finally:
            xs.append(b)
            xs.pop()"""),
    ("try_in_loop", 4, """
        r: object = None
        for x in xs:
            try:
                if k == 1:
                    raise Err(x)
                if k == 2:
                    continue
                if k == 3:
                    break
            except Err as e:
                r = e
                continue
            r = x
        return r"""),
    ("finally_in_loop", 3, """
        r: object = None
        for x in xs:
            try:
                if k == 1:
                    raise Err(x)
                if k == 2:
                    return x
            finally:
                r = x
        return r"""),
    ("raise_with_payload", 1, """
        try:
            raise Err(a, b)
        except Err as e:
            return e.args[1]"""),
    ("with_cm", 3, """
        r: object = b
        with CM(a, k == 2) as c:
            r = c
            raiser(1 if k else 0, c)
        return r"""),
    ("generator_use", 3, """
        g = gen(xs)
        r = next(g)
        if k == 1:
            return r
        if k == 2:
            for y in g:
                r = y
                break
            return r
        for y in g:
            r = y
        return r"""),
    ("gen_temp_across_yield", 2, """
        g = gen_temp(a, b)
        r = next(g)
        if k:
            return r
        return g.send(xs)"""),
    ("gen_literal_across_yield", 1, """
        g = gen_lit(a)
        next(g)
        return len(str(g.send(None)))"""),
    ("closure", 2, """
        def inner() -> object:
            if k:
                return b
            return a
        return inner()"""),
    ("lambda_capture", 1, """
        fn = lambda: (a, xs)
        return fn()"""),
    ("varargs_call", 3, "return va(k, a, b)"),
    ("kwargs_call", 4, """
        if k == 0:
            return kw(a)
        if k == 1:
            return kw(a, y=b)
        if k == 2:
            return kw(y=a, x=b)
        return kw(a, b, z=xs)"""),
    ("star_call", 2, """
        args = (a, b)
        kws = {"z": xs}
        if k:
            return kw(*args, **kws)
        return kw(*args)"""),
    ("py_call_new", 2, """
        t = T(a)
        if k:
            raise Err(t)
        return t.v"""),
    ("bool_ops", 3, """
        return (k == 1 and a) or (k == 2 and b) or xs"""),
    ("cond_expr", 2, "return a if k else b"),
    ("str_key", 2, """
        s = str(k) + "x"
        e = {s: a}
        if k:
            return e["nope"]
        return e[s]"""),
    ("bigint", 2, """
        n = (k + 1) * 10 ** 20
        m = n * n + k
        ys = [a, m]
        return ys[0] if m > n else b"""),
    ("del_local", 2, """
        x: object = a
        y: object = b
        if k:
            del x
            return y
        return x"""),
    ("while_true", 3, """
        i = 0
        r: object = a
        while True:
            if i >= len(xs):
                break
            r = xs[i]
            if k == 1 and i == 1:
                raise Err(r)
            if k == 2:
                return r
            i += 1
        return r"""),
    ("getattr_py", 2, """
        t = T(a)
        if k:
            return getattr(t, "nope")
        return t.v"""),
    ("setattr_py", 1, """
        t = T(0)
        t.v = a
        t.v = b
        return t.v"""),
]


def conformance_source() -> str:
    parts = [PRELUDE]
    for name, _nk, body in CONF:
        body = textwrap.dedent(body).strip("\n")
        parts.append(f"def cf_{name}{SIG}:\n" + textwrap.indent(body, "    ") + "\n\n")
    return "\n".join(parts)


def conformance_specs() -> list[dict]:
    return [{"name": f"cf_{name}", "nk": nk} for name, nk, _ in CONF]


# --------------------------------------------------------------------------- undefined reads

ELEMS = ["then", "else", "loop", "except", "del"]
LOCAL_TYPES = {"obj": ("object", "a"), "int": ("int", "v"), "i64": ("i64", "w")}

UNDEF_PRELUDE = '''\
from mypy_extensions import i64


class Err(Exception):
    pass

'''


def _local_fn(mask: int, tname: str) -> str:
    typ, val = LOCAL_TYPES[tname]
    asg = f"x = {val}"
    L = [f"def ul_{tname}_{mask}(c: int, n: int, r: int, dl: int, a: object, v: int, w: i64) -> object:",
         f"    x: {typ}",
         "    if c:",
         f"        {asg if mask & 1 else 'pass'}",
         "    else:",
         f"        {asg if mask & 2 else 'pass'}",
         "    for i in range(n):",
         f"        {asg if mask & 4 else 'pass'}",
         "    try:",
         "        if r:",
         "            raise Err()",
         "    except Err:",
         f"        {asg if mask & 8 else 'pass'}"]
    if mask & 16:
        L += ["    if dl:", "        del x"]
    L += ["    return x", ""]
    return "\n".join(L)


def _attr_cls(mask: int, tname: str) -> str:
    typ, val = LOCAL_TYPES[tname]
    asg = f"self.x = {val}"
    L = [f"class UA_{tname}_{mask}:"]
    if mask & 16:
        L.append('    __deletable__ = ["x"]')
    L += [f"    x: {typ}",
          "    def __init__(self, c: int, n: int, r: int, dl: int, a: object, v: int, w: i64) -> None:",
          "        self.pad = a",
          "        if c:",
          f"            {asg if mask & 1 else 'pass'}",
          "        else:",
          f"            {asg if mask & 2 else 'pass'}",
          "        for i in range(n):",
          f"            {asg if mask & 4 else 'pass'}",
          "        try:",
          "            if r:",
          "                raise Err()",
          "        except Err:",
          f"            {asg if mask & 8 else 'pass'}"]
    if mask & 16:
        L += ["        if dl:", "            del self.x"]
    L += ["",
          f"def ua_{tname}_{mask}(c: int, n: int, r: int, dl: int, a: object, v: int, w: i64) -> object:",
          f"    o = UA_{tname}_{mask}(c, n, r, dl, a, v, w)",
          "    return o.x", ""]
    return "\n".join(L)


def undef_source(kinds: list[str], types: list[str]) -> str:
    parts = [UNDEF_PRELUDE]
    for t in types:
        for mask in range(32):
            if "local" in kinds:
                parts.append(_local_fn(mask, t))
            if "attr" in kinds:
                parts.append(_attr_cls(mask, t))
    return "\n".join(parts)


def undef_specs(kinds: list[str], types: list[str]) -> list[dict]:
    out = []
    for t in types:
        for mask in range(32):
            if "local" in kinds:
                out.append({"name": f"ul_{t}_{mask}", "mask": mask, "type": t, "kind": "local"})
            if "attr" in kinds:
                out.append({"name": f"ua_{t}_{mask}", "mask": mask, "type": t, "kind": "attr"})
    return out
