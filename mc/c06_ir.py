"""C06 helper: drive the REAL mypyc pipeline up to final IR (no C compile) and observe each FuncIR twice.

`compile_program` type-checks a program the way mypyc's own test drivers do (mypyc/test/testutil.py
build_ir_for_single_file2 for irbuild/refcount style cases, mypyc/test/test_run.py run_case_step for
run-*.test programs) and then calls `mypyc.codegen.emitmodule.compile_scc_to_ir` /
`compile_modules_to_ir` unchanged.  Two observation points are hooked *by wrapping the names that
emitmodule itself calls*: right after `insert_ref_count_opcodes(fn)` (stage "refcount") and right after
`do_flag_elimination(fn, ...)`, the last pass (stage "final").  The wrappers only call the observer;
the pipeline's order and arguments are whatever emitmodule does.
"""

from __future__ import annotations

import contextlib
import os
import re
import shutil
import sys
from typing import Any, Callable, Iterator

from mc import corpus

ICODE_GEN_BUILTINS = os.path.join(corpus.MYPYC_DATA, "fixtures", "ir.py")
TESTUTIL_PATH = os.path.join(corpus.MYPYC_DATA, "fixtures", "testutil.py")

Observer = Callable[[str, Any, str], None]  # (stage, FuncIR, module name)


@contextlib.contextmanager
def observed_pipeline(observer: Observer) -> Iterator[None]:
    """Wrap the two names inside emitmodule; restore afterwards."""
    from mypyc.codegen import emitmodule

    real_rc = emitmodule.insert_ref_count_opcodes
    real_fe = emitmodule.do_flag_elimination

    def rc(fn: Any) -> None:
        real_rc(fn)
        observer("refcount", fn, fn.decl.module_name)

    def fe(fn: Any, options: Any) -> None:
        real_fe(fn, options)
        observer("final", fn, fn.decl.module_name)

    emitmodule.insert_ref_count_opcodes = rc  # type: ignore[assignment]
    emitmodule.do_flag_elimination = fe  # type: ignore[assignment]
    try:
        yield
    finally:
        emitmodule.insert_ref_count_opcodes = real_rc  # type: ignore[assignment]
        emitmodule.do_flag_elimination = real_fe  # type: ignore[assignment]


def prepare_root(root: str) -> None:
    """A directory laid out like the data-driven tests' temp dir: <root>/tmp/builtins.pyi."""
    shutil.rmtree(root, ignore_errors=True)
    os.makedirs(os.path.join(root, "tmp"))
    shutil.copyfile(ICODE_GEN_BUILTINS, os.path.join(root, "tmp", "builtins.pyi"))


def _write(path: str, text: str) -> None:
    os.makedirs(os.path.dirname(path), exist_ok=True)
    with open(path, "w", encoding="utf-8") as f:
        f.write(text)


def has_test_name_tag(name: str, tag: str) -> bool:
    return re.search(rf"(?:^|_){re.escape(tag)}(?:_|$)", name) is not None


def compile_single(root: str, name: str, main: str, files: dict[str, str], observer: Observer) -> dict:
    """irbuild/refcount style: one `__main__` module, fixtures/ir.py builtins (testutil.build_ir_for_single_file2)."""
    from mypy import build
    from mypy.errors import CompileError
    from mypy.options import Options
    from mypyc.codegen import emitmodule
    from mypyc.errors import Errors
    from mypyc.irbuild.mapper import Mapper
    from mypyc.options import CompilerOptions
    from mypyc.test.testutil import infer_ir_build_options_from_test_name

    prepare_root(root)
    for rel, text in files.items():
        _write(os.path.join(root, "tmp", rel), text + "\n")
    os.chdir(root)
    compiler_options = infer_ir_build_options_from_test_name(name)
    if compiler_options is None:
        return {"status": "skipped"}
    compiler_options = compiler_options or CompilerOptions(capi_version=(3, 10))
    options = Options()
    options.show_traceback = True
    options.hide_error_codes = True
    options.use_builtins_fixtures = True
    options.strict_optional = True
    options.python_version = compiler_options.python_version or (3, 10)
    options.export_types = True
    options.preserve_asts = True
    options.allow_empty_bodies = True
    options.strict_bytes = True
    options.disable_bytearray_promotion = True
    options.disable_memoryview_promotion = True
    options.per_module_options["__main__"] = {"mypyc": True}
    source = build.BuildSource("main", "__main__", main)
    try:
        result = build.build(sources=[source], options=options, alt_lib_path="tmp")
    except CompileError as e:
        return {"status": "type_errors", "messages": e.messages[:5]}
    result.manager.metastore.close()
    if result.errors:
        return {"status": "type_errors", "messages": result.errors[:5]}
    errors = Errors(options)
    mapper = Mapper({"__main__": None})
    with observed_pipeline(observer):
        try:
            modules = emitmodule.compile_scc_to_ir([result.files["__main__"]], result, mapper, compiler_options, errors)
        except CompileError as e:
            return {"status": "compile_errors", "messages": e.messages[:5]}
    if errors.num_errors:
        return {"status": "compile_errors", "messages": errors.new_messages()[:5]}
    return {"status": "ok", "functions": sum(len(m.functions) for m in modules.values())}


def compile_run_case(root: str, name: str, main: str, files: dict[str, str], observer: Observer) -> dict:
    """run-*.test style: `native.py` (+ other*.py) compiled as in test_run.run_case_step, step 1 only."""
    from mypy import build
    from mypy.errors import CompileError
    from mypy.options import Options
    from mypyc.build import construct_groups
    from mypyc.codegen import emitmodule
    from mypyc.errors import Errors
    from mypyc.irbuild.mapper import Mapper
    from mypyc.options import CompilerOptions

    prepare_root(root)
    tmp = os.path.join(root, "tmp")
    for rel, text in files.items():
        if re.search(r"\.\d+$", rel):
            continue  # later incremental steps
        _write(os.path.join(tmp, rel), text + "\n")
    _write(os.path.join(tmp, "native.py"), main + "\n")
    _write(os.path.join(tmp, "interpreted.py"), main + "\n")  # test_run writes the interpreted twin next to it
    shutil.copyfile(TESTUTIL_PATH, os.path.join(tmp, "testutil.py"))
    os.chdir(tmp)

    options = Options()
    options.use_builtins_fixtures = True
    options.show_traceback = True
    options.strict_optional = True
    options.strict_bytes = True
    options.disable_bytearray_promotion = True
    options.disable_memoryview_promotion = True
    options.python_version = sys.version_info[:2]
    options.export_types = True
    options.preserve_asts = True
    options.allow_empty_bodies = True
    options.incremental = False
    options.check_untyped_defs = True
    options.per_module_options["unchecked.*"] = {"follow_imports": "error"}
    options.per_module_options["skipped"] = {"follow_imports": "skip"}
    options.per_module_options["skipped.*"] = {"follow_imports": "skip"}

    sources = [build.BuildSource("native.py", "native", None)]
    module_names = ["native"]
    for fn in sorted(files):
        if re.search(r"\.\d+$", fn):
            continue
        if os.path.basename(fn).startswith("other") and fn.endswith(".py"):
            mod = fn.split(".")[0].replace(os.sep, ".")
            module_names.append(mod)
            sources.append(build.BuildSource(fn, mod, None))
        elif fn.endswith("__init__.py"):
            pkg_dir = os.path.dirname(fn)
            if os.path.basename(pkg_dir).startswith("other"):
                mod = pkg_dir.replace(os.sep, ".")
                module_names.append(mod)
                sources.append(build.BuildSource(fn, mod, None))
    for source in sources:
        options.per_module_options.setdefault(source.module, {})["mypyc"] = True
    groups = construct_groups(sources, False, len(module_names) > 1, None)
    compiler_options = CompilerOptions(
        multi_file=False, separate=False, strict_dunder_typing=False,
        depends_on_librt_internal=has_test_name_tag(name, "librt_internal"),
        experimental_features=has_test_name_tag(name, "experimental"),
        strict_traceback_checks=True,
    )
    result = None
    try:
        try:
            result = emitmodule.parse_and_typecheck(sources=sources, options=options, compiler_options=compiler_options,
                                                    groups=groups, alt_lib_path=".")
        except CompileError as e:
            return {"status": "type_errors", "messages": e.messages[:5]}
        errors = Errors(options)
        group_map = {source.module: lib_name for group, lib_name in groups for source in group}
        mapper = Mapper(group_map)
        result.manager.errors.set_file("<mypyc>", module=None, scope=None, options=result.manager.options)
        with observed_pipeline(observer):
            try:
                modules = emitmodule.compile_modules_to_ir(result, mapper, compiler_options, errors)
            except CompileError as e:
                return {"status": "compile_errors", "messages": e.messages[:5]}
        if errors.num_errors:
            return {"status": "compile_errors", "messages": errors.new_messages()[:5]}
        return {"status": "ok", "functions": sum(len(m.functions) for m in modules.values())}
    finally:
        if result is not None:
            result.manager.metastore.close()


def compile_program(kind: str, root: str, name: str, main: str, files: dict[str, str], observer: Observer) -> dict:
    cwd = os.getcwd()
    try:
        if kind == "run":
            return compile_run_case(root, name, main, files, observer)
        return compile_single(root, name, main, files, observer)
    finally:
        os.chdir(cwd)
        shutil.rmtree(root, ignore_errors=True)
