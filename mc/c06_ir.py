"""C06 helper: drive the REAL mypyc pipeline up to final IR (no C compile) and observe each FuncIR twice.

`compile_program` type-checks a program the way mypyc's own test drivers do (mypyc/test/testutil.py
build_ir_for_single_file2 for irbuild/refcount style cases, mypyc/test/test_run.py run_case_step for
run-*.test programs) and then calls `mypyc.codegen.emitmodule.compile_scc_to_ir` /
`compile_modules_to_ir` unchanged.  Two observation points are hooked *by wrapping the names that
emitmodule itself calls*: right after `insert_ref_count_opcodes(fn)` (stage "refcount") and right after
`do_flag_elimination(fn, ...)`, the last pass (stage "final").  The wrappers only call the observer;
the pipeline's order and arguments are whatever emitmodule does.
"""

from __future__ import annotations

import contextlib
import os
import re
import shutil
import sys
from typing import Any, Callable, Iterator

from mc import corpus

ICODE_GEN_BUILTINS = os.path.join(corpus.MYPYC_DATA, "fixtures", "ir.py")
TESTUTIL_PATH = os.path.join(corpus.MYPYC_DATA, "fixtures", "testutil.py")

Observer = Callable[[str, Any, str], None]  # (stage, FuncIR, module name)


def cfg_handler_edges_missing(blocks: list, cfg: Any) -> list[dict]:
    """Structural invariant of the CFG the pre-exception-insertion analyses (must-defined in uninit.py) run on --
    the rule documented in dataflow.get_cfg: 'a block can jump to its error handler or the error handlers of any of
    its normal successors (to represent an error before that next block completes)'.  Only edges that matter are
    demanded: the block whose handler is meant must contain an op that can raise."""
    out = []
    index = {b: i for i, b in enumerate(blocks)}

    def raises(b: Any) -> bool:
        return any(op.can_raise() for op in b.ops)

    for b in blocks:
        succ = cfg.succ.get(b, [])
        normal = list(b.terminator.targets())
        for t in normal:
            if t not in succ:
                out.append({"kind": "normal-edge", "block": index[b], "to": index.get(t, -1)})
        if b.error_handler is not None and raises(b) and b.error_handler not in succ:
            out.append({"kind": "own-handler-edge", "block": index[b], "to": index.get(b.error_handler, -1)})
        for t in normal:
            h = t.error_handler
            if h is not None and raises(t) and h not in succ:
                out.append({"kind": "successor-handler-edge", "block": index[b], "via": index.get(t, -1),
                            "to": index.get(h, -1), "own_handler": b.error_handler is not None})
        for t in succ:
            if b not in cfg.pred.get(t, []):
                out.append({"kind": "pred-map", "block": index[b], "to": index.get(t, -1)})
    return out


CfgObserver = Callable[[Any, list, int, int], None]  # (FuncIR-or-None, missing edges, blocks, blocks with handler)


@contextlib.contextmanager
def observed_pipeline(observer: Observer, cfg_observer: "CfgObserver | None" = None) -> Iterator[None]:
    """Wrap the two names inside emitmodule (and, for the CFG invariant, the name `get_cfg` that uninit.py calls);
    restore afterwards."""
    from mypyc.codegen import emitmodule
    from mypyc.transform import uninit

    real_rc = emitmodule.insert_ref_count_opcodes
    real_fe = emitmodule.do_flag_elimination
    real_uninit = emitmodule.insert_uninit_checks
    real_get_cfg = uninit.get_cfg
    current: list = [None]

    def ui(fn: Any, *a: Any, **k: Any) -> None:
        current[0] = fn
        try:
            real_uninit(fn, *a, **k)
        finally:
            current[0] = None

    def gc(blocks: list, *a: Any, **k: Any) -> Any:
        cfg = real_get_cfg(blocks, *a, **k)
        if cfg_observer is not None and current[0] is not None:
            cfg_observer(current[0], cfg_handler_edges_missing(blocks, cfg), len(blocks),
                         sum(b.error_handler is not None for b in blocks))
        return cfg

    if cfg_observer is not None:
        emitmodule.insert_uninit_checks = ui  # type: ignore[assignment]
        uninit.get_cfg = gc  # type: ignore[assignment]

    def rc(fn: Any) -> None:
        real_rc(fn)
        observer("refcount", fn, fn.decl.module_name)

    def fe(fn: Any, options: Any) -> None:
        real_fe(fn, options)
        observer("final", fn, fn.decl.module_name)

    emitmodule.insert_ref_count_opcodes = rc  # type: ignore[assignment]
    emitmodule.do_flag_elimination = fe  # type: ignore[assignment]
    try:
        yield
    finally:
        emitmodule.insert_ref_count_opcodes = real_rc  # type: ignore[assignment]
        emitmodule.do_flag_elimination = real_fe  # type: ignore[assignment]
        emitmodule.insert_uninit_checks = real_uninit  # type: ignore[assignment]
        uninit.get_cfg = real_get_cfg  # type: ignore[assignment]


def prepare_root(root: str) -> None:
    """A directory laid out like the data-driven tests' temp dir: <root>/tmp/builtins.pyi."""
    shutil.rmtree(root, ignore_errors=True)
    os.makedirs(os.path.join(root, "tmp"))
    shutil.copyfile(ICODE_GEN_BUILTINS, os.path.join(root, "tmp", "builtins.pyi"))


def _write(path: str, text: str) -> None:
    os.makedirs(os.path.dirname(path), exist_ok=True)
    with open(path, "w", encoding="utf-8") as f:
        f.write(text)


def has_test_name_tag(name: str, tag: str) -> bool:
    return re.search(rf"(?:^|_){re.escape(tag)}(?:_|$)", name) is not None


def compile_single(root: str, name: str, main: str, files: dict[str, str], observer: Observer,
                   cfg_observer: "CfgObserver | None" = None) -> dict:
    """irbuild/refcount style: one `__main__` module, fixtures/ir.py builtins (testutil.build_ir_for_single_file2)."""
    from mypy import build
    from mypy.errors import CompileError
    from mypy.options import Options
    from mypyc.codegen import emitmodule
    from mypyc.errors import Errors
    from mypyc.irbuild.mapper import Mapper
    from mypyc.options import CompilerOptions
    from mypyc.test.testutil import infer_ir_build_options_from_test_name

    prepare_root(root)
    for rel, text in files.items():
        _write(os.path.join(root, "tmp", rel), text + "\n")
    os.chdir(root)
    compiler_options = infer_ir_build_options_from_test_name(name)
    if compiler_options is None:
        return {"status": "skipped"}
    compiler_options = compiler_options or CompilerOptions(capi_version=(3, 10))
    options = Options()
    options.show_traceback = True
    options.hide_error_codes = True
    options.use_builtins_fixtures = True
    options.strict_optional = True
    options.python_version = compiler_options.python_version or (3, 10)
    options.export_types = True
    options.preserve_asts = True
    options.allow_empty_bodies = True
    options.strict_bytes = True
    options.disable_bytearray_promotion = True
    options.disable_memoryview_promotion = True
    options.per_module_options["__main__"] = {"mypyc": True}
    source = build.BuildSource("main", "__main__", main)
    try:
        result = build.build(sources=[source], options=options, alt_lib_path="tmp")
    except CompileError as e:
        return {"status": "type_errors", "messages": e.messages[:5]}
    result.manager.metastore.close()
    if result.errors:
        return {"status": "type_errors", "messages": result.errors[:5]}
    errors = Errors(options)
    mapper = Mapper({"__main__": None})
    with observed_pipeline(observer, cfg_observer):
        try:
            modules = emitmodule.compile_scc_to_ir([result.files["__main__"]], result, mapper, compiler_options, errors)
        except CompileError as e:
            return {"status": "compile_errors", "messages": e.messages[:5]}
    if errors.num_errors:
        return {"status": "compile_errors", "messages": errors.new_messages()[:5]}
    return {"status": "ok", "functions": sum(len(m.functions) for m in modules.values())}


def compile_run_case(root: str, name: str, main: str, files: dict[str, str], observer: Observer,
                     cfg_observer: "CfgObserver | None" = None) -> dict:
    """run-*.test style: `native.py` (+ other*.py) compiled as in test_run.run_case_step, step 1 only."""
    from mypy import build
    from mypy.errors import CompileError
    from mypy.options import Options
    from mypyc.build import construct_groups
    from mypyc.codegen import emitmodule
    from mypyc.errors import Errors
    from mypyc.irbuild.mapper import Mapper
    from mypyc.options import CompilerOptions

    prepare_root(root)
    tmp = os.path.join(root, "tmp")
    for rel, text in files.items():
        if re.search(r"\.\d+$", rel):
            continue  # later incremental steps
        _write(os.path.join(tmp, rel), text + "\n")
    _write(os.path.join(tmp, "native.py"), main + "\n")
    _write(os.path.join(tmp, "interpreted.py"), main + "\n")  # test_run writes the interpreted twin next to it
    shutil.copyfile(TESTUTIL_PATH, os.path.join(tmp, "testutil.py"))
    os.chdir(tmp)

    options = Options()
    options.use_builtins_fixtures = True
    options.show_traceback = True
    options.strict_optional = True
    options.strict_bytes = True
    options.disable_bytearray_promotion = True
    options.disable_memoryview_promotion = True
    options.python_version = sys.version_info[:2]
    options.export_types = True
    options.preserve_asts = True
    options.allow_empty_bodies = True
    options.incremental = False
    options.check_untyped_defs = True
    options.per_module_options["unchecked.*"] = {"follow_imports": "error"}
    options.per_module_options["skipped"] = {"follow_imports": "skip"}
    options.per_module_options["skipped.*"] = {"follow_imports": "skip"}

    sources = [build.BuildSource("native.py", "native", None)]
    module_names = ["native"]
    for fn in sorted(files):
        if re.search(r"\.\d+$", fn):
            continue
        if os.path.basename(fn).startswith("other") and fn.endswith(".py"):
            mod = fn.split(".")[0].replace(os.sep, ".")
            module_names.append(mod)
            sources.append(build.BuildSource(fn, mod, None))
        elif fn.endswith("__init__.py"):
            pkg_dir = os.path.dirname(fn)
            if os.path.basename(pkg_dir).startswith("other"):
                mod = pkg_dir.replace(os.sep, ".")
                module_names.append(mod)
                sources.append(build.BuildSource(fn, mod, None))
    for source in sources:
        options.per_module_options.setdefault(source.module, {})["mypyc"] = True
    groups = construct_groups(sources, False, len(module_names) > 1, None)
    compiler_options = CompilerOptions(
        multi_file=False, separate=False, strict_dunder_typing=False,
        depends_on_librt_internal=has_test_name_tag(name, "librt_internal"),
        experimental_features=has_test_name_tag(name, "experimental"),
        strict_traceback_checks=True,
    )
    result = None
    try:
        try:
            result = emitmodule.parse_and_typecheck(sources=sources, options=options, compiler_options=compiler_options,
                                                    groups=groups, alt_lib_path=".")
        except CompileError as e:
            return {"status": "type_errors", "messages": e.messages[:5]}
        errors = Errors(options)
        group_map = {source.module: lib_name for group, lib_name in groups for source in group}
        mapper = Mapper(group_map)
        result.manager.errors.set_file("<mypyc>", module=None, scope=None, options=result.manager.options)
        with observed_pipeline(observer, cfg_observer):
            try:
                modules = emitmodule.compile_modules_to_ir(result, mapper, compiler_options, errors)
            except CompileError as e:
                return {"status": "compile_errors", "messages": e.messages[:5]}
        if errors.num_errors:
            return {"status": "compile_errors", "messages": errors.new_messages()[:5]}
        return {"status": "ok", "functions": sum(len(m.functions) for m in modules.values())}
    finally:
        if result is not None:
            result.manager.metastore.close()


def compile_program(kind: str, root: str, name: str, main: str, files: dict[str, str], observer: Observer,
                    cfg_observer: "CfgObserver | None" = None) -> dict:
    cwd = os.getcwd()
    try:
        if kind == "run":
            return compile_run_case(root, name, main, files, observer, cfg_observer)
        return compile_single(root, name, main, files, observer, cfg_observer)
    finally:
        os.chdir(cwd)
        shutil.rmtree(root, ignore_errors=True)
