"""C01 program grammar: the finite families of generated, fully annotated functions.

Every family function returns a list of *specs* in canonical simplest-first order:

    {"fam": "F1", "key": [...cause-level coordinates...], "params": [type name, ...],
     "pre": [module-level lines], "body": [function body lines], "ret": "None"}

`§` in pre/body is replaced by the function's index in its module (unique helper names).
The function is rendered as  def f§(x0: T0, x1: T1, ...) -> ret:  and is later called by the
harness on EVERY tuple of the product of the per-type value domains below.
Nothing here is random; sizes are what the code enumerates (reported in coverage as measured).
"""

from __future__ import annotations

import itertools
from typing import Any, Iterator

# --------------------------------------------------------------------------- prelude

PRELUDE = '''\
import enum
from dataclasses import dataclass, field
from typing import (Callable, Generic, Iterable, Iterator, Literal, NoReturn, Optional, Protocol, Sequence,
                    TypeVar, Union, overload, assert_never)

T = TypeVar("T")


def probe(i: int, x: T) -> T:
    return x


class A:
    def __init__(self) -> None:
        self.a: int = 1

    def am(self) -> int:
        return self.a


class B(A):
    def __init__(self) -> None:
        super().__init__()
        self.b: str = "b"

    def am(self) -> bool:
        return True


class W:
    pass


class E(enum.Enum):
    X = 1
    Y = 2


class P(Protocol):
    def pm(self) -> int: ...


class PI:
    def pm(self) -> int:
        return 1


class PS(P):
    def pm(self) -> int:
        return 2


class CallMe:
    def __call__(self, n: int) -> int:
        return n


def inc(n: int) -> int:
    return n + 1


def chk(o: object) -> None:
    if not o:
        raise ValueError("falsy")


def never() -> NoReturn:
    raise ValueError("never")


# ---- F2: honest operator classes (reverse operators; NotImplemented only for ill-typed operands)
class RA:
    def __add__(self, other: "RA") -> int:
        return 1

    def __lt__(self, other: "RA") -> bool:
        return True

    def __neg__(self) -> str:
        return "neg"


class RB(RA):
    def __radd__(self, other: RA) -> bool:  # CPython tries the subclass's reflected method first
        return True


class RN:
    def __add__(self, other: int) -> "RN":
        if not isinstance(other, int):
            return NotImplemented
        return self

    def __radd__(self, other: int) -> str:
        return "radd"

    def __mul__(self, other: "RN") -> int:
        return 2

    def __rsub__(self, other: str) -> bool:
        return True

    def __contains__(self, item: int) -> bool:
        return item == 1

    def __getitem__(self, i: int) -> str:
        return "g"


# ---- F3: generic / overloaded / default / star callees
S = TypeVar("S")
TB = TypeVar("TB", bound=A)
TC = TypeVar("TC", int, str)


def ident(x: T) -> T:
    return x


def identb(x: TB) -> TB:
    return x


def identc(x: TC) -> TC:
    return x


def twice(x: TC) -> TC:
    return x + x


def first(a: T, b: T) -> T:
    return a


def second(a: T, b: T) -> T:
    return b


def lst(a: T) -> list[T]:
    return [a]


def head(xs: Sequence[T]) -> T:
    return xs[0]


def opt(x: Optional[T]) -> T:
    if x is None:
        raise ValueError("none")
    return x


def apply(g: Callable[[T], S], x: T) -> S:
    return g(x)


def pair(a: T, b: S) -> tuple[T, S]:
    return (a, b)


@overload
def ov(x: int) -> int: ...
@overload
def ov(x: str) -> str: ...
def ov(x: Union[int, str]) -> Union[int, str]:
    return x


@overload
def ov2(x: None) -> None: ...
@overload
def ov2(x: int) -> str: ...
@overload
def ov2(x: A) -> int: ...
def ov2(x: Union[None, int, A]) -> Union[None, str, int]:
    if x is None:
        return None
    if isinstance(x, A):
        return 1
    return "i"


@overload
def ov3(x: bool) -> bool: ...
@overload
def ov3(x: int) -> int: ...
@overload
def ov3(x: object) -> object: ...
def ov3(x: object) -> object:
    return x


def dflt(x: int = 0, y: str = "a") -> tuple[int, str]:
    return (x, y)


def star(*args: int) -> tuple[int, ...]:
    return args


def kw(**kwargs: int) -> dict[str, int]:
    return kwargs


def kwo(*, a: int = 0) -> int:
    return a


def poskw(p: int, *, a: int = 0) -> tuple[int, int]:
    return (p, a)


def posonly(p: int, /, q: int = 0) -> tuple[int, int]:
    return (p, q)


class Box(Generic[T]):
    def __init__(self, v: T) -> None:
        self.v = v

    def get(self) -> T:
        return self.v


# ---- F6: context managers
class Sup:
    def __enter__(self) -> int:
        return 1

    def __exit__(self, *a: object) -> bool:
        return True


class NoSup:
    def __enter__(self) -> str:
        return "s"

    def __exit__(self, *a: object) -> None:
        return None
'''

# --------------------------------------------------------------------------- declared types and value domains
# name -> (annotation, value expressions [evaluated freshly for every call], capabilities)
# capabilities = uses that at least one component of the type supports (enumeration pruning only)

TYPES: dict[str, tuple[str, list[str], set[str]]] = {
    "int": ("int", ["0", "1", "-1", "True"], {"add1"}),
    "bool": ("bool", ["True", "False"], {"add1"}),
    "str": ("str", ['""', '"a"'], {"upper", "idx0", "len"}),
    "float": ("float", ["0.0", "1.5", "1", "True"], {"add1"}),
    "None": ("None", ["None"], set()),
    "Optional[int]": ("Optional[int]", ["None", "0", "1", "True"], {"add1"}),
    "int|str": ("Union[int, str]", ["0", "1", '""', '"a"'], {"add1", "upper", "idx0", "len"}),
    "int|str|None": ("Union[int, str, None]", ["None", "0", "1", '""', '"a"'], {"add1", "upper", "idx0", "len"}),
    "A": ("A", ["A()", "B()"], {"attr_a", "attr_b"}),
    "B": ("B", ["B()"], {"attr_a", "attr_b"}),
    "Optional[A]": ("Optional[A]", ["None", "A()", "B()"], {"attr_a", "attr_b"}),
    "list[int]": ("list[int]", ["[]", "[1]", "[0, 2]"], {"idx0", "len"}),
    "tuple[int,str]": ("tuple[int, str]", ['(0, "")', '(1, "a")'], {"idx0", "len"}),
    'Literal["a","b"]': ('Literal["a", "b"]', ['"a"', '"b"'], {"upper", "idx0", "len"}),
    "Literal[1,2]": ("Literal[1, 2]", ["1", "2"], {"add1"}),
    "E": ("E", ["E.X", "E.Y"], set()),
    "Callable[[int],int]": ("Callable[[int], int]", ["inc", "abs", "int", "CallMe()"], {"call1"}),
    "P": ("P", ["PI()", "PS()"], set()),
    "object": ("object", ["0", '"a"', "None", "A()", "[1]", "inc", "1.5"],
               {"add1", "upper", "idx0", "len", "attr_a", "attr_b", "call1"}),
    "type[A]": ("type[A]", ["A", "B"], {"call0"}),
    "A|int": ("Union[A, int]", ["A()", "B()", "0", "True"], {"add1", "attr_a", "attr_b"}),
    "float|None": ("Optional[float]", ["None", "0.5", "1", "False"], {"add1"}),
    "W": ("W", ["W()"], set()),
    "list[str]": ("list[str]", ["[]", '["a"]'], {"idx0", "len"}),
    "dict[str,int]": ("dict[str, int]", ["{}", '{"a": 1}'], {"len"}),
    "complex": ("complex", ["1j", "1.5", "2", "True"], {"add1"}),
    "RA": ("RA", ["RA()", "RB()"], set()),
    "RB": ("RB", ["RB()"], set()),
    "RN": ("RN", ["RN()"], set()),
    "Box[int]": ("Box[int]", ["Box(1)", "Box(True)"], set()),
    "Sequence[int]": ("Sequence[int]", ["[1]", "(1, 2)", "range(2)"], {"idx0", "len"}),
    "type[int]": ("type[int]", ["int", "bool"], {"call0"}),
}

F1_TYPES = ["int", "bool", "str", "float", "None", "Optional[int]", "int|str", "int|str|None", "A", "B",
            "Optional[A]", "list[int]", "tuple[int,str]", 'Literal["a","b"]', "Literal[1,2]", "E",
            "Callable[[int],int]", "P", "object", "type[A]", "A|int", "float|None"]


def domain_prelude() -> str:
    """Typed domain factories: mypy itself certifies that every value expression has the declared
    type (a diagnostic here is a harness error)."""
    out = []
    for i, (name, (ann, vals, _)) in enumerate(TYPES.items()):
        out.append(f"def dom{i}() -> list[{ann}]:")
        out.append(f"    return [{', '.join(vals)}]")
        out.append("")
    return "\n".join(out) + "\n"


def domain_fn(name: str) -> str:
    return f"dom{list(TYPES).index(name)}"


# --------------------------------------------------------------------------- uses

USES = {  # name -> expression template on a variable
    "probe": "{v}",
    "add1": "{v} + 1",
    "attr_a": "{v}.a",
    "attr_b": "{v}.b",
    "upper": "{v}.upper()",
    "idx0": "{v}[0]",
    "call1": "{v}(1)",
    "call0": "{v}()",
    "len": "len({v})",
}
USE_ORDER = ["probe", "add1", "attr_a", "attr_b", "upper", "idx0", "call1", "call0", "len"]

# --------------------------------------------------------------------------- guards
# (label, form, kind, source, capabilities the guard's class may add)
#   kind "expr": source is a condition template on {x};  kind "match": source is a case pattern;
#   kind "walrus": condition template binds z from {x}, uses then apply to z.

GUARDS: list[tuple[str, str, str, str, set[str]]] = [
    ("isinstance(x,int)", "isinstance", "expr", "isinstance({x}, int)", {"add1"}),
    ("isinstance(x,str)", "isinstance", "expr", "isinstance({x}, str)", {"upper", "idx0", "len"}),
    ("isinstance(x,bool)", "isinstance", "expr", "isinstance({x}, bool)", {"add1"}),
    ("isinstance(x,float)", "isinstance", "expr", "isinstance({x}, float)", {"add1"}),
    ("isinstance(x,A)", "isinstance", "expr", "isinstance({x}, A)", {"attr_a"}),
    ("isinstance(x,B)", "isinstance", "expr", "isinstance({x}, B)", {"attr_a", "attr_b"}),
    ("isinstance(x,list)", "isinstance", "expr", "isinstance({x}, list)", {"idx0", "len"}),
    ("isinstance(x,tuple)", "isinstance", "expr", "isinstance({x}, tuple)", {"idx0", "len"}),
    ("isinstance(x,(int,str))", "isinstance-tuple", "expr", "isinstance({x}, (int, str))", {"add1", "upper"}),
    ("isinstance(x,(B,str))", "isinstance-tuple", "expr", "isinstance({x}, (B, str))", {"attr_b", "upper"}),
    ("x is None", "is-None", "expr", "{x} is None", set()),
    ("x is not None", "is-not-None", "expr", "{x} is not None", set()),
    ("x", "truthy", "expr", "{x}", set()),
    ("not x", "not", "expr", "not {x}", set()),
    ("x == 1", "eq-literal", "expr", "{x} == 1", {"add1"}),
    ('x == "a"', "eq-literal", "expr", '{x} == "a"', {"upper"}),
    ("x == None", "eq-literal", "expr", "{x} == None", set()),
    ("x == E.X", "eq-literal", "expr", "{x} == E.X", set()),
    ("x != 1", "ne-literal", "expr", "{x} != 1", set()),
    ('x != "a"', "ne-literal", "expr", '{x} != "a"', set()),
    ('x in (1,"a")', "in-tuple", "expr", '{x} in (1, "a")', {"add1", "upper"}),
    ("x in (None,1)", "in-tuple", "expr", "{x} in (None, 1)", {"add1"}),
    ("x is True", "is-literal", "expr", "{x} is True", {"add1"}),
    ("x is E.X", "is-literal", "expr", "{x} is E.X", set()),
    ("x is not E.X", "is-literal", "expr", "{x} is not E.X", set()),
    ("type(x) is int", "type-is", "expr", "type({x}) is int", {"add1"}),
    ("type(x) is bool", "type-is", "expr", "type({x}) is bool", {"add1"}),
    ("type(x) is str", "type-is", "expr", "type({x}) is str", {"upper", "idx0", "len"}),
    ("type(x) is float", "type-is", "expr", "type({x}) is float", {"add1"}),
    ("type(x) is A", "type-is", "expr", "type({x}) is A", {"attr_a"}),
    ("type(x) == int", "type-eq", "expr", "type({x}) == int", {"add1"}),
    ("type(x) is not int", "type-is-not", "expr", "type({x}) is not int", set()),
    ("callable(x)", "callable", "expr", "callable({x})", {"call1"}),
    ("issubclass(type(x),int)", "issubclass-type", "expr", "issubclass(type({x}), int)", {"add1"}),
    ("issubclass(type(x),A)", "issubclass-type", "expr", "issubclass(type({x}), A)", {"attr_a"}),
    ("match int()", "match-class", "match", "int()", {"add1"}),
    ("match str()", "match-class", "match", "str()", {"upper", "idx0", "len"}),
    ("match bool()", "match-class", "match", "bool()", {"add1"}),
    ("match float()", "match-class", "match", "float()", {"add1"}),
    ("match A()", "match-class", "match", "A()", {"attr_a"}),
    ("match B()", "match-class", "match", "B()", {"attr_a", "attr_b"}),
    ('match "a"', "match-literal", "match", '"a"', {"upper"}),
    ("match 1", "match-literal", "match", "1", {"add1"}),
    ("match None", "match-literal", "match", "None", set()),
    ("match True", "match-literal", "match", "True", {"add1"}),
    ("match E.X", "match-value", "match", "E.X", set()),
    ('match 1|"a"', "match-or", "match", '1 | "a"', {"add1", "upper"}),
    ("match int()|str()", "match-or", "match", "int() | str()", {"add1", "upper"}),
    ("match [_,_]", "match-sequence", "match", "[_, _]", {"idx0", "len"}),
    ("(z:=x) is not None", "walrus", "walrus", "(z := {x}) is not None", set()),
    ("isinstance(z:=x,int)", "walrus", "walrus", "isinstance((z := {x}), int)", {"add1"}),
    ("isinstance(z:=x,str)", "walrus", "walrus", "isinstance((z := {x}), str)", {"upper", "idx0", "len"}),
]

SHAPES = ["ifelse", "elif", "return", "assert", "and", "or", "nested", "merge", "while", "forelse", "try",
          "ternary"]
EXPR_ONLY_SHAPES = {"elif", "assert", "and", "or", "ternary"}  # need a condition EXPRESSION (no match)


def _ind(lines: list[str], n: int = 1) -> list[str]:
    return ["    " * n + ln for ln in lines]


def _cond_block(g: tuple, x: str, then: list[str], els: list[str] | None) -> list[str]:
    """`if g: then else: els` (or the equivalent match statement)."""
    _label, _form, kind, src, _caps = g
    if kind == "match":
        out = [f"match {x}:", f"    case {src}:"] + _ind(then, 2)
        if els is not None:
            out += ["    case _:"] + _ind(els, 2)
        return out
    out = [f"if {src.format(x=x)}:"] + _ind(then)
    if els is not None:
        out += ["else:"] + _ind(els)
    return out


def _p(i: int, use: str, v: str) -> str:
    return f"probe({i}, {USES[use].format(v=v)})"


def f1_body(tname: str, g: tuple, shape: str, use: str, pos: str) -> list[str] | None:
    """Body lines of one F1 function, or None when the combination is not expressible.

    pos: "both" (use == probe: plain probes everywhere) | "then" | "else" (where the non-probe use
    is applied; the other branch gets a plain probe)."""
    kind = g[2]
    if kind == "match" and shape in EXPR_ONLY_SHAPES:
        return None
    v = "z" if kind == "walrus" else "x"  # the narrowed variable
    tu = use if pos in ("then", "both") else "probe"
    eu = use if pos in ("else", "both") else "probe"
    cond = g[3].format(x="x") if kind != "match" else ""
    has_none = "None" in TYPES[tname][1]
    if shape == "ifelse":
        return _cond_block(g, "x", [_p(1, tu, v)], [_p(2, eu, v)]) + [_p(3, "probe", v)]
    if shape == "elif":
        c2 = "isinstance(x, str)" if "isinstance(x,str)" != g[0] else "x is None"
        return [f"if {cond}:", "    " + _p(1, tu, v), f"elif {c2}:", "    " + _p(2, "probe", v), "else:",
                "    " + _p(3, eu, v), _p(4, "probe", v)]
    if shape == "return":
        return _cond_block(g, "x", [_p(1, tu, v), "return"], None) + [_p(2, eu, v)]
    if shape == "assert":
        if pos == "else":
            return None
        return [f"assert {cond}", _p(1, tu, v)]
    if shape == "and":
        if pos == "else":
            return None
        return [f"({cond}) and {_p(1, tu, v)}", _p(2, "probe", "x")]
    if shape == "or":
        if pos == "then":
            return None
        return [f"({cond}) or {_p(1, eu, v)}", _p(2, "probe", "x")]
    if shape == "nested":
        outer = "x is not None" if has_none else "not isinstance(x, bool)"
        inner = _cond_block(g, "x", [_p(1, tu, v)], [_p(2, eu, v)])
        return [f"if {outer}:"] + _ind(inner) + ["else:", "    " + _p(3, "probe", "x")]
    if shape == "ternary":
        return [f"r = {_p(1, tu, v)} if {cond} else {_p(2, eu, v)}", "probe(3, r)"]
    # assignment shapes: y starts as W(), is assigned the narrowed x in the positive branch
    if pos == "else":
        return None
    ann = TYPES[tname][0]
    decl = [f"y: Union[{ann}, W] = W()"]
    assign = ["y = " + v, _p(5, tu, "y")] if use != "probe" else ["y = " + v]
    if shape == "merge":
        return decl + _cond_block(g, "x", assign, None) + [_p(1, "probe", "y")]
    if shape == "while":
        return decl + ["n = 0", "while n < 2:", "    " + _p(1, "probe", "y")] + _ind(_cond_block(g, "x", assign, None)) + [
            "    n += 1", _p(2, "probe", "y")]
    if shape == "forelse":
        return decl + ["for _i in (0, 1):"] + _ind(_cond_block(g, "x", assign + ["break"], None)) + [
            "    " + _p(1, "probe", "y"), "else:", "    " + _p(2, "probe", "y"), _p(3, "probe", "y")]
    if shape == "try":
        return decl + ["try:"] + _ind(_cond_block(g, "x", assign, None)) + [
            "    chk(x)", "    y = W()", "except ValueError:", "    " + _p(1, "probe", "y"), "finally:",
            "    " + _p(2, "probe", "y"), _p(3, "probe", "y")]
    raise AssertionError(shape)


def gen_f1(level: str, prune: bool = True) -> list[dict]:
    """F1 narrowing.  level "single": T x G x K x U(applicable), single guards.
    level "pairs": adds ordered guard pairs (g1, g2) in and / or / nested, probe use."""
    out: list[dict] = []
    if level == "single":
        for use in USE_ORDER:  # simplest first: probe-only functions come first
            for tname in F1_TYPES:
                caps = TYPES[tname][2]
                for g in GUARDS:
                    if prune and use != "probe" and use not in (caps | g[4]):
                        continue
                    for shape in SHAPES:
                        for pos in (["both"] if use == "probe" else ["then", "else"]):
                            body = f1_body(tname, g, shape, use, pos)
                            if body is None:
                                continue
                            out.append({"fam": "F1", "key": [tname, g[0], shape, use, pos], "form": g[1],
                                        "params": [tname], "pre": [], "body": body, "ret": "None"})
        return out
    assert level == "pairs"
    exprs = [g for g in GUARDS if g[2] == "expr"]
    for tname in F1_TYPES:
        for g1 in GUARDS:
            for g2 in GUARDS:
                if g1[2] == "walrus" and g2[2] == "walrus":
                    continue
                for comb in ("and", "or", "nested"):
                    if comb in ("and", "or"):
                        if g1[2] == "match" or g2[2] == "match":
                            continue
                        c1, c2 = g1[3].format(x="x"), g2[3].format(x="x")
                        op = comb
                        vs = ["x"] + (["z"] if "walrus" in (g1[2], g2[2]) and comb == "and" else [])
                        then = [_p(1 + k, "probe", v) for k, v in enumerate(vs)]
                        body = [f"if ({c1}) {op} ({c2}):"] + _ind(then) + ["else:", "    " + _p(3, "probe", "x")] + [
                            _p(4, "probe", "x")]
                    else:
                        v2 = "z" if g2[2] == "walrus" else "x"
                        inner = _cond_block(g2, "x", [_p(1, "probe", v2)], [_p(2, "probe", v2)])
                        body = _cond_block(g1, "x", inner, [_p(3, "probe", "x")]) + [_p(4, "probe", "x")]
                    out.append({"fam": "F1", "key": [tname, g1[0] + " " + comb + " " + g2[0], "pair-" + comb, "probe",
                                                     "both"], "form": g1[1] + "+" + g2[1],
                                "params": [tname], "pre": [], "body": body, "ret": "None"})
    del exprs
    return out


# --------------------------------------------------------------------------- rendering


DEF_LINES: list[int] = []  # line of each function's `def` in the module rendered last (pre lines come before)


def render_module(specs: list[dict]) -> tuple[str, list[tuple[int, int]], int]:
    """Module text, per-function (first_line, last_line) spans, and the last prelude line."""
    DEF_LINES.clear()
    head = PRELUDE + "\n" + domain_prelude() + "\n"
    lines = head.split("\n")
    if lines[-1] == "":
        lines.pop()
    prelude_last = len(lines)
    spans = []
    for i, s in enumerate(specs):
        lines.append("")
        first = len(lines) + 1
        for ln in s["pre"]:
            lines.append(ln.replace("§", str(i)))
        if "recv" in s:
            params = "o: " + s["recv"][0].replace("§", str(i))
        else:
            params = ", ".join(f"x{k}: {TYPES[t][0]}" if len(s["params"]) > 1 else f"x: {TYPES[t][0]}"
                               for k, t in enumerate(s["params"]))
        lines.append(f"def f{i}({params}) -> {s.get('ret', 'None')}:")
        DEF_LINES.append(len(lines))
        for ln in s["body"]:
            lines.append("    " + ln.replace("§", str(i)))
        spans.append((first, len(lines)))
    return "\n".join(lines) + "\n", spans, prelude_last


def function_source(spec: dict, i: int = 0) -> str:
    text, spans, _ = render_module([spec])
    ls = text.split("\n")
    a, b = spans[0]
    return "\n".join(ls[a - 1:b])



# --------------------------------------------------------------------------- F2 operators

F2_TYPES = ["int", "bool", "str", "float", "None", "Optional[int]", "int|str", "A", "B", "list[int]",
            "tuple[int,str]", 'Literal["a","b"]', "Literal[1,2]", "E", "Callable[[int],int]", "P", "complex",
            "RA", "RB", "RN", "list[str]", "dict[str,int]"]
BINOPS = ["+", "-", "*", "/", "//", "%", "**", "<<", ">>", "&", "|", "^", "@", "==", "!=", "<", "<=", ">", ">=",
          "in", "not in", "is", "is not", "and", "or"]
# `**=` is not enumerated: typeshed types int.__pow__ with a non-literal exponent as Any and mypy records no
# type for the implicit operator expression of an augmented assignment, so Any-freedom cannot be observed.
AUGOPS = ["+", "-", "*", "/", "//", "%", "<<", ">>", "&", "|", "^"]
UNOPS = ["-", "+", "~", "not "]


def _str_like(t: str) -> bool:
    return t in ("str", "int|str", 'Literal["a","b"]')


def gen_f2() -> list[dict]:
    out: list[dict] = []
    for t in F2_TYPES:
        for op in UNOPS:
            out.append({"fam": "F2", "key": ["unary", op.strip(), t], "params": [t], "pre": [],
                        "body": [f"probe(1, {op}x)"], "ret": "None"})
    for op in BINOPS:
        for t1 in F2_TYPES:
            for t2 in F2_TYPES:
                if op == "%" and _str_like(t1):
                    continue  # printf-style formatting: typeshed types the right operand as Any (outside the fragment)
                out.append({"fam": "F2", "key": ["binary", op, t1, t2], "params": [t1, t2], "pre": [],
                            "body": [f"probe(1, x0 {op} x1)"], "ret": "None"})
    for op in AUGOPS:
        for t1 in F2_TYPES:
            for t2 in F2_TYPES:
                if op == "%" and _str_like(t1):
                    continue
                out.append({"fam": "F2", "key": ["augmented", op + "=", t1, t2], "params": [t1, t2], "pre": [],
                            "body": [f"x0 {op}= x1", "probe(1, x0)"], "ret": "None"})
    return out


# --------------------------------------------------------------------------- F4 joins

F4_TYPES = ["int", "bool", "str", "float", "None", "Optional[int]", "int|str", "A", "B", "Optional[A]", "list[int]",
            "tuple[int,str]", 'Literal["a","b"]', "Literal[1,2]", "E", "Callable[[int],int]", "P", "object", "W",
            "list[str]", "type[A]", "Box[int]"]
F4_FORMS: list[tuple[str, list[str], list[str]]] = [
    ("ternary", ["x0", "x1", "c"], ["r = x0 if c else x1", "probe(1, r)"]),
    ("list", ["x0", "x1"], ["r = [x0, x1]", "probe(1, r)", "probe(2, r[0])", "probe(3, r[1])"]),
    ("list3", ["x0", "x1"], ["r = [x0, x1, x0]", "probe(1, r)", "for e in r:", "    probe(2, e)"]),
    ("dict", ["x0", "x1"], ['r = {"k": x0, "j": x1}', "probe(1, r)", 'probe(2, r["k"])', 'probe(3, r["j"])']),
    ("tuple", ["x0", "x1"], ["r = (x0, x1)", "probe(1, r)", "a, b = r", "probe(2, a)", "probe(3, b)"]),
    ("star-unpack", ["x0", "x1"], ["a, *b = [x0, x1]", "probe(1, a)", "probe(2, b)"]),
    ("or", ["x0", "x1"], ["r = x0 or x1", "probe(1, r)"]),
    ("and", ["x0", "x1"], ["r = x0 and x1", "probe(1, r)"]),
    ("list-comp-ternary", ["x0", "x1"], ["r = [x0 if i else x1 for i in (0, 1)]", "probe(1, r)"]),
    ("lambda", ["x0", "x1", "c"], ["g = lambda: x0 if c else x1", "probe(1, g())"]),
    ("nested-list", ["x0", "x1"], ["r = [[x0], [x1]]", "probe(1, r)"]),
    ("dict-get", ["x0", "x1"], ['r = {"k": x0}.get("j", x1)', "probe(1, r)"]),
]


def gen_f4() -> list[dict]:
    out: list[dict] = []
    for form, params, body in F4_FORMS:
        for t1 in F4_TYPES:
            for t2 in F4_TYPES:
                ps = [t1, t2] + (["bool"] if "c" in params else [])
                b = [ln.replace("c else", "x2 else").replace("if c", "if x2") for ln in body]
                out.append({"fam": "F4", "key": [form, t1, t2], "params": ps, "pre": [], "body": b, "ret": "None"})
    return out


# --------------------------------------------------------------------------- F3 calls

F3_TYPES = ["int", "bool", "str", "float", "None", "Optional[int]", "int|str", "int|str|None", "A", "B", "Optional[A]",
            "list[int]", "tuple[int,str]", 'Literal["a","b"]', "Literal[1,2]", "E", "Callable[[int],int]", "P",
            "object", "A|int", "Sequence[int]", "Box[int]", "type[A]", "type[int]", "list[str]"]
F3_UNARY = [  # (label, body template on x)
    ("ident", ["probe(1, ident(x))"]),
    ("identb(bound=A)", ["probe(1, identb(x))"]),
    ("identc(int,str)", ["probe(1, identc(x))"]),
    ("twice(int,str)", ["probe(1, twice(x))"]),
    ("lst", ["probe(1, lst(x))"]),
    ("head", ["probe(1, head(x))"]),
    ("head-of-list", ["probe(1, head([x]))"]),
    ("opt", ["probe(1, opt(x))"]),
    ("apply-ident", ["probe(1, apply(ident, x))"]),
    ("apply-inc", ["probe(1, apply(inc, x))"]),
    ("apply-lambda", ["probe(1, apply(lambda v: [v], x))"]),
    ("apply-x", ["probe(1, apply(x, 1))"]),
    ("ov(int/str)", ["probe(1, ov(x))"]),
    ("ov2(None/int/A)", ["probe(1, ov2(x))"]),
    ("ov3(bool/int/object)", ["probe(1, ov3(x))"]),
    ("dflt-pos", ["probe(1, dflt(x))"]),
    ("dflt-kw-y", ["probe(1, dflt(y=x))"]),
    ("star-1", ["probe(1, star(x))"]),
    ("star-splat", ["probe(1, star(*x))"]),
    ("star-2", ["probe(1, star(x, x))"]),
    ("kw-1", ["probe(1, kw(k=x))"]),
    ("kw-splat", ['probe(1, kw(**{"k": x}))']),
    ("kwo-splat", ["probe(1, kwo(*x))"]),
    ("kwo-splat-1tuple", ["probe(1, kwo(*(x,)))"]),
    ("kwo-kw", ["probe(1, kwo(a=x))"]),
    ("poskw-splat-1tuple", ["probe(1, poskw(*(x,)))"]),
    ("poskw-splat-2tuple", ["probe(1, poskw(*(x, x)))"]),
    ("poskw-pos-kw", ["probe(1, poskw(x, a=x))"]),
    ("poskw-splat-kw", ["probe(1, poskw(*(x,), a=x))"]),
    ("posonly-pos-kw", ["probe(1, posonly(x, q=x))"]),
    ("posonly-kw-p", ["probe(1, posonly(p=x))"]),
    ("posonly-splat-2tuple", ["probe(1, posonly(*(x, x)))"]),
    ("dflt-splat-1tuple", ["probe(1, dflt(*(x,)))"]),
    ("dflt-dsplat", ['probe(1, dflt(**{"x": x}))']),
    ("star-splat-tuple-kw", ["probe(1, star(*(x, x)))"]),
    ("Box", ["b = Box(x)", "probe(1, b)", "probe(2, b.get())", "probe(3, b.v)"]),
    ("Box-annot", ["b: Box[object] = Box(x)", "probe(1, b.get())"]),
    ("call-x0", ["probe(1, x())"]),
    ("call-x1", ["probe(1, x(1))"]),
    ("method-generic", ["probe(1, [x].copy())", "probe(2, [x].pop())", 'probe(3, {"k": x}.get("k"))']),
    ("tuple-index", ["probe(1, (x, 1)[0])", "probe(2, (x, 1)[1])"]),
    ("max", ["probe(1, max(x, x))"]),
    ("isinstance-result", ["probe(1, isinstance(x, int))"]),
    ("str()", ["probe(1, str(x))", "probe(2, repr(x))", "probe(3, bool(x))"]),
    ("sorted", ["probe(1, sorted([x, x]))"]),
    ("enumerate-zip", ["for i, v in enumerate([x]):", "    probe(1, i)", "    probe(2, v)"]),
    ("dict-items", ['for k, v in {"k": x}.items():', "    probe(1, k)", "    probe(2, v)"]),
    ("iter", ["for v in x:", "    probe(1, v)"]),
    ("unpack", ["a, b = x", "probe(1, a)", "probe(2, b)"]),
    ("len", ["probe(1, len(x))"]),
    ("int()", ["probe(1, int(x))"]),
    ("abs", ["probe(1, abs(x))"]),
    ("round", ["probe(1, round(x))"]),
    ("divmod", ["probe(1, divmod(x, 2))"]),
]
# not enumerated (typeshed models them with Any-parameterised bound protocols, i.e. outside the Any-free
# fragment): max/min of two different types (SupportsRichComparison = SupportsDunderLT[Any] | ...), sum() of
# literal ints (_SupportsSumWithNoDefaultGiven = SupportsAdd[Any, Any]).
F3_BINARY = [
    ("first", ["probe(1, first(x0, x1))"]),
    ("second", ["probe(1, second(x0, x1))"]),
    ("pair", ["probe(1, pair(x0, x1))"]),
    ("identc-pair", ["probe(1, first(identc(x0), identc(x1)))"]),
    ("dflt2", ["probe(1, dflt(x0, x1))"]),
    ("first-list", ["probe(1, first([x0], [x1]))"]),
    ("apply2", ["probe(1, apply(lambda v: (v, x1), x0))"]),
    ("dict-kv", ["probe(1, dict([(x0, x1)]))"]),
    ("zip", ["for a, b in zip([x0], [x1]):", "    probe(1, a)", "    probe(2, b)"]),
]
F3_BIN_TYPES = ["int", "bool", "str", "float", "None", "Optional[int]", "int|str", "A", "B", "list[int]",
                "tuple[int,str]", 'Literal["a","b"]', "E", "Callable[[int],int]", "object", "Box[int]"]


def gen_f3() -> list[dict]:
    out: list[dict] = []
    for label, body in F3_UNARY:
        for t in F3_TYPES:
            out.append({"fam": "F3", "key": [label, t], "params": [t], "pre": [], "body": body, "ret": "None"})
    for label, body in F3_BINARY:
        for t1 in F3_BIN_TYPES:
            for t2 in F3_BIN_TYPES:
                out.append({"fam": "F3", "key": [label, t1, t2], "params": [t1, t2], "pre": [], "body": body,
                            "ret": "None"})
    return out


# --------------------------------------------------------------------------- F6 control flow

F6_TYPES = ["Optional[int]", "str"]
ACT = ["pass", "y = x", "y = W()", "never()", "return", "raise ValueError()", "chk(x)"]
ACT_LOOP = ACT + ["break", "continue"]
ACT_FIN = ["pass", "y = x", "y = W()"]
# templates: lines with slot markers {0} {1} ...; per-slot action alphabets
F6_TEMPLATES: list[tuple[str, list[list[str]], list[str]]] = [
    ("if-else", [ACT, ACT], ["if c:", "    {0}", "else:", "    {1}"]),
    ("if-elif", [ACT, ACT], ["if c:", "    {0}", "elif x:", "    {1}"]),
    ("while-true", [ACT_LOOP, ACT_LOOP],
     ["n = 0", "while True:", "    n += 1", "    if n > 2:", "        break", "    probe(2, y)", "    {0}", "    if c:",
      "        {1}"]),
    ("while-else", [ACT_LOOP, ACT_LOOP, ACT],
     ["n = 0", "while n < 2:", "    n += 1", "    {0}", "    if c:", "        {1}", "else:", "    probe(2, y)",
      "    {2}"]),
    ("for-else", [ACT_LOOP, ACT_LOOP, ACT],
     ["for _i in (0, 1):", "    {0}", "    if c:", "        {1}", "else:", "    probe(2, y)", "    {2}"]),
    ("try-except", [ACT, ACT, ACT],
     ["try:", "    {0}", "    chk(x)", "    {1}", "except ValueError:", "    probe(2, y)", "    {2}"]),
    ("try-except-else-finally", [ACT, ACT, ACT, ACT_FIN],
     ["try:", "    {0}", "    chk(x)", "except ValueError:", "    probe(2, y)", "    {1}", "else:", "    probe(3, y)",
      "    {2}", "finally:", "    probe(4, y)", "    {3}"]),
    ("try-finally", [ACT, ACT, ACT_FIN],
     ["try:", "    {0}", "    chk(x)", "    {1}", "finally:", "    probe(2, y)", "    {2}"]),
    ("with-suppressing", [ACT, ACT], ["with Sup():", "    {0}", "    chk(x)", "    {1}"]),
    ("with-non-suppressing", [ACT, ACT], ["with NoSup():", "    {0}", "    chk(x)", "    {1}"]),
    ("del", [ACT, ACT], ["del y", "if c:", "    {0}", "else:", "    {1}"]),
    ("nested-try-in-loop", [ACT_LOOP, ACT_LOOP],
     ["for _i in (0, 1):", "    try:", "        {0}", "        chk(x)", "    except ValueError:", "        {1}",
      "    probe(2, y)"]),
    ("match", [ACT, ACT, ACT],
     ["match x:", "    case None:", "        {0}", '    case 0 | "":', "        {1}", "    case _:", "        {2}"]),
    # two nested exception frames: the exception raised by chk(x) is NOT handled by the inner construct and lands
    # in the outer handler / finally with whatever the inner body assigned
    ("try-in-try", [ACT, ACT, ACT],
     ["try:", "    try:", "        {0}", "        chk(x)", "        {1}", "    except KeyError:", "        probe(3, y)",
      "except ValueError:", "    probe(2, y)", "    {2}"]),
    ("tryfinally-in-try", [ACT, ACT_FIN, ACT],
     ["try:", "    try:", "        {0}", "        chk(x)", "    finally:", "        probe(3, y)", "        {1}",
      "except ValueError:", "    probe(2, y)", "    {2}"]),
    ("with-in-try", [ACT, ACT, ACT],
     ["try:", "    with NoSup():", "        {0}", "        chk(x)", "        {1}", "except ValueError:",
      "    probe(2, y)", "    {2}"]),
    ("withsup-in-try", [ACT, ACT, ACT],
     ["try:", "    with Sup():", "        {0}", "        chk(x)", "        {1}", "    probe(3, y)", "except ValueError:",
      "    probe(2, y)", "    {2}"]),
    ("try-in-tryfinally", [ACT, ACT, ACT_FIN],
     ["try:", "    try:", "        {0}", "        chk(x)", "    except KeyError:", "        {1}", "finally:",
      "    probe(2, y)", "    {2}"]),
    ("loop-in-try", [ACT_LOOP, ACT_LOOP],
     ["try:", "    for _i in (0, 1):", "        {0}", "        chk(x)", "        {1}", "except ValueError:",
      "    probe(2, y)"]),
]


def gen_f6() -> list[dict]:
    out: list[dict] = []
    for name, slots, lines in F6_TEMPLATES:
        for t in F6_TYPES:
            ann = TYPES[t][0]
            for acts in itertools.product(*slots):
                # `y: Union[...] = None` leaves y at its declared type; the "narrowed" prelude re-assigns it so that
                # the statement is entered with y narrowed to W (what an assignment inside the statement must widen)
                for pre_name, prelude in (("declared", []), ("narrowed", ["y = W()"])):
                    body = [f"y: Union[{ann}, W, None] = None"] + prelude
                    for ln in lines:
                        body.append(ln.format(*acts))
                    body.append("probe(1, y)")
                    body = [ln.replace("if c:", "if x1:").replace("elif x:", "elif x0:").replace("= x", "= x0")
                            .replace("chk(x)", "chk(x0)").replace("match x:", "match x0:") for ln in body]
                    out.append({"fam": "F6", "key": [name, t, pre_name] + list(acts), "params": [t, "bool"],
                                "pre": [], "body": body, "ret": "None"})
    return out


# --------------------------------------------------------------------------- F5 classes

F5_PRE = """\
class H1§:
    k: int = 0

    def __init__(self) -> None:
        self.i: int = 1

    def m(self) -> A:
        return A()

    @property
    def p(self) -> int:
        return 1

    @classmethod
    def make(cls) -> "H1§":
        return cls()

    @staticmethod
    def st() -> int:
        return 0


class H2§(H1§):
    k: bool = True

    def m(self) -> B:
        return B()

    @property
    def p(self) -> bool:
        return True


class H3§(H2§):
    def __init__(self) -> None:
        super().__init__()
        self.i = True

    @classmethod
    def make(cls) -> "H3§":
        return cls()


@dataclass
class D1§:
    x: int
    y: str = "a"
    z: list[int] = field(default_factory=list)


@dataclass(order=True, frozen=True)
class D2§:
    x: int
    y: Optional[str] = None


@dataclass
class D3§(D1§):
    w: Union[int, str] = 0


class E2§(enum.Enum):
    P = 1
    Q = "q"


class IE§(enum.IntEnum):
    ONE = 1
    TWO = 2


class FL§(enum.Flag):
    R = 1
    G = 2


class PA§(Protocol):
    n: int

    @property
    def q(self) -> Union[int, str]: ...


class PAI§:
    def __init__(self) -> None:
        self.n: int = 3

    @property
    def q(self) -> int:
        return 4


def mk_h§() -> list[H1§]:
    return [H1§(), H2§(), H3§()]
"""

F5_CASES: list[tuple[str, str, list[str], list[str]]] = [
    # (label, receiver annotation, runtime receivers, body on o)
]


def _f5(label: str, ann: str, vals: list[str], body: list[str]) -> None:
    F5_CASES.append((label, ann, vals, body))


for _cls, _vals in (("H1§", ["H1§()", "H2§()", "H3§()"]), ("H2§", ["H2§()", "H3§()"]), ("H3§", ["H3§()"])):
    for _lab, _body in [
        ("method-covariant", ["probe(1, o.m())"]),
        ("method-attr", ["probe(1, o.m().a)"]),
        ("method-attr-b", ["probe(1, o.m().b)"]),
        ("property", ["probe(1, o.p)"]),
        ("class-attr", ["probe(1, o.k)"]),
        ("class-attr-via-type", ["probe(1, type(o).k)"]),
        ("instance-attr", ["probe(1, o.i)"]),
        ("classmethod", ["probe(1, o.make())", "probe(2, type(o).make())"]),
        ("staticmethod", ["probe(1, o.st())"]),
        ("bound-method", ["g = o.m", "probe(1, g)", "probe(2, g())"]),
        ("isinstance-H2", ["if isinstance(o, H2§):", "    probe(1, o)", "    probe(2, o.m())", "else:", "    probe(3, o)"]),
        ("isinstance-H3", ["if isinstance(o, H3§):", "    probe(1, o.i)", "else:", "    probe(2, o.p)"]),
        ("type-is-H1", ["if type(o) is H1§:", "    probe(1, o)", "else:", "    probe(2, o)"]),
        ("type-is-H2", ["if type(o) is H2§:", "    probe(1, o)", "else:", "    probe(2, o)"]),
        ("match-H2", ["match o:", "    case H2§():", "        probe(1, o)", "    case _:", "        probe(2, o)"]),
        ("match-attr", ["match o:", "    case H1§(k=True):", "        probe(1, o)", "    case H1§(k=kk):",
                        "        probe(2, kk)"]),
        ("self-type", ["probe(1, [o, o.make()])"]),
    ]:
        _f5(_lab, _cls, _vals, _body)

for _lab, _ann, _vals, _body in [
    ("dc-fields", "D1§", ["D1§(1)", 'D1§(True, "b", [1])', "D3§(2)"], ["probe(1, o.x)", "probe(2, o.y)", "probe(3, o.z)"]),
    ("dc-eq", "D1§", ["D1§(1)", "D3§(2)"], ["probe(1, o == o)", "probe(2, o != D1§(1))"]),
    ("dc-lt-unordered", "D1§", ["D1§(1)"], ["probe(1, o < o)"]),
    ("dc-order", "D2§", ["D2§(1)", 'D2§(2, "s")'], ["probe(1, o < D2§(0))", "probe(2, o >= o)"]),
    ("dc-order-none", "D2§", ["D2§(1)", 'D2§(1, "s")'], ["probe(1, o < D2§(1))"]),
    ("dc-frozen-hash", "D2§", ["D2§(1)"], ["probe(1, {o: 1})", "probe(2, hash(o))"]),
    ("dc-frozen-assign", "D2§", ["D2§(1)"], ["o.x = 2", "probe(1, o.x)"]),
    ("dc-optional-field", "D2§", ["D2§(1)", 'D2§(2, "s")'], ["probe(1, o.y)", "if o.y is not None:", "    probe(2, o.y.upper())"]),
    ("dc-optional-field-unguarded", "D2§", ["D2§(1)"], ["probe(1, o.y.upper())"]),
    ("dc-construct", "int", ["0", "True"], ["d = D1§(o)", "probe(1, d)", "probe(2, d.x)", "probe(3, D1§(o, z=[o]).z)"]),
    ("dc-construct-bad", "str", ['"a"'], ["d = D1§(o)", "probe(1, d.x + 1)"]),
    ("dc-construct-missing", "int", ["0"], ["d = D1§()", "probe(1, d)"]),
    ("dc-inherit", "D3§", ["D3§(1)", 'D3§(1, "b", [], "w")'], ["probe(1, o.w)", "probe(2, o.x)", "probe(3, o)"]),
    ("dc-inherit-narrow", "D1§", ["D1§(1)", 'D3§(1, "b", [], "w")'],
     ["if isinstance(o, D3§):", "    probe(1, o.w)", "else:", "    probe(2, o)"]),
    ("dc-match", "D1§", ["D1§(1)", 'D1§(2, "b")'],
     ["match o:", "    case D1§(1, yy):", "        probe(1, yy)", "    case D1§(x=xx):", "        probe(2, xx)"]),
    ("dc-replace-astuple", "D1§", ["D1§(1)"], ["import dataclasses", "probe(1, dataclasses.replace(o, x=2))",
                                                "probe(2, dataclasses.astuple(o))"]),
    ("enum-is-exhaustive", "E", ["E.X", "E.Y"],
     ["if o is E.X:", "    probe(1, o)", "elif o is E.Y:", "    probe(2, o)", "else:", "    assert_never(o)"]),
    ("enum-eq-exhaustive", "E", ["E.X", "E.Y"],
     ["if o == E.X:", "    probe(1, o)", "elif o == E.Y:", "    probe(2, o)", "else:", "    assert_never(o)"]),
    ("enum-is-nonexhaustive", "E", ["E.X", "E.Y"], ["if o is E.X:", "    probe(1, o)", "else:", "    assert_never(o)"]),
    ("enum-match-exhaustive", "E", ["E.X", "E.Y"],
     ["match o:", "    case E.X:", "        probe(1, o)", "    case E.Y:", "        probe(2, o)", "    case _:",
      "        assert_never(o)"]),
    ("enum-value-name", "E", ["E.X", "E.Y"], ["probe(1, o.value)", "probe(2, o.name)"]),
    ("enum-value-after-narrow", "E", ["E.X", "E.Y"], ["if o is E.X:", "    probe(1, o.value)", "else:", "    probe(2, o.value)"]),
    ("enum-mixed-value", "E2§", ["E2§.P", "E2§.Q"], ["probe(1, o.value)", "if o is E2§.P:", "    probe(2, o.value)",
                                                   "else:", "    probe(3, o.value)"]),
    ("enum-call", "int", ["1", "2", "3", "True"], ["probe(1, E(o))"]),
    ("enum-index", "str", ['"X"', '"a"'], ["probe(1, E[o])"]),
    ("enum-iter", "int", ["0"], ["for m in E:", "    probe(1, m)"]),
    ("enum-not-in", "E", ["E.X", "E.Y"], ["if o in (E.X,):", "    probe(1, o)", "else:", "    probe(2, o)"]),
    ("intenum-arith", "IE§", ["IE§.ONE", "IE§.TWO"], ["probe(1, o + 1)", "probe(2, o.value)", "probe(3, o < 2)", "probe(4, o)"]),
    ("intenum-as-int", "int", ["IE§.ONE", "1", "True"], ["if isinstance(o, IE§):", "    probe(1, o)", "else:", "    probe(2, o)"]),
    ("intenum-eq-literal", "IE§", ["IE§.ONE", "IE§.TWO"], ["if o == 1:", "    probe(1, o)", "else:", "    probe(2, o)"]),
    ("flag-ops", "FL§", ["FL§.R", "FL§.G", "FL§.R | FL§.G"], ["probe(1, o | FL§.R)", "probe(2, o & FL§.G)", "probe(3, ~o)",
                                                           "if o is FL§.R:", "    probe(4, o)", "elif o is FL§.G:",
                                                           "    probe(5, o)", "else:", "    probe(6, o)"]),
    ("flag-exhaustive", "FL§", ["FL§.R", "FL§.G", "FL§.R | FL§.G"],
     ["if o is FL§.R:", "    probe(1, o)", "elif o is FL§.G:", "    probe(2, o)", "else:", "    assert_never(o)"]),
    ("protocol-method", "P", ["PI()", "PS()"], ["probe(1, o.pm())", "probe(2, o)"]),
    ("protocol-attr", "PA§", ["PAI§()"], ["probe(1, o.n)", "probe(2, o.q)"]),
    ("protocol-narrow", "Union[P, int]", ["PI()", "PS()", "0"], ["if isinstance(o, int):", "    probe(1, o)", "else:", "    probe(2, o.pm())"]),
    ("protocol-isinstance-nonruntime", "object", ["PI()", "0"], ["if isinstance(o, P):", "    probe(1, o)"]),
    ("protocol-assign", "PI", ["PI()"], ["q: P = o", "probe(1, q)", "probe(2, q.pm())"]),
    ("protocol-assign-bad", "A", ["A()"], ["q: P = o", "probe(1, q.pm())"]),
    ("protocol-callable", "Callable[[int], int]", ["inc", "CallMe()"], ["probe(1, o(1))", "probe(2, o)"]),
    ("hierarchy-list", "int", ["0"], ["for h in mk_h§():", "    probe(1, h)", "    probe(2, h.m())", "    probe(3, h.p)"]),
]:
    _f5(_lab, _ann, _vals, _body)


# multiple inheritance: a member defined incompatibly on the two sides, at every combination of depths (direct base /
# grandparent) on each side, for a method, an attribute and a property; used through a reference typed at the second side
F5_MI: list[tuple[str, str, list[str], list[str], list[str]]] = []
for _ka, _ma, _mb, _use in [
    ("method", "    def f(self) -> int:\n        return 0", "    def f(self) -> str:\n        return ''", "o.f()"),
    ("attribute", "    v: int = 0", "    v: str = ''", "o.v"),
    ("property", "    @property\n    def q(self) -> int:\n        return 0",
     "    @property\n    def q(self) -> str:\n        return ''", "o.q"),
]:
    for _da in (0, 1, 2):
        for _db in (0, 1, 2):
            _pre = [f"class MA0§:\n{_ma}", "class MA1§(MA0§):\n    pass", "class MA2§(MA1§):\n    pass",
                    f"class MB0§:\n{_mb}", "class MB1§(MB0§):\n    pass", "class MB2§(MB1§):\n    pass",
                    f"class MC§(MA{_da}§, MB{_db}§):\n    pass", ""]
            F5_MI.append((f"mi-{_ka}-depth{_da}x{_db}", "MB0§", ["MC§()"], [f"probe(1, {_use})"],
                          "\n".join(_pre).split("\n")))


def gen_f5() -> list[dict]:
    """F5: one module-level copy of the class zoo per function (suffix §), receiver `o`."""
    out = []
    for label, ann, vals, body, extra in F5_MI:
        pre = extra + [f"def rdom§() -> list[{ann}]:", f"    return [{', '.join(vals)}]", ""]
        out.append({"fam": "F5", "key": [label, ann.replace("§", "")], "params": [], "pre": pre, "body": body,
                    "ret": "None", "recv": (ann, vals)})
    for label, ann, vals, body in F5_CASES:
        pre = F5_PRE.split("\n") + [f"def rdom§() -> list[{ann}]:", f"    return [{', '.join(vals)}]", ""]
        out.append({"fam": "F5", "key": [label, ann.replace("§", "")], "params": [], "pre": pre, "body": body,
                    "ret": "None", "recv": (ann, vals)})
    return out


FAMILIES: dict[str, Any] = {
    "F1": lambda: gen_f1("single"),
    "F1full": lambda: gen_f1("single", prune=False),
    "F1p": lambda: gen_f1("pairs"),
    "F2": gen_f2,
    "F4": gen_f4,
    "F3": gen_f3,
    "F6": gen_f6,
    "F5": gen_f5,
}
