"""C20 placement lane: context-sensitive statements placed exhaustively in every kind of suite.

Corpus mutations (mc.c20_mutate) move whole statements around inside the scopes the authors already chose; they
almost never put `break` into a loop's `else:`, `yield` into a class body or a `TypeVar` definition into an
`except*` handler.  This generator does exactly that, completely, for a stated finite alphabet:

    programs = PRELUDE + C1[ C2[ S ] ]      with 0, 1 or 2 enclosing contexts

  S   every statement of STATEMENTS (control flow, scope declarations, special forms, definitions that mypy's
      semantic analyzer treats specially, a few two-statement bodies), and every expression of EXPRESSIONS as an
      expression statement;
  C   every statement context of CONTEXTS (module level is "no context"); the innermost context may also be one
      of EXPR_CONTEXTS (lambda, comprehension element / condition, generator expression, default value,
      annotation, f-string), which take the expressions of EXPRESSIONS only.

Nothing is sampled: `programs()` yields the whole product.  Whether CPython itself accepts a program
(`compile()`) is recorded for the coverage report only - the oracle is the same as for every other C20 input
(diagnostics, never an internal failure).
"""

from __future__ import annotations

from typing import Callable, Iterator

PRELUDE = "from typing import ClassVar, Final, NamedTuple, NewType, TypedDict, TypeVar, overload\nx = [1]"
SCAN_EXTRA = "import os\nimport typing\n"  # stdlib modules the statements below import (for the cache warm-up)

# --------------------------------------------------------------------------- S

STATEMENTS: list[tuple[str, list[str]]] = [
    ("break", ["break"]),
    ("continue", ["continue"]),
    ("return", ["return"]),
    ("return-value", ["return 1"]),
    ("nonlocal", ["nonlocal x"]),
    ("global", ["global x"]),
    ("del", ["del x"]),
    ("raise", ["raise"]),
    ("raise-from", ["raise x from x"]),
    ("star-assign", ["*a, = x"]),
    ("bare-annotation", ["x: int"]),
    ("import-star", ["from os import *"]),
    ("future-import", ["from __future__ import annotations"]),
    ("import-as-x", ["import os as x"]),
    ("assert", ["assert x"]),
    ("type-alias-stmt", ["type T = int"]),
    ("assign-yield", ["y = yield"]),
    ("assign-await", ["y = await x"]),
    ("dunder-all", ["__all__ = ['x']"]),
    ("dunder-slots", ["__slots__ = ('a',)"]),
    ("classvar", ["c: ClassVar[int] = 1"]),
    ("final", ["f: Final = 1"]),
    ("typevar", ["T = TypeVar('T')"]),
    ("namedtuple-call", ["N = NamedTuple('N', [('a', int)])"]),
    ("typeddict-call", ["D = TypedDict('D', {'a': int})"]),
    ("newtype", ["NT = NewType('NT', int)"]),
    ("alias", ["A = list[int]"]),
    ("self-attr", ["self.a = 1"]),
    ("overloads", ["@overload", "def o(a: int) -> int: ...", "@overload", "def o(a: str) -> str: ...", "def o(a): return a"]),
    ("property-def", ["@property", "def p(self): return 1"]),
    ("classmethod-def", ["@classmethod", "def q(cls): return cls"]),
    ("break-then-code", ["break", "y = 1"]),
    ("return-then-code", ["return", "y = 1"]),
    ("raise-then-code", ["raise", "y = 1"]),
]

EXPRESSIONS: list[tuple[str, str]] = [
    ("yield", "yield"),
    ("yield-value", "yield 1"),
    ("yield-from", "yield from x"),
    ("await", "await x"),
    ("walrus", "y := 1"),
    ("async-comprehension", "[k async for k in x]"),
    ("super", "super().f()"),
    ("dunder-class", "__class__"),
]

# --------------------------------------------------------------------------- C


def _ind(lines: list[str]) -> list[str]:
    return ["    " + ln for ln in lines]


def _ctx(head: list[str], tail: list[str] | None = None, depth: int = 1) -> Callable[[list[str]], list[str]]:
    def wrap(body: list[str]) -> list[str]:
        b = body
        for _ in range(depth):
            b = _ind(b)
        return head + b + (tail or [])

    return wrap


CONTEXTS: list[tuple[str, Callable[[list[str]], list[str]]]] = [
    ("def", _ctx(["def f(a):"])),
    ("async-def", _ctx(["async def f(a):"])),
    ("class", _ctx(["class C:"])),
    ("for-body", _ctx(["for i in x:"])),
    ("for-else", _ctx(["for i in x:", "    pass", "else:"])),
    ("while-body", _ctx(["while x:"])),
    ("while-else", _ctx(["while x:", "    pass", "else:"])),
    ("while-true-body", _ctx(["while True:"])),
    ("try-body", _ctx(["try:"], ["except Exception:", "    pass"])),
    ("except", _ctx(["try:", "    pass", "except Exception as e:"])),
    ("except-star", _ctx(["try:", "    pass", "except* Exception as e:"])),
    ("try-else", _ctx(["try:", "    pass", "except Exception:", "    pass", "else:"])),
    ("finally", _ctx(["try:", "    pass", "finally:"])),
    ("with-body", _ctx(["with open('f') as w:"])),
    ("async-for-body", _ctx(["async for i in x:"])),
    ("async-with-body", _ctx(["async with x as w:"])),
    ("if-body", _ctx(["if x:"])),
    ("if-else", _ctx(["if x:", "    pass", "else:"])),
    ("if-false-body", _ctx(["if False:"])),
    ("match-case", _ctx(["match x:", "    case [1]:"], depth=2)),
]

EXPR_CONTEXTS: list[tuple[str, Callable[[str], list[str]]]] = [
    ("lambda", lambda e: [f"g = lambda: ({e})"]),
    ("listcomp-element", lambda e: [f"g = [({e}) for j in x]"]),
    ("listcomp-condition", lambda e: [f"g = [j for j in x if ({e})]"]),
    ("genexp", lambda e: [f"g = (({e}) for j in x)"]),
    ("default-value", lambda e: [f"def h(a=({e})): pass"]),
    ("annotation", lambda e: [f"def h(a: ({e})) -> None: pass"]),
    ("f-string", lambda e: [f"g = f'{{({e})}}'"]),
]


def leaves() -> Iterator[tuple[str, list[str], int]]:
    """(description, lines, contexts used) of everything that can sit in the innermost position."""
    for name, lines in STATEMENTS:
        yield name, lines, 0
    for name, e in EXPRESSIONS:
        yield name, [f"({e})"], 0
    for cname, wrap in EXPR_CONTEXTS:
        for name, e in EXPRESSIONS:
            yield f"{cname}[{name}]", wrap(e), 1


def programs(max_contexts: int = 2) -> Iterator[tuple[str, str, int]]:
    """(group, description, program text, ...) for every placement with at most `max_contexts` contexts.
    Yields (description, text, number of contexts); simplest first."""
    lv = list(leaves())

    def emit(desc: str, lines: list[str], n: int) -> tuple[str, str, int]:
        return desc, PRELUDE + "\n" + "\n".join(lines), n

    for desc, lines, n in lv:
        if n == 0:
            yield emit(f"module[{desc}]", lines, 0)
    for desc, lines, n in lv:
        if n == 1 and max_contexts >= 1:
            yield emit(f"module[{desc}]", lines, 1)
    if max_contexts >= 1:
        for c1, w1 in CONTEXTS:
            for desc, lines, n in lv:
                if n == 0:
                    yield emit(f"{c1}[{desc}]", w1(lines), 1)
    if max_contexts >= 2:
        for c1, w1 in CONTEXTS:
            for desc, lines, n in lv:
                if n == 1:
                    yield emit(f"{c1}[{desc}]", w1(lines), 2)
            for c2, w2 in CONTEXTS:
                for desc, lines, n in lv:
                    if n == 0:
                        yield emit(f"{c1}[{c2}[{desc}]]", w1(w2(lines)), 2)


def cpython_accepts(text: str) -> bool:
    try:
        compile(text + "\n", "main.py", "exec", dont_inherit=True)
        return True
    except (SyntaxError, ValueError):
        return False
    except Exception:  # CPython 3.12's own compiler dies with SystemError on a few of these (e.g. __class__ in a class annotation)
        return False


def grouped(max_contexts: int = 2, group_size: int = 160) -> list[tuple[str, list[tuple[int, str, str]]]]:
    """[(group name, [(kind 9, description, text)])]: consecutive chunks of the enumeration (one work item each)."""
    out: list[tuple[str, list[tuple[int, str, str]]]] = []
    cur: list[tuple[int, str, str]] = []
    for desc, text, _n in programs(max_contexts):
        cur.append((9, "place " + desc, text))
        if len(cur) >= group_size:
            out.append((f"{len(out):04d}", cur))
            cur = []
    if cur:
        out.append((f"{len(out):04d}", cur))
    return out
