"""C13 lanes: how one corpus program is run on the REAL mypy.

fast lane  = `mypy.build.build` exactly as mypy/test/testcheck.py drives it (fixture stubs, program text
             passed as BuildSource text, options from `# flags:` through `mypy.main.process_options`), except
             that error codes are always shown;
CLI lane   = `mypy.main.main` in-process (mc.drivers.cli_inproc with fixtures=True) for the exit status.

Observation only (no behaviour change): the BuildManager of the run is captured to read
`manager.errors` (error_info_map, ignored_lines, used_ignored_lines, skipped_lines), and
`Errors.add_error_info` is wrapped to remember the ErrorInfos that an *existing* `# type: ignore`
comment swallowed and the `only_once` duplicates that were dropped, because the baseline
error_info_map alone cannot tell which legitimate second-order effects a perturbation may have.
"""

from __future__ import annotations

import os
import re
import shutil
import sys
from typing import Any

from mc import corpus

PLUGIN_DIR = os.path.join(corpus.REPO, "test-data", "unit", "plugins")

# flags whose presence makes a corpus case unusable as an input program for this check
SKIP_FLAG_PREFIXES = (
    "--num-workers", "-n", "--junit", "--cache-dir", "--shadow-file", "--custom-typing-module", "--package-root",
    "--pretty", "--output", "--soft-error-limit", "--bazel", "--incremental", "--cache-fine-grained", "--sqlite-cache",
    "--install-types", "--non-interactive", "--pdb", "--raise-exceptions", "--find-occurrences", "--verbose", "-v",
    "--show-absolute-path", "--skip-cache-mtime-checks", "--export-ref-info", "--timing-stats", "--line-checking-stats",
    "--dump", "--stats", "--inferstats", "--scripts-are-modules", "-m", "-p", "-c", "--python-executable",
    "--disable-expression-cache",
    "--show-error-code-links",  # adds only_once notes through a path that bypasses add_error_info (second-order by design)
)


def flag_reason(flags: list[str]) -> str | None:
    for t in flags:
        if t.endswith("-report") or "-report=" in t:
            return "report flag"
        for p in SKIP_FLAG_PREFIXES:
            if t == p or t.startswith(p + "="):
                return p
    return None


# --------------------------------------------------------------------------- program = picklable dict


_EXPECT = re.compile(r"#\s*[ENW]:(\d+:)?\s")


def strip_expectations(src: str) -> str:
    """The corpus writes expected diagnostics as trailing `# E: ...` comments on the error lines.  They are
    comments, not program: remove them (found with the tokenizer, so a '#' inside a string is never touched;
    lines are never removed, so line numbers stay) to get the input program whose error lines can be annotated."""
    import io
    import tokenize

    try:
        toks = list(tokenize.generate_tokens(io.StringIO(src).readline))
    except (tokenize.TokenError, IndentationError, SyntaxError):
        return src
    lines = src.split("\n")
    for t in toks:
        if t.type != tokenize.COMMENT:
            continue
        text = t.string
        for p in range(len(text)):
            if text[p] == "#" and (p == 0 or text[p - 1] == " ") and _EXPECT.match(text[p:] + " "):
                row, col = t.start
                lines[row - 1] = lines[row - 1][: col + p].rstrip()
                break
    return "\n".join(lines)


def program_of(c: corpus.Case) -> dict[str, Any]:
    files = {rel: text for rel, text in c.files.items()}
    for attr, target in (("builtins", "builtins.pyi"), ("typing", "typing.pyi"), ("typeshed", "_typeshed.pyi")):
        fx = getattr(c, attr)
        if fx:
            with open(os.path.join(corpus.UNIT, fx), encoding="utf-8") as fh:
                files[target] = fh.read()
    return {"id": c.id, "file": c.file, "name": c.name, "main": strip_expectations(c.main), "files": files, "flags": list(c.flags)}


def materialize(prog: dict[str, Any], root: str) -> None:
    """cwd layout of mypy.test.data.DataDrivenTestCase.setup: ./tmp/<extra files>, ./main."""
    if os.path.isdir(root):
        shutil.rmtree(root)
    os.makedirs(os.path.join(root, "tmp"))
    for rel, text in prog["files"].items():
        p = os.path.join(root, "tmp", rel)
        os.makedirs(os.path.dirname(p), exist_ok=True)
        with open(p, "w", encoding="utf8") as f:
            f.write(text)


# --------------------------------------------------------------------------- options (testcheck.run_case_once)


def testfile_pyversion(file: str) -> tuple[int, int]:
    """mypy.test.helpers.testfile_pyversion (not imported: that module needs pytest's plugin machinery)."""
    from mypy import defaults

    m = re.search(r"python3([0-9]+)\.test$", file)
    if m:
        return max((3, int(m.group(1))), defaults.PYTHON3_VERSION_MIN)
    return defaults.PYTHON3_VERSION_MIN



def make_options(prog: dict[str, Any], extra_flags: list[str]) -> Any:
    from mypy.main import process_options
    from mypy.options import Options

    flag_list = list(prog["flags"]) + list(extra_flags)
    if flag_list:
        flag_list.append("--no-site-packages")
        targets, options = process_options(flag_list, require_targets=False)
        if targets:
            raise RuntimeError("targets in flags")
    else:
        options = Options()
        options.error_summary = False
    options.hide_error_codes = False  # C13 reads the codes (testcheck hides them unless asked)
    if all(f.split("=")[0] != "--python-version" for f in flag_list):
        options.python_version = testfile_pyversion(prog["file"])
    options.use_builtins_fixtures = True
    options.show_traceback = True
    options.native_parser = False
    options.reveal_verbose_types = not prog["name"].endswith("_no_verbose_reveal")
    if "columns" in prog["file"]:
        options.show_column_numbers = True
    if "abstract" not in prog["file"]:
        options.allow_empty_bodies = not prog["name"].endswith("_no_empty")
    options.incremental = False
    options.cache_dir = os.devnull
    return options


# --------------------------------------------------------------------------- observation shim

_CAP: dict[str, Any] = {}
_installed = False


def install_shim() -> None:
    global _installed
    if _installed:
        return
    _installed = True
    import mypy.build as mb
    from mypy.errors import Errors

    orig_init = mb.BuildManager.__init__

    def init(self: Any, *a: Any, **k: Any) -> None:
        orig_init(self, *a, **k)
        _CAP["manager"] = self
        _CAP["errors"] = self.errors

    mb.BuildManager.__init__ = init  # type: ignore[method-assign]

    # NB: looked up dynamically so that a throw-away driver may replace Errors.add_error_info first
    orig_add = Errors.add_error_info

    def add_error_info(self: Any, info: Any, *, file: str | None = None) -> None:
        if self is not _CAP.get("errors"):
            return orig_add(self, info, file=file)
        f = file or self.file
        if not isinstance(info.origin_span, (list, tuple, range)):
            # MessageBuilder passes a one-shot itertools.chain; keep it readable after mypy iterated it
            info.origin_span = list(info.origin_span)
        used = self.used_ignored_lines[f]
        before = {ln: len(v) for ln, v in used.items()}
        n_rep = len(self.error_info_map.get(f, ()))
        was_once_dup = bool(info.only_once and info.message in self.only_once_messages)
        orig_add(self, info, file=file)
        claimed = [ln for ln, v in used.items() if len(v) > before.get(ln, 0)]
        if claimed:
            info._c13_claimed_by = claimed[0]
            _CAP["swallowed"].append((f, info))
        elif was_once_dup and len(self.error_info_map.get(f, ())) == n_rep:
            _CAP["once_dropped"].append((f, info))

    Errors.add_error_info = add_error_info  # type: ignore[method-assign]

    orig_set_file = Errors.set_file

    def set_file(self: Any, file: str, module: Any, options: Any, scope: Any = None) -> None:
        if self is _CAP.get("errors"):
            _CAP["file_options"][file] = options
        orig_set_file(self, file, module, options, scope)

    Errors.set_file = set_file  # type: ignore[method-assign]


class OptionsRejected(Exception):
    """process_options refused the flag list (usage error)."""


class MypyCrash(Exception):
    """The build ended with SystemExit (INTERNAL ERROR path): the run produced no verdict to judge."""


def build_once(prog: dict[str, Any], main_text: str, extra_flags: list[str]) -> dict[str, Any]:
    """One real build in the current cwd (already materialized).  Returns messages + captured state."""
    from mypy import build as mb
    from mypy.errors import CompileError
    from mypy.modulefinder import BuildSource

    install_shim()
    _CAP.clear()
    _CAP["swallowed"] = []
    _CAP["once_dropped"] = []
    _CAP["file_options"] = {}
    import contextlib
    import io

    sink_out, sink_err = io.StringIO(), io.StringIO()
    try:
        with contextlib.redirect_stdout(sink_out), contextlib.redirect_stderr(sink_err):
            options = make_options(prog, extra_flags)
    except SystemExit as e:
        raise OptionsRejected(f"SystemExit({e.code}): {sink_err.getvalue()[-300:]}") from None
    with open("main", "w", encoding="utf8") as f:
        f.write(main_text)
    sources = [BuildSource("main", "__main__", main_text)]
    sys.path.insert(0, PLUGIN_DIR)
    blocker = False
    try:
        with contextlib.redirect_stdout(sink_out), contextlib.redirect_stderr(sink_err):
            res = mb.build(sources=sources, options=options, alt_lib_path="tmp")
        msgs = res.errors
    except CompileError as e:
        msgs = e.messages
        blocker = True
    except SystemExit as e:
        raise MypyCrash(f"SystemExit({e.code}): {sink_err.getvalue()[-400:]}") from None
    finally:
        if sys.path and sys.path[0] == PLUGIN_DIR:
            del sys.path[0]
    return {
        "messages": list(msgs),
        "blocker": blocker,
        "errors": _CAP.get("errors"),
        "options": options,
        "swallowed": list(_CAP["swallowed"]),
        "once_dropped": list(_CAP["once_dropped"]),
        "file_options": dict(_CAP["file_options"]),
    }


# --------------------------------------------------------------------------- CLI lane (exit status)

_ERR_LINE = re.compile(r"(^|: )error: ")


def cli_status(prog: dict[str, Any], main_text: str, extra_flags: list[str], json_mode: bool = False) -> dict[str, Any]:
    """`mypy.main.main` on ./tmp/main.py of the current cwd; observes whether build raised CompileError."""
    import mypy.build as mb
    from mypy.errors import CompileError

    from mc.drivers import cli_inproc

    with open(os.path.join("tmp", "main.py"), "w", encoding="utf8") as f:
        f.write(main_text)
    seen = {"compile_error": False, "called": False}
    orig = mb.build

    def build(*a: Any, **k: Any) -> Any:
        seen["called"] = True
        try:
            return orig(*a, **k)
        except CompileError:
            seen["compile_error"] = True
            raise

    mb.build = build  # type: ignore[assignment]
    args = list(prog["flags"]) + list(extra_flags) + ["--no-site-packages", "--no-incremental", "--cache-dir", os.devnull]
    if all(f.split("=")[0] != "--python-version" for f in args):
        pv = testfile_pyversion(prog["file"])
        args += ["--python-version", f"{pv[0]}.{pv[1]}"]
    args += ["--show-error-codes", "--no-error-summary"] + (["--output", "json"] if json_mode else []) + ["tmp/main.py"]
    cwd = os.getcwd()
    sys.path.insert(0, PLUGIN_DIR)
    import contextlib
    import io

    stray_out, stray_err = io.StringIO(), io.StringIO()  # report_internal_error prints to the real streams
    try:
        with contextlib.redirect_stdout(stray_out), contextlib.redirect_stderr(stray_err):
            r = cli_inproc(args, cwd, fixtures=True)
    finally:
        mb.build = orig  # type: ignore[assignment]
        if sys.path and sys.path[0] == PLUGIN_DIR:
            del sys.path[0]
        try:
            os.remove(os.path.join("tmp", "main.py"))
        except OSError:
            pass
    lines = r["stdout"].splitlines() + r["stderr"].splitlines()
    n_err = 0
    for ln in lines:
        if json_mode and ln.startswith("{"):
            import json

            try:
                n_err += json.loads(ln).get("severity") == "error"
                continue
            except ValueError:
                pass
        n_err += bool(_ERR_LINE.search(ln))
    everything = r["stderr"] + r["stdout"] + stray_out.getvalue() + stray_err.getvalue()
    crashed = "Traceback (most recent call last)" in everything or "INTERNAL ERROR" in everything
    usage = r["stderr"].startswith("usage: mypy") or not seen["called"]  # main() refused the command line: no analysis
    return {"status": r["status"], "n_error_lines": n_err, "blocker": seen["compile_error"], "crashed": crashed, "usage_error": usage,
            "lines": lines, "args": args}
