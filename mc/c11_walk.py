"""C11 helper: attribute-wise structural dump of symbol tables (oracle iii) and its diff.

The dump is GENERIC: for every object reachable from a module's symbol table it lists every
attribute found in the `__slots__` of the object's class and bases (or `__dict__`), except the ones in
the explicit SKIP table below.  A field added to a node/type class tomorrow is therefore compared
automatically; a field that is deliberately not persisted must be listed here with its reason.

Nothing here re-implements mypy: values are read off the real objects, references to other
definitions are written as (class name, full name).
"""

from __future__ import annotations

import enum
from typing import Any

# --------------------------------------------------------------------------- skip list
# class name (looked up along the MRO) -> {attribute: why it is legitimately absent after a cache load}

_AST = "syntax tree of the defining module; only used while that module itself is analysed/checked"
_STATE = "per-run analysis state of the defining module (never read through an import)"
_CACHE = "lazily computed cache / derived value, recomputed on demand"
_TRANSPORT = "transport field of the (de)serializer itself, cleared by fixup"
_POS = ("source positions are deliberately not persisted (deserialized nodes get line -1); importing code "
        "only uses them to attach 'defined here' notes")

SKIP: dict[str, dict[str, str]] = {
    "Context": {"line": _POS, "column": _POS, "end_line": _POS, "end_column": _POS},
    "MypyFile": {
        "defs": _AST, "imports": _AST, "raw_data": _AST, "is_bom": _AST, "ignored_lines": _STATE,
        "skipped_lines": _STATE, "alias_deps": _STATE, "plugin_deps": _STATE, "module_refs": _STATE,
        "uses_template_strings": _STATE, "_is_typeshed_file": _CACHE,
        "is_cache_skeleton": "True exactly for trees loaded from cache (marks the very difference under test)",
    },
    "SymbolTableNode": {
        "_node": "compared through the public .node property (which performs the lazy fixup)",
        "_node_bytes": _TRANSPORT, "_node_tag": _TRANSPORT, "cross_ref": _TRANSPORT, "unfixed": _TRANSPORT,
        "stored_info": _TRANSPORT,
        "no_serialize": "entries with no_serialize are filtered out of the comparison on the fresh side: "
                        "that is the documented meaning of the flag",
    },
    "FuncBase": {
        "unanalyzed_type": _AST,
        "is_explicit_override": "consumed by the checker only on the overriding definition in its own module",
        "is_type_check_only": "read only by mypy/stubtest.py, which builds with incremental=False",
        "def_or_infer_vars": _STATE,
    },
    "FuncItem": {
        "arguments": "deliberately not stored (FuncDef.serialize comment): arg_names/arg_kinds are stored instead; "
                     "the attribute is deleted on load so that any use fails loudly",
        "min_args": "deleted on load together with `arguments` (see FuncDef.deserialize)",
        "max_pos": "deleted on load together with `arguments` (see FuncDef.deserialize)",
        "type_args": _AST, "body": _AST, "expanded": _STATE,
    },
    "FuncDef": {
        "original_def": _STATE, "is_invalid_redefinition": _STATE,
        "docstring": "only filled with options.include_docstrings (stubgen), never read through an import",
    },
    "OverloadedFuncDef": {"unanalyzed_items": _AST, "_is_trivial_self": _CACHE},
    "Decorator": {"decorators": _AST, "original_decorators": _AST},
    "ClassDef": {
        "defs": _AST, "type_args": _AST, "base_type_exprs": _AST, "removed_base_type_exprs": _AST,
        "metaclass": _AST, "decorators": _AST, "keywords": _AST, "analyzed": _AST,
        "has_incompatible_baseclass": _STATE, "docstring": _AST, "removed_statements": _AST,
        "info": "back pointer to the owning TypeInfo (the walk arrives from there)",
    },
    "TypeVarLikeExpr": {
        "default_depends": _STATE,
        "is_new_style": "PEP 695 type parameters live in the scope of their class/function/alias, not in a "
                        "module or class symbol table entry that other modules can bind again",
    },
    "TypeInfo": {
        "_mro_refs": _TRANSPORT, "assuming": _STATE, "assuming_proper": _STATE, "inferring": _STATE,
        "type_object_type": _CACHE, "typeddict_data": _STATE, "default_depends": _STATE,
        "bad_mro": "set together with a blocking-free error in the defining module; MRO itself is compared",
        "is_type_check_only": "read only by mypy/stubtest.py, which builds with incremental=False",
        "special_alias": "derived from tuple_type/typeddict_type by update_tuple_type/update_typeddict_type in fixup; "
                         "the walk compares its presence and target separately",
    },
    "TypeAlias": {"_is_recursive": _CACHE, "default_depends": _STATE},
    "Type": {
        "_can_be_true": "compared as the effective can_be_true property value instead of the raw cache slot",
        "_can_be_false": "compared as the effective can_be_false property value instead of the raw cache slot",
    },
    "Instance": {"type_ref": _TRANSPORT, "_hash": _CACHE,
                 "invalid": "set only on error placeholders while analysing the defining module"},
    "TypeAliasType": {"type_ref": _TRANSPORT},
    "LiteralType": {"_hash": _CACHE},
    "CallableType": {
        "definition": "explicitly not serialized (CallableType.serialize comment: only used for error messages); "
                      "re-linked by fixup — the walk compares the full name of the definition it points to "
                      "(a Decorator is unwrapped to its FuncDef like nodes.get_func_def does)",
    },
    "Parameters": {"min_args": _CACHE},
    "TypedDictType": {"extra_items_from": _STATE, "to_be_mutated": _STATE},
}

# dict-valued attributes whose insertion ORDER is part of the value (everything else is compared as a mapping:
# JSON objects such as TypeInfo.metadata are written with sorted keys by both formats)
ORDERED_DICTS = {("TypedDictType", "items")}  # item order is shown in messages and used positionally

# (owner class along MRO, attribute) pairs whose value is OWNED (dumped recursively); every other
# SymbolNode-valued attribute is a reference and is dumped as (class, fullname).
OWNING = {("Decorator", "func"), ("Decorator", "var"), ("OverloadedFuncDef", "items"),
          ("OverloadedFuncDef", "impl"), ("TypeInfo", "defn")}


def skip_table() -> list[dict[str, str]]:
    return [{"class": c, "field": f, "why": w} for c, d in sorted(SKIP.items()) for f, w in sorted(d.items())]


# --------------------------------------------------------------------------- generic dump

_slots_cache: dict[type, list[str]] = {}
_skip_cache: dict[type, frozenset[str]] = {}
_owning_cache: dict[type, frozenset[str]] = {}


def all_slots(cls: type) -> list[str]:
    r = _slots_cache.get(cls)
    if r is None:
        r = []
        for k in reversed(cls.__mro__):
            s = k.__dict__.get("__slots__", ())
            if isinstance(s, str):
                s = (s,)
            for x in s:
                if x not in r and x != "__dict__":
                    r.append(x)
        _slots_cache[cls] = r
    return r


def _skipped(cls: type) -> frozenset[str]:
    r = _skip_cache.get(cls)
    if r is None:
        s: set[str] = set()
        for k in cls.__mro__:
            s.update(SKIP.get(k.__name__, ()))
        r = _skip_cache[cls] = frozenset(s)
    return r


def _owned(cls: type) -> frozenset[str]:
    r = _owning_cache.get(cls)
    if r is None:
        names = {k.__name__ for k in cls.__mro__}
        r = _owning_cache[cls] = frozenset(f for c, f in OWNING if c in names)
    return r


class Dumper:
    """One dumper per process; counts what it saw."""

    def __init__(self) -> None:
        import mypy.nodes as N
        import mypy.types as T

        self.N, self.T = N, T
        self.counts: dict[str, int] = {}
        self.opaque: dict[str, int] = {}

    # -- references
    def ref(self, x: Any) -> Any:
        N = self.N
        if isinstance(x, N.FakeInfo):
            return ("ref", "FakeInfo", object.__getattribute__(x, "msg")[:40])
        try:
            fn = x.fullname
        except Exception as e:  # noqa: BLE001
            fn = f"<{type(e).__name__}>"
        return ("ref", type(x).__name__, fn)

    def value(self, v: Any, owner: type | None = None, field: str = "") -> Any:
        N, T = self.N, self.T
        if v is None or isinstance(v, (bool, int, str, bytes)):
            return v
        if isinstance(v, float):
            return ("float", repr(v))
        if isinstance(v, complex):
            return ("complex", repr(v))
        if isinstance(v, enum.Enum):
            return ("enum", type(v).__name__, v.name)
        if isinstance(v, N.SymbolTable):
            return self.table(v, None)
        if isinstance(v, (list, tuple)) and not hasattr(v, "_fields"):
            return ("L", [self.value(x, owner, field) for x in v])
        if isinstance(v, tuple):  # namedtuple (SentinelValue, ...)
            return (type(v).__name__, [(f, self.value(getattr(v, f))) for f in v._fields])
        if isinstance(v, (set, frozenset)):
            return ("S", sorted((self.value(x) for x in v), key=repr))
        if isinstance(v, dict):
            items = [(self.value(k), self.value(x, owner, field)) for k, x in v.items()]
            if not (owner is not None and (owner.__name__, field) in ORDERED_DICTS):
                items.sort(key=lambda kv: repr(kv[0]))
            return ("D", items)
        if isinstance(v, (N.SymbolNode,)):
            if owner is not None and field in _owned(owner):
                return self.obj(v)
            return self.ref(v)
        if isinstance(v, (T.Type, T.ExtraAttrs, T.TypeVarId, N.DataclassTransformSpec, N.ClassDef, N.SymbolTableNode)):
            return self.obj(v)
        name = type(v).__name__
        self.opaque[name] = self.opaque.get(name, 0) + 1
        return ("opaque", name)

    def obj(self, o: Any) -> Any:
        N, T = self.N, self.T
        cls = type(o)
        cname = cls.__name__
        self.counts[cname] = self.counts.get(cname, 0) + 1
        if isinstance(o, N.FakeInfo):
            return self.ref(o)
        fields: list[tuple[str, Any]] = []
        if isinstance(o, N.TypeInfo):
            return self.type_info(o)
        skipped = _skipped(cls)
        names = all_slots(cls)
        d = getattr(o, "__dict__", None)
        if d:
            names = names + [k for k in d if k not in names]
        for f in names:
            if f in skipped:
                continue
            try:
                v = getattr(o, f)
            except AttributeError:
                fields.append((f, ("unset",)))
                continue
            if f == "type" and isinstance(o, T.Instance):
                fields.append((f, self.ref(v)))
                continue
            fields.append((f, self.value(v, cls, f)))
        if isinstance(o, T.Type):
            raw = (o._can_be_true, o._can_be_false)
            for prop in ("can_be_true", "can_be_false"):
                try:
                    fields.append((prop, bool(getattr(o, prop))))
                except Exception as e:  # noqa: BLE001
                    fields.append((prop, f"<{type(e).__name__}>"))
            o._can_be_true, o._can_be_false = raw  # leave the lazy cache slots as we found them
            if isinstance(o, T.CallableType):
                dfn = o.definition
                if isinstance(dfn, N.Decorator):
                    dfn = dfn.func  # every consumer unwraps (nodes.get_func_def, checker.warn_deprecated)
                fields.append(("definition", None if dfn is None else ("def", dfn.fullname)))
        return (cname, fields)

    def type_info(self, ti: Any) -> Any:
        cls = type(ti)
        skipped = _skipped(cls)
        fields: list[tuple[str, Any]] = []
        for f in all_slots(cls):
            if f in skipped:
                continue
            try:
                v = getattr(ti, f)
            except AttributeError:
                fields.append((f, ("unset",)))
                continue
            if f == "names":
                fields.append((f, self.table(v, ti.fullname)))
            elif f == "mro":
                fields.append((f, ("L", [self.ref(c) for c in v])))
            elif f == "_promote":
                # Backward promotions (int -> native int) belong to the module defining the native int class: semanal
                # appends them to builtins.int when that class is analysed and fixup re-creates them from the class's
                # alt_promote on load ("Hack" in NodeFixer.visit_type_info), in load order.  Compare the rest, as a set.
                own = [p for p in v if not (isinstance(p, self.T.Instance) and not isinstance(p.type, self.N.FakeInfo)
                                            and p.type.alt_promote is not None and p.type.alt_promote.type is ti)]
                fields.append((f, ("S", sorted((self.value(x) for x in own), key=repr))))
            else:
                fields.append((f, self.value(v, cls, f)))
        sa = ti.special_alias
        fields.append(("special_alias", None if sa is None else
                       ("TypeAlias", [("fullname", sa.fullname), ("target", self.value(sa.target)),
                                      ("alias_tvars", self.value(sa.alias_tvars)), ("no_args", sa.no_args),
                                      ("tvar_tuple_index", sa.tvar_tuple_index)])))
        return ("TypeInfo", fields)

    def table(self, st: Any, prefix: str | None) -> Any:
        """Symbol table as ordered list of (name, symbol dump); mirrors the serializer's own filter
        (`__builtins__` and no_serialize entries are not part of the persisted interface)."""
        N = self.N
        out = []
        for key in sorted(st):
            sym = st[key]
            if key == "__builtins__" or sym.no_serialize:
                continue
            out.append((key, self.symbol(sym, prefix, key)))
        return ("SymbolTable", out)

    def symbol(self, sym: Any, prefix: str | None, name: str) -> Any:
        N = self.N
        self.counts["SymbolTableNode"] = self.counts.get("SymbolTableNode", 0) + 1
        cls = type(sym)
        fields: list[tuple[str, Any]] = []
        skipped = _skipped(cls)
        for f in all_slots(cls):
            if f in skipped:
                continue
            fields.append((f, self.value(getattr(sym, f))))
        node = sym.node
        if node is None:
            fields.append(("node", None))
        elif isinstance(node, N.MypyFile):
            fields.append(("node", ("modref", node.fullname)))
        else:
            fn = node.fullname
            # the serializer's own ownership rule (SymbolTableNode.serialize): an entry whose node lives
            # elsewhere is a cross reference by full name
            if (prefix is not None and "." in fn and fn != prefix + "." + name
                    and not (isinstance(node, N.Var) and node.from_module_getattr)):
                fields.append(("node", ("xref", type(node).__name__, fn)))
            else:
                fields.append(("node", self.obj(node)))
        return ("SymbolTableNode", fields)

    def module(self, tree: Any) -> Any:
        cls = type(tree)
        skipped = _skipped(cls)
        fields: list[tuple[str, Any]] = []
        for f in all_slots(cls):
            if f in skipped:
                continue
            v = getattr(tree, f)
            if f == "names":
                fields.append((f, self.table(v, tree.fullname)))
            else:
                fields.append((f, self.value(v, cls, f)))
        return ("MypyFile", fields)


# --------------------------------------------------------------------------- diff


def _is_obj(x: Any) -> bool:
    return isinstance(x, tuple) and len(x) == 2 and isinstance(x[0], str) and isinstance(x[1], list)


def diff(a: Any, b: Any, path: tuple = (), out: list | None = None, limit: int = 40) -> list[tuple[tuple, Any, Any]]:
    """List of (path, fresh value, loaded value) for every differing leaf (first `limit`)."""
    if out is None:
        out = []
    if len(out) >= limit or a == b:
        return out
    if _is_obj(a) and _is_obj(b) and a[0] == b[0]:
        tag = a[0]
        if tag in ("L",):
            if len(a[1]) != len(b[1]):
                out.append((path + ("#len",), len(a[1]), len(b[1])))
                return out
            for i, (x, y) in enumerate(zip(a[1], b[1])):
                diff(x, y, path + (i,), out, limit)
            return out
        if tag == "S":
            out.append((path + ("#set",), a[1], b[1]))
            return out
        if tag in ("D", "SymbolTable"):
            ka, kb = [k for k, _ in a[1]], [k for k, _ in b[1]]
            if ka != kb:
                if sorted(map(repr, ka)) == sorted(map(repr, kb)):
                    out.append((path + ("#key-order",), ka, kb))
                else:
                    sa, sb = set(map(repr, ka)), set(map(repr, kb))
                    out.append((path + ("#keys",), sorted(sa - sb), sorted(sb - sa)))
                return out
            for (k, x), (_, y) in zip(a[1], b[1]):
                diff(x, y, path + (k if isinstance(k, str) else repr(k),), out, limit)
            return out
        # object: list of (field, value)
        fa, fb = dict(a[1]), dict(b[1])
        for f in fa:
            if f not in fb:
                out.append((path + (("f", f"{tag}.{f}"),), fa[f], ("missing",)))
            else:
                diff(fa[f], fb[f], path + (("f", f"{tag}.{f}"),), out, limit)
        for f in fb:
            if f not in fa:
                out.append((path + (("f", f"{tag}.{f}"),), ("missing",), fb[f]))
        return out
    out.append((path, a, b))
    return out


# Differences that are NOT a loss: (field, predicate(fresh, loaded), reason).  Counted, never hidden silently.
TOLERATED = [
    ("definition",
     lambda a, b: (a is None) != (b is None),
     "CallableType.serialize: 'We don't serialize the definition (only used for error messages)'; fixup re-links the "
     "definitions it can reach (functions, overload items, decorators: sometimes more than the fresh tree had) and "
     "leaves the others None; a definition re-linked to a DIFFERENT name is still reported"),
    ("info",
     lambda a, b: isinstance(a, tuple) and a[:2] == ("ref", "FakeInfo") and isinstance(b, tuple) and b[:2] == ("ref", "TypeInfo"),
     "fresh node has no `info` back pointer (FakeInfo) but the loaded one points to its enclosing class: "
     "nodes.set_info() derives it from the enclosing TypeInfo for every member on load; gaining it loses nothing"),
    ("info",
     lambda a, b: False,  # implemented in tolerated(): loaded info == enclosing class while fresh names another class
     "`info` is never stored and by design re-derived as the enclosing class; a fresh member whose info names a foreign "
     "class (plugins/attrs.py magic attributes) cannot be represented — loaded value is the enclosing class"),
]


def _enclosing_suffix(path: tuple) -> str:
    """Dotted names of the classes the path descends through (…/TypeInfo.names/<name>/…)."""
    names = []
    for i, p in enumerate(path[:-1]):
        if p in (("f", "TypeInfo.names"), ("f", "MypyFile.names")) and isinstance(path[i + 1], str):
            names.append((p[1], path[i + 1]))
    cls = [n for kind, n in names[:-1]]  # all but the member itself
    return ".".join(cls)


def tolerated(path: tuple, a: Any, b: Any) -> bool:
    if not path or not isinstance(path[-1], tuple):
        return False
    f = path[-1][1].split(".", 1)[1]
    if any(f == tf and pred(a, b) for tf, pred, _ in TOLERATED):
        return True
    if (f == "info" and isinstance(a, tuple) and isinstance(b, tuple) and a[:2] == ("ref", "TypeInfo")
            and b[:2] == ("ref", "TypeInfo")):
        # `info` is never stored: by design it is re-derived as the ENCLOSING class (nodes.set_info).  A fresh member
        # whose info names another class (plugins/attrs.py gives the Vars of its magic attributes class the info of
        # the attribute's own type) cannot be represented; the loaded value is the enclosing class, as designed.
        suf = _enclosing_suffix(path)
        return bool(suf) and (b[2] == suf or b[2].endswith("." + suf))
    return False


def field_of(path: tuple) -> str:
    """Cause-level identity of a difference: the innermost Class.field on the path (+ structural marker)."""
    last = "?"
    for p in path:
        if isinstance(p, tuple) and p and p[0] == "f":
            last = p[1]
    tail = path[-1] if path and isinstance(path[-1], str) and path[-1].startswith("#") else ""
    return last + tail


def brief(x: Any, n: int = 160) -> str:
    s = repr(x)
    return s if len(s) <= n else s[: n - 3] + "..."


def show_path(path: tuple) -> str:
    return "/".join(p[1] if isinstance(p, tuple) else str(p) for p in path)


def strip_backward_promotions(tree: Any) -> list[tuple[Any, list]]:
    """Temporarily remove the int -> native-int promotions that fixup re-creates on load (see Dumper.type_info);
    returns [(TypeInfo, original list)] for restoring."""
    import mypy.nodes as N
    import mypy.types as T

    saved: list[tuple[Any, list]] = []

    def visit(names: Any) -> None:
        for sym in names.values():
            node = sym._node
            if isinstance(node, N.TypeInfo) and not isinstance(node, N.FakeInfo) and node.module_name == tree.fullname:
                if sym.cross_ref is None:
                    own = [p for p in node._promote
                           if not (isinstance(p, T.Instance) and not isinstance(p.type, N.FakeInfo)
                                   and p.type.alt_promote is not None and p.type.alt_promote.type is node)]
                    if len(own) != len(node._promote):
                        saved.append((node, node._promote))
                        node._promote = own
                    visit(node.names)

    visit(tree.names)
    return saved
