"""C12 / calls: argument binding as decided by mypy == binding as performed by CPython.

Space (DESIGN section 4 / C12):
  signatures  every legal ordering of <= P parameters over the 8 kinds
              {pos-only, pos-only=default, pos-or-kw, pos-or-kw=default, *args, kw-only,
               kw-only=default, **kw}                      (P=3: 149, P=4: 427 signatures)
  call shapes every syntactically legal sequence of <= A actuals over
              {positional `1`, keyword `n=1` for n in named params + foreign `z`,
               `*t0|*t1|*t2` (fixed tuples of length 0..2),
               `**d_K` (total TypedDict, K a subset of named params + `z` with <= `max_keys` keys)}
  per-tier bounds: see bounds_for / BOUNDS_TEXT.
All parameter/argument types are int, so any diagnostic on a call line is an arity/keyword one.
Reference: the call is really executed (`def f(...): pass`), TypeError <=> rejected.
Legality of signature order and of call syntax is decided by CPython's compiler, not by us.
One generated module holds one signature and up to a few thousand call lines; it is checked by a
real `mypy.build.build` with the bundled typeshed (in a fresh fork) and its lines are then really
evaluated.  An INTERNAL ERROR would abort the whole module, so crashing lines are found with a
record-and-continue shim and all other verdicts re-derived without them (see mypy_verdicts).
"""

from __future__ import annotations

import inspect
import itertools
import os
import re
import shutil
from collections import Counter
from typing import Any

KINDS = ("po", "pod", "pk", "pkd", "va", "ko", "kod", "vk")
_ORDER = {"po": 0, "pod": 0, "pk": 1, "pkd": 1, "va": 2, "ko": 3, "kod": 3, "vk": 4}
NAMES = "abcd"
FOREIGN = "z"

_INSPECT_KIND = {
    "po": inspect.Parameter.POSITIONAL_ONLY,
    "pod": inspect.Parameter.POSITIONAL_ONLY,
    "pk": inspect.Parameter.POSITIONAL_OR_KEYWORD,
    "pkd": inspect.Parameter.POSITIONAL_OR_KEYWORD,
    "va": inspect.Parameter.VAR_POSITIONAL,
    "ko": inspect.Parameter.KEYWORD_ONLY,
    "kod": inspect.Parameter.KEYWORD_ONLY,
    "vk": inspect.Parameter.VAR_KEYWORD,
}


# --------------------------------------------------------------------------- signatures


def _canonical_order(seq: tuple[str, ...]) -> bool:
    """Group order po* pk* [va] ko* [vk]; the default/non-default rule is left to the compiler."""
    order = [_ORDER[k] for k in seq]
    return order == sorted(order) and seq.count("va") <= 1 and seq.count("vk") <= 1


def render_sig(seq: tuple[str, ...]) -> tuple[str, str]:
    """(parameter list source, names of the named parameters)."""
    parts: list[str] = []
    names = ""
    has_po = any(k in ("po", "pod") for k in seq)
    slash_done = not has_po
    star_done = False
    i = 0
    for k in seq:
        if k not in ("po", "pod") and not slash_done:
            parts.append("/")
            slash_done = True
        if k in ("ko", "kod") and not star_done:
            if "va" not in seq:
                parts.append("*")
            star_done = True
        if k == "va":
            parts.append("*args: int")
            star_done = True
            continue
        if k == "vk":
            parts.append("**kw: int")
            continue
        n = NAMES[i]
        i += 1
        names += n
        parts.append(f"{n}: int" + (" = 0" if k.endswith("d") else ""))
    if not slash_done:
        parts.append("/")
    return ", ".join(parts), names


def signatures(max_params: int) -> list[tuple[str, ...]]:
    """All legal signatures, fewest parameters first.  Legal == CPython compiles `def f(<sig>)`
    and inspect.signature reports exactly the intended kinds/defaults."""
    out = []
    for n in range(max_params + 1):
        for seq in itertools.product(KINDS, repeat=n):
            if not _canonical_order(seq):
                continue
            src, _names = render_sig(seq)
            try:
                code = compile(f"def f({src}) -> None: pass", "<sig>", "exec")
            except SyntaxError:
                continue
            ns: dict[str, Any] = {}
            exec(code, ns)
            ps = list(inspect.signature(ns["f"]).parameters.values())
            got = [(p.kind, p.default is not inspect.Parameter.empty) for p in ps]
            want = [(_INSPECT_KIND[k], k.endswith("d")) for k in seq]
            if got != want:
                raise RuntimeError(f"signature rendering is wrong for {seq}: {src}")
            out.append(seq)
    return out


# --------------------------------------------------------------------------- call shapes


def alphabet(names: str, max_keys: int) -> list[tuple]:
    keys = list(names) + [FOREIGN]
    al: list[tuple] = [("p",)]
    al += [("k", n) for n in keys]
    al += [("t", n) for n in (0, 1, 2)]
    for r in range(min(max_keys, len(keys)) + 1):
        for c in itertools.combinations(keys, r):
            al.append(("d", "".join(c)))
    return al


def render_call(shape: tuple | list) -> str:
    out = []
    for a in shape:
        if a[0] == "p":
            out.append("1")
        elif a[0] == "k":
            out.append(f"{a[1]}=1")
        elif a[0] == "t":
            out.append(f"*t{a[1]}")
        else:
            out.append(f"**d_{a[1]}")
    return "f(" + ", ".join(out) + ")"


_SHAPES: dict[tuple[str, int, int], list[tuple]] = {}


def shapes(names: str, max_actuals: int, max_keys: int) -> list[tuple]:
    """All syntactically legal call shapes (legality = CPython's compiler), shortest first."""
    key = (names, max_actuals, min(max_keys, len(names) + 1))
    if key not in _SHAPES:
        al = alphabet(names, max_keys)
        out = []
        for n in range(max_actuals + 1):
            for sh in itertools.product(al, repeat=n):
                try:
                    compile(render_call(sh), "<call>", "eval")
                except SyntaxError:
                    continue
                out.append(sh)
        _SHAPES[key] = out
    return _SHAPES[key]


# --------------------------------------------------------------------------- module text


def prelude(names: str) -> list[str]:
    keys = list(names) + [FOREIGN]
    lines = ["from typing import TypedDict"]
    for r in range(len(keys) + 1):
        for c in itertools.combinations(keys, r):
            nm = "".join(c)
            lines.append(f"class D_{nm}(TypedDict):")
            if c:
                lines.extend(f"    {k}: int" for k in c)
            else:
                lines.append("    pass")
            lines.append(f"d_{nm}: D_{nm} = {{" + ", ".join(f"'{k}': 1" for k in c) + "}")
    lines += ["t0: tuple[()] = ()", "t1: tuple[int] = (1,)", "t2: tuple[int, int] = (1, 2)"]
    return lines


def module_text(sig_src: str, names: str, calls: list[str]) -> tuple[str, int]:
    """Module checked by mypy AND executed by CPython.  Returns (text, line number of first call)."""
    lines = prelude(names)
    lines.append(f"def f({sig_src}) -> None: pass")
    first = len(lines) + 1
    lines.extend(calls)
    return "\n".join(lines) + "\n", first


# --------------------------------------------------------------------------- the two deciders

_MSG = re.compile(r"^[^:]+:(\d+): (error|note|warning): (.*)$")


class _LineCrash(BaseException):
    """Raised by the record-and-continue shim in place of report_internal_error's SystemExit."""

    def __init__(self, err: BaseException) -> None:
        super().__init__(repr(err))
        self.err = err


def _where(err: BaseException) -> str:
    import traceback

    frames = [f for f in traceback.extract_tb(err.__traceback__) if f.filename.startswith("/repo/")]
    if not frames:
        return "?"
    f = frames[-1]
    return f"{f.filename[len('/repo/'):]}:{f.name}"


def _install_record_and_continue(crashes: dict[int, dict]) -> None:
    """Harness-side shim (this forked process only): an exception escaping the checking of ONE
    top-level expression statement is recorded for that line and checking continues, instead of
    aborting the whole build with INTERNAL ERROR.  It is inert when nothing crashes.  Verdicts of
    modules in which it fired are NOT trusted: they are re-derived by an unshimmed build without
    the crashing lines (see mypy_verdicts)."""
    import mypy.checker as ck
    import mypy.checkexpr as ce

    def fake_report(err: Exception, *a: Any, **k: Any) -> Any:
        raise _LineCrash(err)

    ce.report_internal_error = fake_report  # type: ignore[assignment]
    ck.report_internal_error = fake_report  # type: ignore[assignment]
    orig = ck.TypeChecker.visit_expression_stmt

    def visit_expression_stmt(self: Any, s: Any) -> Any:
        depth = len(self.expr_checker.type_context)
        try:
            return orig(self, s)
        except _LineCrash as e:
            del self.expr_checker.type_context[depth:]
            crashes[s.line] = {"crash": f"{type(e.err).__name__}: {e.err}", "where": _where(e.err)}
            return None

    ck.TypeChecker.visit_expression_stmt = visit_expression_stmt  # type: ignore[method-assign]


def _build_once(job: dict) -> dict:
    """One real `mypy.build.build` (bundled typeshed) on a generated module, in THIS process
    (callers fork first).  job: {text, cache, work, modname, shim}.
    Returns {"messages": [...], "crash": None | {...}, "line_crashes": {line: {...}}}."""
    import contextlib
    import io

    from mypy import build as mb
    from mypy.errors import CompileError
    from mypy.modulefinder import BuildSource

    from mc.drivers import make_options

    work, modname = job["work"], job["modname"]
    os.makedirs(os.path.join(work, "tmp"), exist_ok=True)
    os.chdir(work)
    o = make_options(cache_dir=job["cache"], fixtures=False)
    line_crashes: dict[int, dict] = {}
    if job.get("shim"):
        _install_record_and_continue(line_crashes)
    real_out, real_err, p_out, p_err = io.StringIO(), io.StringIO(), io.StringIO(), io.StringIO()
    crash = None
    msgs: list[str] = []
    with contextlib.redirect_stdout(real_out), contextlib.redirect_stderr(real_err):
        try:
            res = mb.build([BuildSource(f"{modname}.py", modname, job["text"])], o, stdout=p_out, stderr=p_err)
            msgs = list(res.errors)
        except CompileError as e:
            msgs = list(e.messages)
        except SystemExit:
            err = p_err.getvalue() + real_err.getvalue()
            m = re.search(r"^[^:\n]+:(\d+): error: INTERNAL ERROR", err, re.M)
            tb = (p_out.getvalue() + real_out.getvalue()).strip().splitlines()
            if not m or not tb:
                raise RuntimeError("mypy exited without an INTERNAL ERROR line: " + err[-800:])
            frames = [ln for ln in tb if ln.startswith('  File "/repo/')]
            where = "?"
            if frames:
                fm = re.search(r'File "/repo/([^"]+)", line \d+, in (\w+)', frames[-1])
                if fm:
                    where = f"{fm.group(1)}:{fm.group(2)}"
            crash = {"line": int(m.group(1)), "crash": tb[-1].strip(), "where": where}
            msgs = [ln for ln in real_out.getvalue().splitlines() if _MSG.match(ln)]
    return {"messages": msgs, "crash": crash, "line_crashes": line_crashes}


def _by_line(msgs: list[str]) -> dict[int, list[str]]:
    out: dict[int, list[str]] = {}
    for m in msgs:
        mm = _MSG.match(m)
        if not mm:
            raise RuntimeError(f"unparseable mypy output line: {m!r}")
        out.setdefault(int(mm.group(1)), []).append(mm.group(3))
    return out


SUBCHUNK_AFTER_CRASH = 300
BUILD_TIMEOUT = 1500.0


def _isolated_build(text: str, cache: str | None, work: str, modname: str, shim: bool) -> dict:
    from mc.kernel import run_isolated

    return run_isolated(_build_once, {"text": text, "cache": cache, "work": work, "modname": modname, "shim": shim},
                        timeout=BUILD_TIMEOUT)


def mypy_verdicts(sig_src: str, names: str, calls: list[str], cache_src: str | None, work: str,
                  modname: str = "c12calls") -> tuple[list[Any], dict]:
    """Per call line: list of messages ([] = accepted) or {"crash": ..., "where": ...}.

    Every build runs in a freshly forked process.
      pass 1  all call lines, with the record-and-continue shim.  No crash => these are the verdicts
              (the shim only wraps; it changed nothing).
      pass 2  (only if some lines crashed) an UNSHIMMED build of the module without the crashing
              lines gives the verdicts of all other lines; the crashing lines are recorded as such.
      fallback (pass 2 itself dies): strictly unshimmed crash-by-crash peeling.
    """
    cache = None
    if cache_src:
        cache = os.path.join(work, "cache")
        if not os.path.isdir(cache):
            shutil.copytree(cache_src, cache)
    info = {"builds": 0, "shim_divergences": 0, "fallback": 0}
    out: list[Any] = [None] * len(calls)

    def check_stray(by: dict[int, list[str]], first: int) -> None:
        stray = {ln: ms for ln, ms in by.items() if ln < first}
        if stray:
            raise RuntimeError(f"diagnostics outside call lines (harness bug): {stray}")

    text, first = module_text(sig_src, names, calls)
    r1 = _isolated_build(text, cache, work, modname, shim=True)
    info["builds"] += 1
    if r1["crash"] is not None:
        raise RuntimeError(f"INTERNAL ERROR not caught by the shim: {r1['crash']}")
    by1 = _by_line(r1["messages"])
    check_stray(by1, first)
    lc = {ln - first: v for ln, v in r1["line_crashes"].items()}
    if any(not 0 <= k < len(calls) for k in lc):
        raise RuntimeError(f"crash outside call lines: {r1['line_crashes']}")
    if not lc:
        return [by1.get(first + i, []) for i in range(len(calls))], info
    keep = [i for i in range(len(calls)) if i not in lc]
    for k, v in lc.items():
        out[k] = v
    text2, first2 = module_text(sig_src, names, [calls[i] for i in keep])
    r2 = _isolated_build(text2, cache, work, modname, shim=False)
    info["builds"] += 1
    if r2["crash"] is None:
        by2 = _by_line(r2["messages"])
        check_stray(by2, first2)
        for j, i in enumerate(keep):
            out[i] = by2.get(first2 + j, [])
            if out[i] != by1.get(first + i, []):
                info["shim_divergences"] += 1
        return out, info
    # fallback: unshimmed peeling over the kept lines
    info["fallback"] = 1
    pending = keep
    crashed_once = False
    while pending:
        batch = pending[:SUBCHUNK_AFTER_CRASH] if crashed_once else pending
        text3, first3 = module_text(sig_src, names, [calls[i] for i in batch])
        r3 = _isolated_build(text3, cache, work, modname, shim=False)
        info["builds"] += 1
        by3 = _by_line(r3["messages"])
        check_stray(by3, first3)
        if r3["crash"] is None:
            for j, i in enumerate(batch):
                out[i] = by3.get(first3 + j, [])
            pending = pending[len(batch):]
            continue
        k = r3["crash"]["line"] - first3
        if not 0 <= k < len(batch):
            raise RuntimeError(f"INTERNAL ERROR outside call lines: {r3['crash']}")
        if any(ln > r3["crash"]["line"] for ln in by3):
            raise RuntimeError("messages after the crash line: statement order assumption broken")
        for j in range(k):
            out[batch[j]] = by3.get(first3 + j, [])
        out[batch[k]] = {"crash": r3["crash"]["crash"], "where": r3["crash"]["where"]}
        pending = pending[k + 1:]
        crashed_once = True
    return out, info


def runtime_results(sig_src: str, names: str, calls: list[str]) -> list[str | None]:
    """Really call: None if the call binds, else the TypeError text."""
    ns: dict[str, Any] = {}
    text, _ = module_text(sig_src, names, [])
    exec(compile(text, "<c12calls>", "exec"), ns)
    out: list[str | None] = []
    for c in calls:
        try:
            eval(c, ns)
            out.append(None)
        except TypeError as e:
            out.append(str(e))
    return out


# --------------------------------------------------------------------------- cause-level classification


def _norm_rt(err: str) -> str:
    e = re.sub(r"^[\w.]*f\(\) ", "", err)
    e = re.sub(r"'[a-z, ]+'((,| and|, and) '[a-z]+')*", "N", e)
    e = re.sub(r"\d+", "#", e)
    e = re.sub(r"arguments?", "arg", e)
    e = re.sub(r"were|was", "was", e)
    return e.strip().replace(" ", "-")


def _norm_mypy(msgs: list[str]) -> str:
    out = sorted({re.sub(r'"[^"]*"', "N", re.sub(r"\s*\[[a-z-]+\]$", "", m)) for m in msgs})
    return "|".join(out).replace(" ", "-")


def positional_sources(shape: list) -> list[str]:
    """Which kind of actual supplies the i-th positional value (trivial left-to-right count)."""
    src: list[str] = []
    for a in shape:
        if a[0] == "p":
            src.append("positional")
        elif a[0] == "t":
            src.extend(["star-tuple"] * int(a[1]))
    return src


def classify(direction: str, seq: tuple[str, ...], names: str, shape: list, rt_err: str | None,
             mypy_msgs: list[str]) -> str:
    """Cause-level signature of a disagreement (used only to GROUP violations, never to decide)."""
    if direction == "false-accept":
        assert rt_err is not None
        m = re.search(r"got multiple values for (keyword )?argument '([a-z]+)'", rt_err)
        if m:
            # the same formal (or the same **kw key) is supplied twice: by which kinds of actual?
            who = m.group(2)
            named = [k for k in seq if k not in ("va", "vk")]
            kind = named[names.index(who)] if who in names else None
            src: list[str] = []
            if kind in ("pk", "pkd"):
                ps = positional_sources(shape)
                idx = names.index(who)  # positional-capable formals come first, so this is the position
                if idx < len(ps):
                    src.append(ps[idx])
            # (a multiset: one keyword + one **TypedDict is a different shape from two **TypedDicts or from
            # *tuple + two **TypedDicts, and a defect in one must not hide behind a recorded other)
            sup = Counter("keyword" if a[0] == "k" else "typeddict-kw" for a in shape
                          if (a[0] == "k" and a[1] == who) or (a[0] == "d" and who in a[1]))
            src += [k if n == 1 else f"{k}x{n}" for k, n in sorted(sup.items())]
            into_kw = kind not in ("pk", "pkd", "ko", "kod")
            return f"calls:false-accept:{'+'.join(src)}-duplicate" + ("-into-**kw" if into_kw else "")
        return f"calls:false-accept:{_norm_rt(rt_err)}"
    return f"calls:false-reject:{_norm_mypy(mypy_msgs)}"


# --------------------------------------------------------------------------- worker


def run_item(item: dict) -> dict:
    """One batch: one signature x a slice of its call shapes, in one generated module.
    Runs in a long-lived pool worker; every mypy build is forked off it (see mypy_verdicts)."""
    from mc.common import scratch

    seq = tuple(item["sig"])
    sig_src, names = render_sig(seq)
    shs = shapes(names, item["max_actuals"], item["max_keys"])[item["start"]:item["stop"]]
    calls = [render_call(s) for s in shs]
    work = scratch("c12", f"calls-{os.getpid()}-{item['start']}-{'_'.join(seq)}")
    try:
        verdicts, info = mypy_verdicts(sig_src, names, calls, item.get("cache"), work)
    finally:
        shutil.rmtree(work, ignore_errors=True)
    rt = runtime_results(sig_src, names, calls)
    st: Counter[str] = Counter(info)
    mypy_kinds: Counter[str] = Counter()
    rt_kinds: Counter[str] = Counter()
    viol: list[dict] = []
    sample = None
    for sh, c, msgs, err in zip(shs, calls, verdicts, rt):
        st["calls"] += 1
        if len(sh) and len(seq):
            st["nontrivial"] += 1
        if err is None:
            st["rt_accept"] += 1
        else:
            st["rt_reject"] += 1
            rt_kinds[_norm_rt(err)] += 1
        detail = {"sub": "calls", "sig": list(seq), "sig_src": sig_src, "names": names,
                  "shape": [list(a) for a in sh], "call": c, "runtime_error": err}
        rt_txt = f"CPython {'raises TypeError: ' + err if err else 'binds the call'}"
        if isinstance(msgs, dict):
            st["mypy_crash"] += 1
            viol.append({"signature": f"calls:internal-error:{msgs['crash'].split(':')[0]}@{msgs['where']}",
                         "what": f"def f({sig_src}); {c}: {rt_txt}, mypy dies with INTERNAL ERROR ({msgs['crash']})",
                         "detail": {**detail, "mypy_crash": msgs}})
            continue
        if msgs:
            st["mypy_reject"] += 1
            for mk in {_norm_mypy([m]) for m in msgs}:
                mypy_kinds[mk] += 1
        else:
            st["mypy_accept"] += 1
        if (err is None) == (not msgs):
            st["agree_accept" if err is None else "agree_reject"] += 1
            if sample is None and len(sh) == 3 and err is not None:
                sample = {"def": f"def f({sig_src})", "call": c, "cpython": err, "mypy": msgs}
            continue
        direction = "false-accept" if err is not None else "false-reject"
        st[direction] += 1
        viol.append({
            "signature": classify(direction, seq, names, list(sh), err, msgs),
            "what": f"def f({sig_src}); {c}: {rt_txt}, mypy {'reports ' + str(msgs) if msgs else 'is silent'}",
            "detail": {**detail, "mypy_messages": msgs},
        })
    return {"stats": dict(st), "mypy_kinds": dict(mypy_kinds), "rt_kinds": dict(rt_kinds), "violations": viol,
            "sample": sample}


ALL_KEYS = 99


def bounds_for(seq: tuple[str, ...], tier: str) -> tuple[int, int] | None:
    """(max actuals, max TypedDict keys) for a signature in a tier; None = not in the tier."""
    n = len(seq)
    if tier == "quick":
        return (3, 2) if n <= 3 else None
    if n <= 2:
        return (4, ALL_KEYS)
    if n == 3:
        return (3, ALL_KEYS)
    return (3, 2)


BOUNDS_TEXT = {
    "quick": "signatures with <=3 parameters (149) x calls with <=3 actuals, TypedDict key sets of <=2 keys",
    "thorough": "signatures with <=4 parameters (427); <=2 params: <=4 actuals, all TypedDict key sets; "
                "3 params: <=3 actuals, all key sets; 4 params: <=3 actuals, key sets of <=2 keys",
}


def items(tier: str, chunk: int) -> tuple[list[dict], dict]:
    """Work items (one signature x <= chunk call lines) + measured description of the space."""
    sigs = signatures(3 if tier == "quick" else 4)
    out: list[dict] = []
    per_names: Counter[int] = Counter()
    n_lines = 0
    for seq in sigs:
        b = bounds_for(seq, tier)
        if b is None:
            continue
        ma, mk = b
        _, names = render_sig(seq)
        n = len(shapes(names, ma, mk))
        per_names[len(names)] += 1
        n_lines += n
        for s in range(0, n, chunk):
            out.append({"kind": "calls", "sig": list(seq), "max_actuals": ma, "max_keys": mk, "start": s,
                        "stop": min(n, s + chunk), "cost": (min(n, s + chunk) - s) * (2 if "vk" in seq else 1)})
    space = {"signatures": len(sigs), "bounds": BOUNDS_TEXT[tier],
             "signatures_by_named_params": {str(k): v for k, v in sorted(per_names.items())},
             "legal_call_shapes": {f"{len(k[0])} names, <={k[1]} actuals, <={k[2]} keys": len(v)
                                   for k, v in sorted(_SHAPES.items())},
             "call_lines": n_lines}
    return out, space


def replay_one(d: dict, cache: str | None) -> dict:
    """Re-decide one (signature, call) pair with both deciders (unshimmed mypy build first)."""
    from mc.common import scratch

    work = scratch("c12", f"calls-replay-{os.getpid()}")
    try:
        text, first = module_text(d["sig_src"], d["names"], [d["call"]])
        c = os.path.join(work, "cache")
        if cache and not os.path.isdir(c):
            shutil.copytree(cache, c)
        r = _isolated_build(text, c if cache else None, work, "c12calls", shim=False)
    finally:
        shutil.rmtree(work, ignore_errors=True)
    by = _by_line(r["messages"])
    verdict: Any = by.get(first, [])
    if r["crash"] is not None:
        verdict = {"crash": r["crash"]["crash"], "where": r["crash"]["where"], "line_is_call": r["crash"]["line"] == first}
    rt = runtime_results(d["sig_src"], d["names"], [d["call"]])[0]
    return {"runtime_error": rt, "mypy": verdict, "text": text}
