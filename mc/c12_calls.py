"""C12 / calls: argument binding as decided by mypy == binding as performed by CPython.

Space (DESIGN section 4 / C12):
  signatures  every legal ordering of <= P parameters over the 8 kinds
              {pos-only, pos-only=default, pos-or-kw, pos-or-kw=default, *args, kw-only,
               kw-only=default, **kw}                      (P=3: 149, P=4: 427 signatures)
  call shapes every syntactically legal sequence of <= A actuals over
              {positional `1`, keyword `n=1` for n in named params + foreign `z`,
               `*t0|*t1|*t2` (fixed tuples of length 0..2),
               `**d_K` (total TypedDict, K any subset of named params + `z`)}
All parameter/argument types are int, so any diagnostic on a call line is an arity/keyword one.
Reference: the call is really executed (`def f(...): pass`), TypeError <=> rejected.
Legality of signature order and of call syntax is decided by CPython's compiler, not by us.
"""

from __future__ import annotations

import inspect
import itertools
import os
import re
import shutil
from collections import Counter
from typing import Any

KINDS = ("po", "pod", "pk", "pkd", "va", "ko", "kod", "vk")
_ORDER = {"po": 0, "pod": 0, "pk": 1, "pkd": 1, "va": 2, "ko": 3, "kod": 3, "vk": 4}
NAMES = "abcd"
FOREIGN = "z"

_INSPECT_KIND = {
    "po": inspect.Parameter.POSITIONAL_ONLY,
    "pod": inspect.Parameter.POSITIONAL_ONLY,
    "pk": inspect.Parameter.POSITIONAL_OR_KEYWORD,
    "pkd": inspect.Parameter.POSITIONAL_OR_KEYWORD,
    "va": inspect.Parameter.VAR_POSITIONAL,
    "ko": inspect.Parameter.KEYWORD_ONLY,
    "kod": inspect.Parameter.KEYWORD_ONLY,
    "vk": inspect.Parameter.VAR_KEYWORD,
}


# --------------------------------------------------------------------------- signatures


def _canonical_order(seq: tuple[str, ...]) -> bool:
    """Group order po* pk* [va] ko* [vk]; the default/non-default rule is left to the compiler."""
    order = [_ORDER[k] for k in seq]
    return order == sorted(order) and seq.count("va") <= 1 and seq.count("vk") <= 1


def render_sig(seq: tuple[str, ...]) -> tuple[str, str]:
    """(parameter list source, names of the named parameters)."""
    parts: list[str] = []
    names = ""
    has_po = any(k in ("po", "pod") for k in seq)
    slash_done = not has_po
    star_done = False
    i = 0
    for k in seq:
        if k not in ("po", "pod") and not slash_done:
            parts.append("/")
            slash_done = True
        if k in ("ko", "kod") and not star_done:
            if "va" not in seq:
                parts.append("*")
            star_done = True
        if k == "va":
            parts.append("*args: int")
            star_done = True
            continue
        if k == "vk":
            parts.append("**kw: int")
            continue
        n = NAMES[i]
        i += 1
        names += n
        parts.append(f"{n}: int" + (" = 0" if k.endswith("d") else ""))
    if not slash_done:
        parts.append("/")
    return ", ".join(parts), names


def signatures(max_params: int) -> list[tuple[str, ...]]:
    """All legal signatures, fewest parameters first.  Legal == CPython compiles `def f(<sig>)`
    and inspect.signature reports exactly the intended kinds/defaults."""
    out = []
    for n in range(max_params + 1):
        for seq in itertools.product(KINDS, repeat=n):
            if not _canonical_order(seq):
                continue
            src, _names = render_sig(seq)
            try:
                code = compile(f"def f({src}) -> None: pass", "<sig>", "exec")
            except SyntaxError:
                continue
            ns: dict[str, Any] = {}
            exec(code, ns)
            ps = list(inspect.signature(ns["f"]).parameters.values())
            got = [(p.kind, p.default is not inspect.Parameter.empty) for p in ps]
            want = [(_INSPECT_KIND[k], k.endswith("d")) for k in seq]
            if got != want:
                raise RuntimeError(f"signature rendering is wrong for {seq}: {src}")
            out.append(seq)
    return out


# --------------------------------------------------------------------------- call shapes


def alphabet(names: str) -> list[tuple]:
    keys = list(names) + [FOREIGN]
    al: list[tuple] = [("p",)]
    al += [("k", n) for n in keys]
    al += [("t", n) for n in (0, 1, 2)]
    for r in range(len(keys) + 1):
        for c in itertools.combinations(keys, r):
            al.append(("d", "".join(c)))
    return al


def render_call(shape: tuple) -> str:
    out = []
    for a in shape:
        if a[0] == "p":
            out.append("1")
        elif a[0] == "k":
            out.append(f"{a[1]}=1")
        elif a[0] == "t":
            out.append(f"*t{a[1]}")
        else:
            out.append(f"**d_{a[1]}")
    return "f(" + ", ".join(out) + ")"


_SHAPES: dict[tuple[str, int], list[tuple]] = {}


def shapes(names: str, max_actuals: int) -> list[tuple]:
    """All syntactically legal call shapes (legality = CPython's compiler), shortest first."""
    key = (names, max_actuals)
    if key not in _SHAPES:
        al = alphabet(names)
        out = []
        for n in range(max_actuals + 1):
            for sh in itertools.product(al, repeat=n):
                try:
                    compile(render_call(sh), "<call>", "eval")
                except SyntaxError:
                    continue
                out.append(sh)
        _SHAPES[key] = out
    return _SHAPES[key]


# --------------------------------------------------------------------------- module text


def prelude(names: str) -> list[str]:
    keys = list(names) + [FOREIGN]
    lines = ["from typing import TypedDict"]
    for r in range(len(keys) + 1):
        for c in itertools.combinations(keys, r):
            nm = "".join(c)
            lines.append(f"class D_{nm}(TypedDict):")
            if c:
                lines.extend(f"    {k}: int" for k in c)
            else:
                lines.append("    pass")
            lines.append(f"d_{nm}: D_{nm} = {{" + ", ".join(f"'{k}': 1" for k in c) + "}")
    lines += ["t0: tuple[()] = ()", "t1: tuple[int] = (1,)", "t2: tuple[int, int] = (1, 2)"]
    return lines


def module_text(sig_src: str, names: str, calls: list[str]) -> tuple[str, int]:
    """Module checked by mypy AND executed by CPython.  Returns (text, line number of first call)."""
    lines = prelude(names)
    lines.append(f"def f({sig_src}) -> None: pass")
    first = len(lines) + 1
    lines.extend(calls)
    return "\n".join(lines) + "\n", first


# --------------------------------------------------------------------------- the two deciders

_MSG = re.compile(r"^[^:]+:(\d+): (error|note|warning): (.*)$")


def _build_once(text: str, cache: str | None, work: str, modname: str) -> tuple[list[str], dict | None]:
    """One real `mypy.build.build` (bundled typeshed) on the generated module.

    Returns (message lines, crash) where crash = None or {"line", "exception", "where"} for an
    INTERNAL ERROR; in that case the messages are the ones mypy dumps for the statements it had
    already checked (report_internal_error prints them to the process stdout)."""
    import contextlib
    import io

    from mypy import build as mb
    from mypy.errors import CompileError
    from mypy.modulefinder import BuildSource

    from mc.drivers import make_options

    os.makedirs(os.path.join(work, "tmp"), exist_ok=True)
    os.chdir(work)
    o = make_options(cache_dir=cache, fixtures=False)
    real_out, real_err, p_out, p_err = io.StringIO(), io.StringIO(), io.StringIO(), io.StringIO()
    crash = None
    msgs: list[str] = []
    with contextlib.redirect_stdout(real_out), contextlib.redirect_stderr(real_err):
        try:
            res = mb.build([BuildSource(f"{modname}.py", modname, text)], o, stdout=p_out, stderr=p_err)
            msgs = list(res.errors)
        except CompileError as e:
            msgs = list(e.messages)
        except SystemExit:
            err = p_err.getvalue() + real_err.getvalue()
            m = re.search(r"^[^:\n]+:(\d+): error: INTERNAL ERROR", err, re.M)
            tb = (p_out.getvalue() + real_out.getvalue()).strip().splitlines()
            if not m or not tb:
                raise RuntimeError("mypy exited without an INTERNAL ERROR line: " + err[-800:])
            frames = [ln for ln in tb if ln.startswith('  File "/repo/')]
            where = "?"
            if frames:
                fm = re.search(r'File "/repo/([^"]+)", line \d+, in (\w+)', frames[-1])
                if fm:
                    where = f"{fm.group(1)}:{fm.group(2)}"
            crash = {"line": int(m.group(1)), "exception": tb[-1].strip(), "where": where}
            msgs = [ln for ln in real_out.getvalue().splitlines() if _MSG.match(ln)]
    return msgs, crash


def _by_line(msgs: list[str]) -> dict[int, list[str]]:
    out: dict[int, list[str]] = {}
    for m in msgs:
        mm = _MSG.match(m)
        if not mm:
            raise RuntimeError(f"unparseable mypy output line: {m!r}")
        out.setdefault(int(mm.group(1)), []).append(mm.group(3))
    return out


SUBCHUNK_AFTER_CRASH = 300


def mypy_verdicts(sig_src: str, names: str, calls: list[str], cache_src: str | None, work: str,
                  modname: str = "c12calls") -> tuple[list[Any], int]:
    """Per call line: list of messages ([] = accepted) or {"crash": ...}.  Also the number of builds.

    An INTERNAL ERROR aborts the whole build, so after a crash at call k the verdicts of the calls
    before k are taken from the dumped messages, call k is recorded as a crash, and the calls
    after k are re-run (in smaller modules, so that further crashes stay cheap)."""
    cache = None
    if cache_src:
        cache = os.path.join(work, "cache")
        if not os.path.isdir(cache):
            shutil.copytree(cache_src, cache)
    out: list[Any] = [None] * len(calls)
    pending = list(range(len(calls)))
    builds = 0
    crashed_once = False
    while pending:
        batch = pending[:SUBCHUNK_AFTER_CRASH] if crashed_once else pending
        text, first = module_text(sig_src, names, [calls[i] for i in batch])
        msgs, crash = _build_once(text, cache, work, modname)
        builds += 1
        by = _by_line(msgs)
        stray = {ln: ms for ln, ms in by.items() if ln < first}
        if stray:
            raise RuntimeError(f"diagnostics outside call lines (harness bug): {stray}")
        if crash is None:
            for j, i in enumerate(batch):
                out[i] = by.get(first + j, [])
            pending = pending[len(batch):]
            continue
        k = crash["line"] - first
        if not 0 <= k < len(batch):
            raise RuntimeError(f"INTERNAL ERROR outside call lines: {crash}")
        if any(ln > crash["line"] for ln in by):
            raise RuntimeError("messages after the crash line: statement order assumption broken")
        for j in range(k):
            out[batch[j]] = by.get(first + j, [])
        out[batch[k]] = {"crash": crash["exception"], "where": crash["where"]}
        pending = pending[k + 1:]
        crashed_once = True
    return out, builds


def runtime_results(sig_src: str, names: str, calls: list[str]) -> list[str | None]:
    """Really call: None if the call binds, else the TypeError text."""
    ns: dict[str, Any] = {}
    text, _ = module_text(sig_src, names, [])
    exec(compile(text, "<c12calls>", "exec"), ns)
    out: list[str | None] = []
    for c in calls:
        try:
            eval(c, ns)
            out.append(None)
        except TypeError as e:
            out.append(str(e))
    return out


# --------------------------------------------------------------------------- cause-level classification


def _norm_rt(err: str) -> str:
    e = re.sub(r"'[a-z]+'( and '[a-z]+')*", "N", err)
    e = re.sub(r"\d+", "#", e)
    e = e.replace("c12calls.", "").replace("f() ", "")
    e = re.sub(r"arguments?", "arg", e)
    e = re.sub(r"were|was", "was", e)
    return e.strip().replace(" ", "-")


def _norm_mypy(msgs: list[str]) -> str:
    out = sorted({re.sub(r'"[^"]*"', "N", re.sub(r"\s*\[[a-z-]+\]$", "", m)) for m in msgs})
    return "|".join(out).replace(" ", "-")


def positional_sources(shape: list) -> list[str]:
    """Which kind of actual supplies the i-th positional value (trivial left-to-right count)."""
    src: list[str] = []
    for a in shape:
        if a[0] == "p":
            src.append("positional")
        elif a[0] == "t":
            src.extend(["star-tuple"] * int(a[1]))
    return src


def classify(direction: str, seq: tuple[str, ...], names: str, shape: list, rt_err: str | None,
             mypy_msgs: list[str]) -> str:
    """Cause-level signature of a disagreement (used only to GROUP violations, never to decide)."""
    kinds = sorted({{"p": "positional", "k": "keyword", "t": "star-tuple", "d": "typeddict-kw"}[a[0]] for a in shape})
    if direction == "false-accept":
        assert rt_err is not None
        m = re.search(r"got multiple values for (keyword )?argument '([a-z]+)'", rt_err)
        if m:
            who = m.group(2)
            kw_src = sorted({"keyword" if a[0] == "k" else "typeddict-kw" for a in shape
                             if (a[0] == "k" and a[1] == who) or (a[0] == "d" and who in a[1])})
            named = [k for k in seq if k not in ("va", "vk")]
            pos_src = "none"
            if who in names:
                idx = names.index(who)
                if named[idx] in ("po", "pod", "pk", "pkd"):
                    ps = positional_sources(shape)
                    # index among positional-capable formals == index among named params (they come first)
                    if idx < len(ps):
                        pos_src = ps[idx]
            if pos_src == "none" and len(kw_src) >= 1:
                return "calls:false-accept:keyword-duplicate:" + "+".join(kw_src)
            return f"calls:false-accept:{pos_src}+{'+'.join(kw_src)}-duplicate"
        return f"calls:false-accept:{_norm_rt(rt_err)}:{'+'.join(kinds)}"
    return f"calls:false-reject:{_norm_mypy(mypy_msgs)}:{'+'.join(kinds)}"


# --------------------------------------------------------------------------- worker


def run_item(item: dict) -> dict:
    """One batch: one signature x a slice of its call shapes, in one generated module."""
    from mc.common import scratch

    seq = tuple(item["sig"])
    sig_src, names = render_sig(seq)
    shs = shapes(names, item["max_actuals"])[item["start"]:item["stop"]]
    calls = [render_call(s) for s in shs]
    work = scratch("c12", f"calls-{os.getpid()}")
    try:
        verdicts, builds = mypy_verdicts(sig_src, names, calls, item.get("cache"), work)
    finally:
        shutil.rmtree(work, ignore_errors=True)
    rt = runtime_results(sig_src, names, calls)
    st: Counter[str] = Counter()
    st["builds"] = builds
    mypy_kinds: Counter[str] = Counter()
    rt_kinds: Counter[str] = Counter()
    viol: list[dict] = []
    for sh, c, msgs, err in zip(shs, calls, verdicts, rt):
        st["calls"] += 1
        if len(sh) and len(seq):
            st["nontrivial"] += 1
        if err is None:
            st["rt_accept"] += 1
        else:
            st["rt_reject"] += 1
            rt_kinds[_norm_rt(err)] += 1
        detail = {"sub": "calls", "sig": list(seq), "sig_src": sig_src, "names": names,
                  "shape": [list(a) for a in sh], "call": c, "runtime_error": err}
        rt_txt = f"CPython {'raises TypeError: ' + err if err else 'binds the call'}"
        if isinstance(msgs, dict):
            st["mypy_crash"] += 1
            viol.append({"signature": f"calls:internal-error:{msgs['crash'].split(':')[0]}@{msgs['where']}",
                         "what": f"def f({sig_src}); {c}: {rt_txt}, mypy dies with INTERNAL ERROR ({msgs['crash']})",
                         "detail": {**detail, "mypy_crash": msgs}})
            continue
        if msgs:
            st["mypy_reject"] += 1
            for mk in {_norm_mypy([m]) for m in msgs}:
                mypy_kinds[mk] += 1
        else:
            st["mypy_accept"] += 1
        if (err is None) == (not msgs):
            continue
        direction = "false-accept" if err is not None else "false-reject"
        st[direction] += 1
        viol.append({
            "signature": classify(direction, seq, names, list(sh), err, msgs),
            "what": f"def f({sig_src}); {c}: {rt_txt}, mypy {'reports ' + str(msgs) if msgs else 'is silent'}",
            "detail": {**detail, "mypy_messages": msgs},
        })
    return {"stats": dict(st), "mypy_kinds": dict(mypy_kinds), "rt_kinds": dict(rt_kinds), "violations": viol}


def items(max_params: int, max_actuals: int, extra_actuals_upto_params: int | None, chunk: int) -> tuple[list[dict], dict]:
    """Work items (one signature x <= chunk call lines) + measured space description."""
    sigs = signatures(max_params)
    out: list[dict] = []
    per_names: Counter[int] = Counter()
    n_lines = 0
    for seq in sigs:
        _, names = render_sig(seq)
        ma = max_actuals
        if extra_actuals_upto_params is not None and len(seq) <= extra_actuals_upto_params:
            ma = max_actuals + 1
        n = len(shapes(names, ma))
        per_names[len(names)] += 1
        n_lines += n
        for s in range(0, n, chunk):
            out.append({"kind": "calls", "sig": list(seq), "max_actuals": ma, "start": s, "stop": min(n, s + chunk),
                        "cost": min(n, s + chunk) - s})
    space = {"signatures": len(sigs), "max_params": max_params, "max_actuals": max_actuals,
             "extra_actual_for_signatures_with_params_upto": extra_actuals_upto_params,
             "signatures_by_named_params": dict(sorted(per_names.items())),
             "shapes_by_names": {f"{len(k[0])}names/<={k[1]}actuals": len(v) for k, v in sorted(_SHAPES.items())},
             "call_lines": n_lines}
    return out, space


def replay_one(d: dict, cache: str | None) -> dict:
    """Re-decide one (signature, call) pair with both deciders."""
    from mc.common import scratch

    work = scratch("c12", f"calls-replay-{os.getpid()}")
    try:
        verdicts, _ = mypy_verdicts(d["sig_src"], d["names"], [d["call"]], cache, work)
    finally:
        shutil.rmtree(work, ignore_errors=True)
    rt = runtime_results(d["sig_src"], d["names"], [d["call"]])[0]
    text, _first = module_text(d["sig_src"], d["names"], [d["call"]])
    return {"runtime_error": rt, "mypy": verdicts[0], "text": text}
