"""C08 universe: the finite set of types the lattice laws are enumerated over.

The types are NOT constructed by hand: a universe module is generated as source text that declares
`v_i: T_i` (one declaration per line) inside a generic class (so that bound / valued type variables
and a ParamSpec are in scope), it is type-checked by one REAL `mypy.build.build` with the bundled
typeshed, and the analysed declared types are read back from the class's symbol table.  A declaration
whose line received any error is dropped (counted), so every type in the universe is one that mypy
itself produced from an annotation it accepted.

The only type that cannot be written as an annotation is the type of an overloaded function; it is
taken from the analysed `OverloadedFuncDef`, and its depth-1 constructions are produced by mypy's own
`expand_type` on the analysed templates `Optional[_X]`, `list[_X]`, ... (the mechanism mypy uses to
instantiate a generic alias).
"""

from __future__ import annotations

import io
import os
from typing import Any

MODULE = "c08u"

PRELUDE = '''\
import enum
from typing import (
    Callable, Generic, Literal, NamedTuple, Never, Optional, ParamSpec, Protocol, Self, Sequence,
    Type, TypedDict, TypeVar, Union, overload,
)
from typing_extensions import ReadOnly
from mypy_extensions import Arg, DefaultArg, NamedArg, DefaultNamedArg, VarArg, KwArg

T = TypeVar("T")
T_co = TypeVar("T_co", covariant=True)
T_contra = TypeVar("T_contra", contravariant=True)

class A:
    def am(self) -> int: return 0
class B(A): ...
class C(A): ...
class D(B, C): ...
class E(D): ...
class F(A):
    name: str = ""
class G(F): ...

class Inv(Generic[T]):
    def get(self) -> T: raise NotImplementedError
    def put(self, x: T) -> None: ...
class Co(Generic[T_co]):
    def get(self) -> T_co: raise NotImplementedError
class Contra(Generic[T_contra]):
    def put(self, x: T_contra) -> None: ...

class PGen(Protocol[T_co]):
    def get(self) -> T_co: ...
class PProp(Protocol):
    @property
    def name(self) -> str: ...

class Slf:
    def clone(self) -> Self: return self

class NT(NamedTuple):
    x: int
    y: str

class TDT(TypedDict):
    a: int
    b: str
class TDN(TypedDict, total=False):
    a: int
    b: str
class TDR(TypedDict):
    a: ReadOnly[int]
    b: str

class Color(enum.Enum):
    RED = 1
    GREEN = 2

Rec = Union[int, list["Rec"]]

TB = TypeVar("TB", bound=A)
TV = TypeVar("TV", int, str)
P = ParamSpec("P")
_X = TypeVar("_X")
_Y = TypeVar("_Y")

class K:
    def __init__(self, x: int) -> None: ...
class CB(Protocol):
    def __call__(self, x: int) -> K: ...

@overload
def ov(x: int) -> int: ...
@overload
def ov(x: str) -> str: ...
def ov(x: object) -> object: return x

'''

# (name, annotation text).  Order = simplest first (violations are enumerated in this order).
ATOMS: list[tuple[str, str]] = [
    ("object", "object"),
    ("int", "int"),
    ("bool", "bool"),
    ("float", "float"),
    ("complex", "complex"),
    ("str", "str"),
    ("bytes", "bytes"),
    ("None", "None"),
    ("Never", "Never"),
    ("A", "A"),
    ("B", "B"),
    ("C", "C"),
    ("D", "D"),
    ("E", "E"),
    ("F", "F"),
    ("G", "G"),
    ("Inv[B]", "Inv[B]"),
    ("Co[B]", "Co[B]"),
    ("Contra[B]", "Contra[B]"),
    ("PGen[B]", "PGen[B]"),
    ("PProp", "PProp"),
    ("tuple[int, str]", "tuple[int, str]"),
    ("tuple[int, ...]", "tuple[int, ...]"),
    ("tuple[int, *tuple[str, ...]]", "tuple[int, *tuple[str, ...]]"),
    ("NT", "NT"),
    ("TDT", "TDT"),
    ("TDN", "TDN"),
    ("TDR", "TDR"),
    ("Literal[1]", "Literal[1]"),
    ("Literal['a']", "Literal['a']"),
    ("Literal[True]", "Literal[True]"),
    # literals whose VALUES compare equal across types (0 == False, 1 == True) and the other half of bool
    ("Literal[0]", "Literal[0]"),
    ("Literal[False]", "Literal[False]"),
    ("Literal[Color.RED]", "Literal[Color.RED]"),
    ("Color", "Color"),
    ("Type[B]", "Type[B]"),
    ("type", "type"),
    ("Callable[[int], str]", "Callable[[int], str]"),
    ("Callable[[Arg(int, 'x')], str]", "Callable[[Arg(int, 'x')], str]"),
    ("Callable[[DefaultArg(int, 'x')], str]", "Callable[[DefaultArg(int, 'x')], str]"),
    ("Callable[[VarArg(int)], str]", "Callable[[VarArg(int)], str]"),
    ("Callable[[KwArg(int)], str]", "Callable[[KwArg(int)], str]"),
    ("Callable[[NamedArg(int, 'x')], str]", "Callable[[NamedArg(int, 'x')], str]"),
    ("Callable[[DefaultNamedArg(int, 'x')], str]", "Callable[[DefaultNamedArg(int, 'x')], str]"),
    ("<overloaded ov>", ""),  # not annotatable: type of the overloaded function `ov`
    ("TB", "TB"),
    ("TV", "TV"),
    ("Callable[P, int]", "Callable[P, int]"),
    ("Rec", "Rec"),
    ("Slf", "Slf"),
    # callback protocol whose __call__ matches K's constructor: Type[K] <: CB holds, K <: CB does not
    ("K", "K"),
    ("CB", "CB"),
    ("Type[K]", "Type[K]"),
]
OVERLOADED = "<overloaded ov>"

UNARY: list[tuple[str, str]] = [
    ("Optional", "Optional[{x}]"),
    ("list", "list[{x}]"),
    ("Sequence", "Sequence[{x}]"),
    ("Type", "Type[{x}]"),
    ("vtuple", "tuple[{x}, ...]"),
    ("CallArg", "Callable[[{x}], None]"),
    ("CallRet", "Callable[[], {x}]"),
    ("Co", "Co[{x}]"),
    ("Contra", "Contra[{x}]"),
    ("Inv", "Inv[{x}]"),
]
BINARY: list[tuple[str, str]] = [
    ("Union", "Union[{x}, {y}]"),
    ("tuple2", "tuple[{x}, {y}]"),
    ("Call2", "Callable[[{x}], {y}]"),
    ("dict", "dict[{x}, {y}]"),
]

# 12-atom core for the binary constructors (thorough) / smaller cores for quick
CORE12 = ["object", "int", "bool", "str", "None", "B", "D", "Co[B]", "PGen[B]", "tuple[int, str]",
          "Callable[[int], str]", "Literal[1]"]
CORE8 = ["object", "int", "None", "B", "D", "Co[B]", "Callable[[int], str]", "Literal[1]"]
# quick: unary constructors over these 20 atoms + bare `type` (the only Any-like atom: it makes proper and
# non-proper subtyping differ on generic instances, which the cache-independence sweeps need)
CORE20 = ["object", "int", "bool", "float", "str", "None", "Never", "A", "B", "D", "Inv[B]", "Co[B]",
          "PGen[B]", "tuple[int, str]", "TDT", "Literal[1]", "Color", "Type[B]", "type", "Callable[[int], str]", "TB"]
# 20-type core for union simplification
UNION_CORE = ["object", "int", "bool", "float", "str", "None", "Never", "A", "B", "D", "Co[B]", "PGen[B]",
              "tuple[int, str]", "tuple[int, ...]", "TDT", "Literal[1]", "Literal[True]", "Literal[Color.RED]",
              "Color", "Callable[[int], str]", "Literal[0]", "Literal[False]"]
# cache-independence mode (iv): queries over these (core atoms + same-TypeInfo instances so that the
# per-TypeInfo subtype caches are actually hit with related keys, incl. promotion-sensitive ones)
CACHE_CORE = ["object", "int", "float", "None", "B", "D", "Co[B]", "Co[D]", "Co[int]", "Co[float]", "Inv[B]", "Inv[D]",
              "PGen[B]", "PGen[D]", "list[B]", "tuple[int, str]", "Callable[[int], str]", "K", "CB", "Type[K]"]
# quick runs mode (iv) over this smaller core
CACHE_CORE_Q = ["int", "float", "B", "D", "Co[int]", "Co[float]", "PGen[B]", "K", "CB", "Type[K]"]

# ---- second sub-universe: PEP 646 variadic tuples with prefix / suffix (all pairs and all chains among
# them and a few related types).  tuple[P..., *tuple[V, ...], S...] for every prefix and suffix of length
# 0..2 over TUP_PS, every V in TUP_V, plus every fixed tuple of length 0..3 over TUP_FIXED.
TUP_PS = {"thorough": ["int", "str", "object"], "quick": ["int", "str"]}
TUP_V = {"thorough": ["int", "str", "object"], "quick": ["int", "str", "object"]}
TUP_FIXED = {"thorough": ["int", "str", "object", "bool"], "quick": ["int", "str", "object"]}
TUP_FIXED_MAXLEN = {"thorough": 3, "quick": 3}
TUP_RELATED = ["object", "Never", "None", "NT", "tuple[int, ...]", "Sequence[int]", "Sequence[str]", "Sequence[object]",
               "list[int]"]


def tuple_family(tier: str) -> list[str]:
    import itertools

    allps, allv, allf = TUP_PS["thorough"], TUP_V["thorough"], TUP_FIXED["thorough"]
    ps, vs, fx = set(TUP_PS[tier]), set(TUP_V[tier]), set(TUP_FIXED[tier])
    out = []
    for n in range(0, 4):
        for items in itertools.product(allf, repeat=n):
            if not set(items) <= fx:
                continue
            if tier == "quick" and n == 3 and "object" in items:
                continue
            out.append("tuple[" + (", ".join(items) if items else "()") + "]")
    for total in range(0, 5):
        for pl in range(0, 3):
            sl = total - pl
            if not 0 <= sl <= 2:
                continue
            for pre in itertools.product(allps, repeat=pl):
                for suf in itertools.product(allps, repeat=sl):
                    for v in allv:
                        if not (set(pre) | set(suf) <= ps and v in vs):
                            continue
                        out.append("tuple[" + ", ".join(list(pre) + [f"*tuple[{v}, ...]"] + list(suf)) + "]")
    return out


def decls(tier: str) -> tuple[list[tuple[str, str]], dict[str, list[str]]]:
    """([(label, annotation text)], {group: labels}) for the tier, simplest first.  label == text (or the
    atom name).  Group "main" = atoms + depth-1 constructions; group "tuples" = variadic tuple family +
    related types.  The laws are enumerated over all pairs / chains WITHIN each group."""
    out: list[tuple[str, str]] = []
    seen: set[str] = set()

    def add(label: str, text: str) -> None:
        if label not in seen:
            seen.add(label)
            out.append((label, text))

    txt = dict(ATOMS)
    for name, text in ATOMS:
        add(name, text)
    un_atoms = [n for n, _ in ATOMS] if tier == "thorough" else CORE20
    bin_atoms = CORE12 if tier == "thorough" else CORE8
    for _cn, tmpl in UNARY:
        for a in un_atoms:
            if a == OVERLOADED:
                add(tmpl.format(x=a), "")
            else:
                add(tmpl.format(x=txt[a]), tmpl.format(x=txt[a]))
    for _cn, tmpl in BINARY:
        for a in bin_atoms:
            for b in bin_atoms:
                add(tmpl.format(x=txt[a], y=txt[b]), tmpl.format(x=txt[a], y=txt[b]))
    for extra in CACHE_CORE + CACHE_CORE_Q + UNION_CORE + TUP_RELATED:
        if extra not in seen:
            add(extra, extra)
    main = [l for l, _ in out]
    fam = tuple_family(tier)
    for lab in fam:
        add(lab, lab)
    tup = [l for l in fam if l not in TUP_RELATED] + list(TUP_RELATED)  # simplest (fixed tuples) first
    return out, {"main": main, "tuples": tup}


def source(dl: list[tuple[str, str]]) -> tuple[str, dict[int, int]]:
    """Universe module text and {source line: decl index}."""
    lines = PRELUDE.splitlines()
    lines.append("class U(Generic[TB, TV, P, _X, _Y]):")
    line_of: dict[int, int] = {}
    for i, (_label, text) in enumerate(dl):
        if not text:
            continue
        lines.append(f"    v_{i}: {text}")
        line_of[len(lines)] = i
    for cn, tmpl in UNARY:
        lines.append(f"    t_{cn}: {tmpl.format(x='_X')}")
    lines.append("")
    return "\n".join(lines), line_of


class Universe:
    def __init__(self) -> None:
        self.labels: list[str] = []
        self.types: list[Any] = []
        self.strs: list[str] = []
        self.any_free: list[bool] = []
        self.dropped: list[tuple[str, str]] = []  # (label, first error)
        self.index: dict[str, int] = {}
        self.build_messages: list[str] = []
        self.tier = ""
        self.groups: dict[str, list[int]] = {}

    def __len__(self) -> int:
        return len(self.types)

    def get(self, label: str) -> Any:
        return self.types[self.index[label]]


def contains_any(t: Any) -> bool:
    """True iff the type mentions Any anywhere, or bare `builtins.type` (which mypy's subtype visitor
    treats as Type[Any]), or an ellipsis-args callable.  Alias targets are followed once each."""
    from mypy.type_visitor import BoolTypeQuery, ANY_STRATEGY
    from mypy.types import AnyType, CallableType, Instance, TypeAliasType

    class Q(BoolTypeQuery):
        def __init__(self) -> None:
            super().__init__(ANY_STRATEGY)
            self.seen_al: set[Any] = set()

        def visit_any(self, t: AnyType) -> bool:
            return True

        def visit_instance(self, t: Instance) -> bool:
            if t.type.fullname == "builtins.type" and not t.args:
                return True
            return super().visit_instance(t)

        def visit_callable_type(self, t: CallableType) -> bool:
            if t.is_ellipsis_args:
                return True
            return self.query_types(t.arg_types) or t.ret_type.accept(self)

        def visit_tuple_type(self, t: Any) -> bool:
            # partial_fallback of an anonymous tuple is the placeholder tuple[Any, ...]: not part of the type
            fb = t.partial_fallback
            if fb.type.fullname != "builtins.tuple" and self.query_types(fb.args):
                return True
            return self.query_types(t.items)

        def visit_type_var(self, t: Any) -> bool:
            # `default` is an internal Any placeholder when no default was declared
            return self.query_types([t.upper_bound] + list(t.values))

        def visit_param_spec(self, t: Any) -> bool:
            return self.query_types([t.prefix])

        def visit_type_var_tuple(self, t: Any) -> bool:
            return False

        def visit_type_alias_type(self, t: TypeAliasType) -> bool:
            if t.alias is None:
                return True
            if t.alias in self.seen_al:
                return self.query_types(t.args)
            self.seen_al.add(t.alias)
            return t.alias.target.accept(self) or self.query_types(t.args)

    return bool(t.accept(Q()))


def tstr(t: Any) -> str:
    """Stable, fully-qualified rendering used in signatures."""
    return str(t)


_CACHE: dict[str, Universe] = {}


def load(tier: str, root: str) -> Universe:
    """Build the universe module with the real mypy (bundled typeshed) in THIS process and collect the
    declared types.  Callers fork afterwards (children inherit the analysed types)."""
    if tier in _CACHE:
        return _CACHE[tier]
    from mypy import build as mb
    from mypy.errors import CompileError
    from mypy.expandtype import expand_type
    from mypy.modulefinder import BuildSource
    from mypy.nodes import OverloadedFuncDef, TypeInfo

    from mc.drivers import make_options

    dl, group_labels = decls(tier)
    text, line_of = source(dl)
    os.makedirs(root, exist_ok=True)
    path = os.path.join(root, MODULE + ".py")
    with open(path, "w") as f:
        f.write(text)
    cwd = os.getcwd()
    os.chdir(root)
    try:
        o = make_options(cache_dir=None, fixtures=False)  # one cold build per run (~5 s); scratch is per-run
        o.preserve_asts = True
        try:
            res = mb.build([BuildSource(path, MODULE, None)], o, stdout=io.StringIO(), stderr=io.StringIO())
        except CompileError as e:
            raise RuntimeError("universe module has blocking errors: " + "\n".join(e.messages[:10]))
    finally:
        os.chdir(cwd)
    bad: dict[int, str] = {}
    other: list[str] = []
    for m in res.errors:
        parts = m.split(":", 3)
        try:
            ln = int(parts[1])
        except (IndexError, ValueError):
            other.append(m)
            continue
        if ln in line_of:
            bad.setdefault(line_of[ln], m.split(": ", 1)[-1] if ": " in m else m)
        elif " note: " not in m:
            other.append(m)
    if other:
        raise RuntimeError("universe prelude does not type-check: " + " | ".join(other[:5]))
    tree = res.files[MODULE]
    uinfo = tree.names["U"].node
    assert isinstance(uinfo, TypeInfo)
    ovn = tree.names["ov"].node
    assert isinstance(ovn, OverloadedFuncDef) and ovn.type is not None
    ov_type = ovn.type
    xvar = None
    for tv in uinfo.defn.type_vars:
        if tv.name == "_X":
            xvar = tv
    assert xvar is not None
    u = Universe()
    u.tier = tier
    u.build_messages = list(res.errors)
    ov_labels = {tmpl.format(x=OVERLOADED): cn for cn, tmpl in UNARY}
    for i, (label, dtext) in enumerate(dl):
        if i in bad:
            u.dropped.append((label, bad[i]))
            continue
        if label == OVERLOADED:
            t = ov_type
        elif label in ov_labels:
            tmpl_t = uinfo.names[f"t_{ov_labels[label]}"].node.type
            t = expand_type(tmpl_t, {xvar.id: ov_type})
        else:
            sym = uinfo.names.get(f"v_{i}")
            if sym is None or sym.node is None or getattr(sym.node, "type", None) is None:
                u.dropped.append((label, "no declared type"))
                continue
            t = sym.node.type
        u.index[label] = len(u.types)
        u.labels.append(label)
        u.types.append(t)
        u.strs.append(tstr(t))
        u.any_free.append(not contains_any(t))
    for g, labs in group_labels.items():
        u.groups[g] = [u.index[l] for l in labs if l in u.index]
    _CACHE[tier] = u
    return u
