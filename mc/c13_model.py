"""C13 reference model: what a `# type: ignore` comment / a disabled error code is ALLOWED to change.

The model is a transcription of the property statement and docs/source/error_codes.rst, evaluated on the
ErrorInfo objects of the baseline run (origin_span, code, blocker, parent_error, only_once):

  * an ignore on line L with code list C removes exactly the non-blocker infos whose origin span contains L
    and whose code is in C or is a sub-code of a code in C (empty C = every code); a note attached to an
    error (parent_error) goes iff its error goes; nothing else changes;
  * with unused-ignore reporting on, a listed code (or the bare comment) is reported unused iff no removed
    info carried exactly that code; a listed super-code that only removed sub-coded infos is reported with
    the documented "use narrower [...]" hint;
  * disabling code c removes exactly the non-blocker infos for which "enabled" is false under: explicitly
    disabled -> off; explicitly enabled -> on; super-code disabled -> off; else default;
  * legitimate second-order effects are part of the model: lines whose unused-ignore status depends on
    which of two comments claims a shared error are *volatile* (their unused-ignore diagnostic is not
    compared), only_once messages with a dropped duplicate make the case unpredictable (skipped, counted).

Rendering of the expected ErrorInfos to text uses mypy's own sort/dedupe/format pipeline on a fresh
Errors object: the model decides WHICH infos exist, not how they are printed.
"""

from __future__ import annotations

import io
import re
import tokenize
from typing import Any, Iterable

NOT_COVERED_RE = re.compile(
    r'note: (Error code "(?P<code>[a-z0-9-]+)" not covered by "type: ignore\[(?P<listed>[^\]]*)\]" comment'
    r'|Error code changed to (?P<code2>[a-z0-9-]+); "type: ignore" comment may be out of date)'
)
UNUSED_RE = re.compile(r'error: Unused "type: ignore(\[[^\]]*\])?" comment.*\[unused-ignore\]$')
IWC_RE = re.compile(r'error: "type: ignore" comment without error code.*\[ignore-without-code\]$')
NARROWER_RE = re.compile(r"use narrower \[([^\]]*)\] instead of")
LOC_RE = re.compile(r"^(?P<file>[^:\n]+):(?P<line>\d+)(?::\d+)*: (?P<sev>error|note): ")


# --------------------------------------------------------------------------- token structure


def _tokens(src: str) -> list[tuple[int, str, tuple[int, int], tuple[int, int]]] | None:
    try:
        return [(t.type, t.string, t.start, t.end) for t in tokenize.generate_tokens(io.StringIO(src).readline)]
    except (tokenize.TokenError, IndentationError, SyntaxError):
        return None


def annotate(src: str, ann: dict[int, str]) -> str:
    lines = src.split("\n")
    for ln, comment in ann.items():
        lines[ln - 1] = lines[ln - 1] + "  " + comment
    return "\n".join(lines)


_LAYOUT = (tokenize.NL, tokenize.NEWLINE, tokenize.COMMENT, tokenize.INDENT, tokenize.DEDENT, tokenize.ENDMARKER)


def safe_lines(src: str, candidates: Iterable[int]) -> tuple[set[int], dict[int, str]]:
    """Lines on which appending `  # type: ignore[...]` adds exactly one COMMENT token and changes no other
    token (type, text, position), and which carry a real token (so the comment is not a module-level
    'ignore everything' comment before the first statement).  Returns (safe, {line: reason})."""
    base = _tokens(src)
    why: dict[int, str] = {}
    safe: set[int] = set()
    nlines = src.count("\n") + 1
    if base is None:
        return safe, {ln: "untokenizable" for ln in candidates}
    real_lines: set[int] = set()
    for ty, _s, st, en in base:
        if ty not in _LAYOUT:
            real_lines.add(en[0])
    comment_lines = {st[0] for ty, _s, st, _e in base if ty == tokenize.COMMENT}
    probe = "# type: ignore[xx-probe]"
    for ln in candidates:
        if ln < 1 or ln > nlines:
            why[ln] = "no such line"
            continue
        if ln in comment_lines:
            why[ln] = "existing comment"
            continue
        if ln not in real_lines:
            why[ln] = "no token ends on line"
            continue
        new = _tokens(annotate(src, {ln: probe}))
        if new is None:
            why[ln] = "annotation breaks tokenization"
            continue
        added = [t for t in new if t[0] == tokenize.COMMENT and t[2][0] == ln and t[1] == probe]
        rest = [t for t in new if not (t[0] == tokenize.COMMENT and t[2][0] == ln and t[1] == probe)]

        def norm(ts: list) -> list:
            # the NEWLINE/NL token that ends line `ln` legitimately moves right; keep only its type
            return [(t[0],) if t[0] in (tokenize.NL, tokenize.NEWLINE) and t[2][0] == ln else t for t in ts]

        if len(added) != 1 or norm(rest) != norm(base):
            why[ln] = "token structure changes"
            continue
        safe.add(ln)
    return safe, why


# --------------------------------------------------------------------------- the rules


def span_of(info: Any) -> list[int]:
    return list(info.origin_span)


def covers(listed: list[str], code: Any) -> str | None:
    """The listed entry of an ignore comment that matches `code` ('' for a bare comment), or None."""
    if not listed:
        return ""
    if code is None:
        return None
    if code.code in listed:
        return code.code
    if code.sub_code_of is not None and code.sub_code_of.code in listed:
        return code.sub_code_of.code
    return None


def code_enabled(code: Any, disabled: set[str], enabled: set[str]) -> bool:
    """Is a diagnostic that WAS reported still reported under these sets?  (Optional checks that are off by
    default are switched on by their own flags, so `default_enabled` says nothing about a reported info.)"""
    if code.code in disabled:
        return False
    if code.code in enabled:
        return True
    if code.sub_code_of is not None and code.sub_code_of.code in disabled:
        return False
    return True


def link_notes(infos: list[Any]) -> dict[int, Any]:
    """id(note) -> the error it is attached to: parent_error, or for mypy's own 'not covered by type: ignore'
    notes (generated right after the error they talk about) the preceding info on that line with that code."""
    parent: dict[int, Any] = {}
    for k, i in enumerate(infos):
        if i.parent_error is not None:
            parent[id(i)] = i.parent_error
        elif i.severity == "note" and i.code is None:
            m = NOT_COVERED_RE.search("note: " + i.message)
            if m:
                c = m.group("code") or m.group("code2")
                for j in range(k - 1, -1, -1):
                    p = infos[j]
                    if p.line == i.line and p.code is not None and p.code.code == c and p.severity == "error":
                        parent[id(i)] = p
                        break
    return parent


class Prediction:
    def __init__(self) -> None:
        self.keep: dict[str, list[Any]] = {}  # file -> infos expected to be reported (real ErrorInfo objects)
        self.removed: list[Any] = []
        self.volatile: set[int] = set()  # lines of main whose unused-ignore diagnostic is not compared
        self.unused: dict[int, str] = {}  # added line -> expected unused-ignore message
        self.skip: str | None = None  # reason why this perturbation cannot be predicted soundly
        self.once_risk = False


def _closure_remove(infos: list[Any], direct: set[int], parent: dict[int, Any]) -> set[int]:
    """Attached notes follow their error (and only their error)."""
    removed = set(direct)
    for i in infos:
        p = parent.get(id(i))
        if p is not None:
            if id(p) in removed:
                removed.add(id(i))
            else:
                removed.discard(id(i))
    return removed


def resurface(base: dict[str, Any], removed: list[Any], suppressed: Any) -> dict[str, list[Any]] | None:
    """only_once: a message is shown once per build, at its first NON-suppressed occurrence.  When the shown
    occurrence is removed, the first duplicate the baseline dropped that is not suppressed itself takes its place.
    Returns {file: [infos that now appear]} (None if that cannot be decided from the recorded duplicates)."""
    out: dict[str, list[Any]] = {}
    for msg in dict.fromkeys(i.message for i in removed if i.only_once):
        for f, d in base["once_dropped"]:
            if d.message == msg and not suppressed(f, d):
                out.setdefault(f, []).append(d)
                break
    return out


def predict_ignores(base: dict[str, Any], main: str, added: dict[int, list[str]], unused_on: bool) -> Prediction:
    from mypy.errorcodes import sub_code_map

    pr = Prediction()
    emap: dict[str, list[Any]] = base["infos"]
    infos = emap.get(main, [])
    parent = link_notes(infos)
    direct: set[int] = set()
    claims: dict[int, list[tuple[Any, list[int]]]] = {ln: [] for ln in added}  # line -> [(info, all claiming lines)]
    for i in infos:
        if i.blocker or id(i) in parent:
            continue
        hit = [ln for ln in span_of(i) if ln in added and covers(added[ln], i.code) is not None]
        if hit:
            direct.add(id(i))
            for ln in dict.fromkeys(hit):
                claims[ln].append((i, list(dict.fromkeys(hit))))
    removed = _closure_remove(infos, direct, parent)
    pr.removed = [i for i in infos if id(i) in removed]
    # only_once: a later identical message that the baseline dropped would now surface
    def suppressed(f: str, d: Any) -> bool:
        if d.blocker or f != main:
            return False
        return any(ln in added and covers(added[ln], d.code) is not None for ln in span_of(d)) or any(
            ln in base["ignored_lines"] and covers(base["ignored_lines"][ln], d.code) is not None for ln in span_of(d))

    pr.resurfaced = resurface(base, pr.removed, suppressed)  # type: ignore[attr-defined]
    for f, ds in pr.resurfaced.items():  # type: ignore[attr-defined]
        for d in ds:  # a resurfacing occurrence on an annotated line would have been claimed by that comment
            for ln in span_of(d):
                if f == main and ln in added:
                    pr.volatile.add(ln)
    # errors that an existing comment swallowed and that an added comment could claim as well
    existing = base["ignored_lines"]
    for f, s in base["swallowed"]:
        if f != main or s.blocker:
            continue
        sp = span_of(s)
        mine = [ln for ln in sp if ln in added and covers(added[ln], s.code) is not None]
        if mine:
            for ln in mine:
                claims[ln].append((s, ["shared"]))
            for ln in sp:
                if ln in existing:
                    pr.volatile.add(ln)
    for f, lst in emap.items():
        pr.keep[f] = [i for i in lst if not (f == main and id(i) in removed)]
    for f, ds in pr.resurfaced.items():  # type: ignore[attr-defined]
        pr.keep.setdefault(f, []).extend(ds)
    # unused-ignore expectation for every added comment
    for ln, listed in added.items():
        exclusive = [i for i, lines in claims[ln] if lines == [ln]]
        shared = [i for i, lines in claims[ln] if lines != [ln]]
        if shared:
            # which of two comments "used" a shared error is not promised by the property
            pr.volatile.add(ln)
            continue
        used_codes = {i.code.code for i in exclusive if i.code is not None}
        if not listed:
            if not exclusive:
                pr.unused[ln] = 'Unused "type: ignore" comment'
            continue
        unused_listed = [c for c in listed if c not in used_codes]
        if not unused_listed:
            continue
        msg = 'Unused "type: ignore' + (f"[{', '.join(unused_listed)}]" if len(listed) > 1 else "") + '" comment'
        for u in unused_listed:
            narrower = sorted(used_codes & sub_code_map[u])
            if narrower:
                msg += f", use narrower [{', '.join(narrower)}] instead of [{u}] code"
        pr.unused[ln] = msg
    if not unused_on:
        pr.unused = {}
    return pr


def predict_disable(base: dict[str, Any], per_file_codes: dict[str, tuple[set[str], set[str]]], main: str,
                    unused_on: bool, iwc: bool) -> Prediction:
    """per_file_codes: file -> (disabled names, enabled names) in effect for that file in the perturbed run."""
    pr = Prediction()
    emap: dict[str, list[Any]] = base["infos"]
    dropped_msgs = {i.message for _f, i in base["once_dropped"]}
    for f, infos in emap.items():
        dis, en = per_file_codes.get(f, per_file_codes[""])
        parent = link_notes(infos)
        direct = {
            id(i) for i in infos
            if not i.blocker and id(i) not in parent and i.code is not None and not code_enabled(i.code, dis, en)
        }
        removed = _closure_remove(infos, direct, parent)
        pr.removed += [i for i in infos if id(i) in removed]
        pr.keep[f] = [i for i in infos if id(i) not in removed]
    def suppressed(f: str, d: Any) -> bool:
        dis, en = per_file_codes.get(f, per_file_codes[""])
        return not d.blocker and d.code is not None and not code_enabled(d.code, dis, en)

    for f, ds in resurface(base, pr.removed, suppressed).items():
        pr.keep.setdefault(f, []).extend(ds)
    # an existing comment that swallowed only errors of the now-disabled code suppresses nothing any more:
    # it must be reported unused (predicted for bare / single-code comments of the main file; other shapes
    # have a composite message and are left out of the comparison as volatile lines)
    pr.volatile_by_file = {}  # type: ignore[attr-defined]
    by_line: dict[tuple[str, int], list[Any]] = {}
    for f, s in base["swallowed"]:
        by_line.setdefault((f, getattr(s, "_c13_claimed_by", -1)), []).append(s)
    for (f, ln), ss in by_line.items():
        dis, en = per_file_codes.get(f, per_file_codes[""])
        gone = [s for s in ss if s.code is not None and not code_enabled(s.code, dis, en)]
        if not gone:
            continue
        listed = base["all_ignored_lines"].get(f, {}).get(ln)
        already = any(i.line == ln and i.code is not None and i.code.code in ("unused-ignore", "ignore-without-code")
                      for i in emap.get(f, []))
        simple = f == main and listed is not None and len(listed) <= 1 and ln >= 1 and not iwc and not already
        if simple and len(gone) == len(ss):
            if unused_on:
                pr.unused[ln] = 'Unused "type: ignore" comment'
        elif simple:
            pass  # still used
        else:
            for x in set(span_of(ss[0])) | {ln}:
                pr.volatile_by_file.setdefault(f, set()).add(x)  # type: ignore[attr-defined]
    return pr


# --------------------------------------------------------------------------- rendering / comparison


def render(options: Any, ignore_prefix: str | None, keep: dict[str, list[Any]], extra: dict[str, list[Any]]) -> list[str]:
    from mypy.errors import Errors

    e = Errors(options)
    e.ignore_prefix = ignore_prefix
    e.error_info_map = {}
    for f, lst in keep.items():
        both = list(lst) + list(extra.get(f, []))
        if both:
            e.error_info_map[f] = both
    for f, lst in extra.items():
        if f not in keep and lst:
            e.error_info_map[f] = list(lst)
    return e.new_messages()


def unused_info(line: int, message: str) -> Any:
    from mypy import errorcodes as codes
    from mypy.errors import ErrorInfo

    return ErrorInfo(import_ctx=[], local_ctx=(None, None), line=line, column=-1, end_line=line, end_column=-1,
                     severity="error", message=message, code=codes.UNUSED_IGNORE, blocker=False, only_once=False,
                     module="__main__", target="__main__")


def norm_narrower(line: str) -> str:
    return NARROWER_RE.sub(lambda m: "use narrower [" + ", ".join(sorted(x.strip() for x in m.group(1).split(","))) + "] instead of", line)


def split_not_covered(lines: list[str], main_disp: str, at: set[int]) -> tuple[list[str], list[tuple[int, str, str]]]:
    """Remove mypy's 'not covered by type: ignore[...]' notes on the given lines of main; return them
    separately as (line, code, listed)."""
    out, notes = [], []
    for ln in lines:
        m = LOC_RE.match(ln)
        if m and m.group("file") == main_disp and int(m.group("line")) in at and m.group("sev") == "note":
            n = NOT_COVERED_RE.search(ln)
            if n:
                notes.append((int(m.group("line")), n.group("code") or n.group("code2"), n.group("listed") or ""))
                continue
        out.append(ln)
    return out, notes


def drop_unused_at(lines: list[str], main_disp: str, at: set[int]) -> list[str]:
    out = []
    for ln in lines:
        m = LOC_RE.match(ln)
        if m and m.group("file") == main_disp and int(m.group("line")) in at and (UNUSED_RE.search(ln) or IWC_RE.search(ln)):
            continue
        out.append(ln)
    return out


def star_syntax_columns(lines: list[str], main_disp: str, at: set[int]) -> list[str]:
    """A parser error may point at the NEWLINE token of its line, which legitimately moves right when a comment
    is appended: columns of [syntax] diagnostics on annotated lines are not compared."""
    out = []
    for ln in lines:
        m = LOC_RE.match(ln)
        if m and m.group("file") == main_disp and int(m.group("line")) in at and ln.endswith("[syntax]"):
            ln = f"{main_disp}:{m.group('line')}:*: {m.group('sev')}: " + ln[m.end():]
        out.append(ln)
    return out


def shape(line: str) -> str:
    """Cause-level shape of one diagnostic line: severity + code + message with names/numbers abstracted."""
    m = LOC_RE.match(line)
    body = line[m.end():] if m else line
    sev = m.group("sev") if m else "?"
    code = ""
    mc = re.search(r"  \[([a-z0-9-]+)\]$", body)
    if mc:
        code = mc.group(1)
        body = body[: mc.start()]
    body = re.sub(r"; did you mean .*\?$", "; did you mean ...?", body)
    body = re.sub(r'"[^"]*"', '"_"', body)
    body = re.sub(r"\d+", "N", body)
    return f"{sev}[{code}] {body.strip()[:70]}"
