"""C04 parallel lane: kills / failed store writes in the coordinator and in every worker of a
parallel build (controlled default schedule), followed by a sequential warm run that must equal cold.

Uses the C07 machinery: real coordinator in a forked child, real worker subprocesses gated by the
shim, scheduler in mc/c07_ctl.py.  The shim numbers each worker's store operations
(VERIF_OPLOG) and applies the fault plan in VERIF_FAULT; coordinator faults use the StorePlan proxy.
"""

from __future__ import annotations

import json
import os
import shutil
from collections import Counter
from typing import Any

from mc import drivers
from mc.checks import c07
from mc.common import same_diagnostics, scratch
from mc.drivers import StorePlan, build_inproc
from mc.kernel import ExecError, run_isolated


def par_exec(args: tuple) -> dict:
    root, pname, store, n_workers, fault, oplog_dir = args
    from mc import c07_ctl

    u = c07.PROGRAMS[pname]
    ctl_path = os.path.join(root, "ctl.sock")
    ctl = c07_ctl.Controller(ctl_path, [], None)
    c07_ctl.install(ctl)
    spec = c07.base_spec(root, u, "cache", n_workers)
    spec["store"] = store
    env = c07.worker_env(ctl_path)
    env["VERIF_OPLOG"] = oplog_dir
    plan = StorePlan("content")
    if fault and fault.get("w") == "c":
        plan = StorePlan("content", fail=fault.get("fail", ()), kill_before=fault.get("kill_before"),
                         kill_after=fault.get("kill_after"))
    elif fault:
        env["VERIF_FAULT"] = json.dumps(fault)
    spec["plan"] = plan
    spec["worker_env"] = env
    try:
        r = build_inproc(spec)
        return {"messages": r["messages"], "blocker": r["blocker"], "crashed": r.get("crashed"), "oplog": r["oplog"],
                "trace": ctl.trace}
    finally:
        ctl.close()


def read_worker_logs(d: str) -> dict[int, list]:
    out = {}
    for f in sorted(os.listdir(d)):
        if f.startswith("w") and f.endswith(".log"):
            with open(os.path.join(d, f)) as fh:
                out[int(f[1:-4])] = [json.loads(l) for l in fh if l.strip()]
    return out


def _kind(name: str) -> str:
    base = os.path.basename(name)
    for k in ("meta_ex", "meta", "data"):
        if f".{k}." in base:
            return k
    return base.lstrip("@").split(".")[0] or "-"


def _desc(op: list | tuple | None) -> str:
    if op is None:
        return "end"
    return f"{op[1]}({_kind(op[2])})" if op[2] else op[1]


def explore_job(job: dict) -> dict:
    pname, store, n_workers = job["program"], job["store"], job["n"]
    u = c07.PROGRAMS[pname]
    work = scratch("c04p", f"{pname}-{store}-{job['idx']}-{os.getpid()}")
    root = os.path.join(work, "w")
    os.makedirs(root, exist_ok=True)
    vm0 = {p: 0 for p in u.paths()}
    vm = dict(vm0)
    vm.update(job["edit"])
    out: dict[str, Any] = {"fault_runs": 0, "recovery_runs": 0, "violations": [], "samples": [], "herr": [],
                           "ops": {}}

    def seq(vmx: dict, cache: str | None) -> dict:
        drivers.write_tree(root, c07.file_map(u, vmx))
        drivers.install_fixture(root, u.fixture)
        sp = c07.base_spec(root, u, cache, 0)
        sp["store"] = store
        return run_isolated(build_inproc, sp, timeout=600)

    try:
        shutil.rmtree(os.path.join(root, "cache"), ignore_errors=True)
        seq(vm0, "cache")
        snap = os.path.join(work, "snap")
        shutil.copytree(os.path.join(root, "cache"), snap)
        cold = seq(vm, None)
        drivers.write_tree(root, c07.file_map(u, vm))
        drivers.install_fixture(root, u.fixture)
        oplog_dir = os.path.join(work, "oplog")

        def fresh_cache() -> None:
            shutil.rmtree(os.path.join(root, "cache"), ignore_errors=True)
            shutil.copytree(snap, os.path.join(root, "cache"))
            shutil.rmtree(oplog_dir, ignore_errors=True)
            os.makedirs(oplog_dir)

        fresh_cache()
        clean = run_isolated(par_exec, (root, pname, store, n_workers, None, oplog_dir), timeout=600)
    except ExecError as e:
        out["herr"].append(f"setup/clean run failed {job}: {e.kind} {e.info[-400:]}")
        shutil.rmtree(work, ignore_errors=True)
        return out
    eq, _ = same_diagnostics(clean["messages"], cold["messages"])
    if not eq:
        out["herr"].append(f"clean parallel run differs from sequential (decided by C07): {clean['messages'][:2]}")
    logs: dict[Any, list] = {"c": [list(o) for o in (clean["oplog"] or [])]}
    logs.update(read_worker_logs(oplog_dir))
    out["ops"] = {str(k): len(v) for k, v in logs.items()}
    faults: list[tuple[dict, str]] = []
    for who, ops in logs.items():
        for k in range(len(ops)):
            prev = _desc(ops[k - 1]) if k else "start"
            nxt = _desc(ops[k + 1]) if k + 1 < len(ops) else "end"
            role = "coordinator" if who == "c" else "worker"
            faults.append(({"w": who, "kill_before": k}, f"{role}|kill between {prev} and {_desc(ops[k])}"))
            faults.append(({"w": who, "kill_after": k}, f"{role}|kill between {_desc(ops[k])} and {nxt}"))
            if ops[k][1] == "write":
                faults.append(({"w": who, "fail": [k]}, f"{role}|fail:{_desc(ops[k])}"))
    for fault, fdesc in faults:
        try:
            fresh_cache()
            try:
                run_isolated(par_exec, (root, pname, store, n_workers, fault, oplog_dir), timeout=600)
            except ExecError as e:
                if e.kind == "timeout":
                    out["herr"].append(f"faulty run timeout {fdesc}")
                    continue
                # killed coordinator / worker loss => the run aborts: that IS the scenario
            out["fault_runs"] += 1
            rec = seq(vm, "cache")
            out["recovery_runs"] += 1
        except ExecError as e:
            out["violations"].append({"signature": f"parallel|{store}|{fdesc}|recovery-crash",
                                      "what": f"{pname} N={n_workers} {store}: recovery run after {fdesc} crashed: "
                                              f"{e.info.strip().splitlines()[-1][:200] if e.info.strip() else e.kind}",
                                      "detail": {"job": job, "fault": fault, "error": e.info[-2000:]}})
            continue
        eq, _ = same_diagnostics(rec["messages"], cold["messages"])
        if not eq or rec["blocker"] != cold["blocker"] or rec.get("crashed"):
            out["violations"].append({
                "signature": f"parallel|{store}|{fdesc}",
                "what": f"{pname} N={n_workers} {store} edit={job['edit']}: after fault [{fdesc}] ({fault}) the next warm run "
                        f"gives {rec['messages'][:2]} but cold gives {cold['messages'][:2]}",
                "detail": {"job": job, "fault": fault, "got": rec["messages"], "expected": cold["messages"]}})
        if len(out["samples"]) < 1 and fault["w"] != "c" and "kill_before" in fault:
            out["samples"].append({"program": pname, "store": store, "n": n_workers, "edit": job["edit"], "fault": fault,
                                   "fault_desc": fdesc, "oplogs": {str(k): [_desc(o) for o in v] for k, v in logs.items()}})
    shutil.rmtree(work, ignore_errors=True)
    return out


def make_jobs(quick: bool) -> list[dict]:
    jobs = []
    idx = 0
    plan = [("U1", {"tmp/d.py": 1}), ("U1", {"tmp/d.py": 2}), ("U3", {"tmp/b.py": 2})]
    if not quick:
        plan += [("U1", {"tmp/a.py": 1}), ("W6", {"tmp/base.py": 1}), ("D6", {"tmp/m5.py": 1})]
    for pname, edit in plan:
        for store in ("fs", "sqlite"):
            if quick and pname != "U1" and store == "sqlite":
                continue
            idx += 1
            jobs.append({"program": pname, "store": store, "n": 2, "edit": edit, "idx": idx})
    return jobs
