"""C15 helper: operand domains, the oracle, and the evaluation driver.

Run as `python -m mc.c15_driver JOB.json` in a process of its own (it imports the compiled extension,
which may crash).  It never imports mypy.  The reference for every function is THE SAME SOURCE imported
by the interpreter under another module name (mypy_extensions.i64/... are `int()` at run time), i.e.
the operation evaluated by CPython on Python ints / floats / bools.
"""

from __future__ import annotations

import importlib.util
import itertools
import json
import os
import sys
from typing import Any

RANGES = {
    "i64": (-(1 << 63), (1 << 63) - 1),
    "i32": (-(1 << 31), (1 << 31) - 1),
    "i16": (-(1 << 15), (1 << 15) - 1),
    "u8": (0, 255),
}
WIDTH = {"i64": 64, "i32": 32, "i16": 16, "u8": 8}
KS = (7, 8, 15, 16, 31, 32, 62, 63, 64)
SHORT_MIN, SHORT_MAX = -(1 << 62), (1 << 62) - 1  # unboxed ("short") tagged int range on 64-bit


def _order(v: int) -> tuple:
    return (abs(v), v < 0)


KS_THOROUGH = tuple(range(2, 67))


def boundary_set(ks: tuple = KS) -> list[int]:
    s = {0, 1, -1, 2, -2}
    for k in ks:
        for d in (-1, 0, 1):
            s.add((1 << k) + d)
            s.add(-((1 << k) + d))
    return sorted(s, key=_order)


B_CORE = boundary_set()
assert len(B_CORE) == 59
# beyond the stated set: the double-precision boundary 2^53 (and neighbours), and two magnitudes that
# need many digits / overflow a double
BIG = [1 << 100, -(1 << 100), 1 << 1024, -(1 << 1024)]
B = sorted(set(B_CORE) | set(boundary_set((53,))), key=_order) + BIG
S = [0, 1, 2, 7, 8, 31, 32, 62, 63, 64, 65, -1]


def float_set() -> list[float]:
    out: list[float] = []
    seen: set[str] = set()
    cand: list[float] = [0.0, -0.0]
    for b in B_CORE:
        cand.append(float(b))
    cand += [0.5, -0.5, 1.5, -1.5, 2.5, float((1 << 53) - 1), float((1 << 53) + 1), -float((1 << 53) - 1),
             1e308, -1e308, 5e-324, float("inf"), float("-inf"), float("nan")]
    for c in cand:
        r = repr(c)
        if r not in seen:
            seen.add(r)
            out.append(c)
    return out


F = float_set()
DOMAINS: dict[str, list] = {
    "B": B, "S": S, "F": F, "BOOL": [False, True],
    "U8ALL": list(range(256)),
    "I16ALL": sorted(range(-(1 << 15), 1 << 15), key=_order),
}


def domains(wide: bool) -> dict[str, list]:
    """wide=True (thorough tier): every k in 2..66 instead of the nine stated exponents."""
    if not wide:
        return DOMAINS
    d = dict(DOMAINS)
    d["B"] = boundary_set(KS_THOROUGH) + BIG
    return d


# --------------------------------------------------------------------------- value encoding


def enc(v: Any) -> str:
    if isinstance(v, bool):
        return repr(v)
    if isinstance(v, int):
        return hex(v)
    return repr(v)


def dec(s: str) -> Any:
    if s in ("True", "False"):
        return s == "True"
    if s.startswith(("0x", "-0x")):
        return int(s, 16)
    return float(s)


def pretty(s: str) -> str:
    """Human-readable form of an encoded operand (2**k+d notation for big boundary values)."""
    v = dec(s)
    if isinstance(v, (bool, float)):
        return repr(v)
    if abs(v) < 1 << 20:
        return str(v)
    a = abs(v)
    for k in (a.bit_length() - 1, a.bit_length()):
        d = a - (1 << k)
        if abs(d) <= 2:
            body = f"2**{k}" + (f"{d:+d}" if d else "")
            return f"-({body})" if v < 0 else body
    h = hex(v)
    return h if len(h) <= 40 else f"{h[:30]}..({a.bit_length()} bits)"


def canon(v: Any) -> Any:
    """Canonical comparable form: type name + exact value (floats by repr: -0.0 != 0.0, nan == nan)."""
    if isinstance(v, tuple):
        return ("tuple", tuple(canon(x) for x in v))
    if isinstance(v, (float, complex)):
        return (type(v).__name__, repr(v))
    return (type(v).__name__, v)


def outcome(fn: Any, args: tuple) -> tuple:
    try:
        r = fn(*args)
    except Exception as e:  # noqa: BLE001 - every exception type is an outcome
        return ("exc", type(e).__name__)
    return ("val", canon(r))


def show(o: tuple) -> str:
    if o[0] == "exc":
        return "raises " + o[1]

    def one(c: tuple) -> str:
        if c[0] == "tuple":
            return "(" + ", ".join(one(x) for x in c[1]) + ")"
        if c[0] == "int" and abs(c[1]) >= 1 << 70:
            h = hex(c[1])
            return f"int:{h[:24]}..({c[1].bit_length()} bits)"
        return f"{c[0]}:{c[1]}"

    return one(o[1])


# --------------------------------------------------------------------------- operand classes (signatures)


def opclass(v: Any, typ: str) -> str:
    if isinstance(v, float):
        if v != v:
            return "nan"
        if v in (float("inf"), float("-inf")):
            return "inf"
        return "zero" if v == 0 else "finite"
    if typ in RANGES:
        lo, hi = RANGES[typ]
        return "in" if lo <= v <= hi else "out"
    if isinstance(v, bool):
        return "bool"
    return "short" if SHORT_MIN <= v <= SHORT_MAX else "long"


# --------------------------------------------------------------------------- the oracle


# `x >> 64` on an i64 is 0 or -1 in Python (a result that fits the type), so the property statement
# covers it; mypyc emits a plain C shift (count >= width is undefined in C).  Set to False to treat
# fixed-width shifts by >= width as unjudged instead.
JUDGE_SHIFT_COUNT_BEYOND_WIDTH = True


def judge(spec: dict, args: tuple, ref: tuple, got: tuple) -> tuple[str, str | None]:
    """Transcription of the property statement.  Returns (status, kind):

    status "ok"        the compiled function did what the property demands
           "free"      the property demands nothing here (signed fixed-width result that does not fit,
                       float -> fixed-width out of range, ...): anything but a crash is accepted
           "bad"       violation; kind names the disagreement
    """
    # 1. converting an int to a fixed-width type is rejected exactly when it is out of range
    for v, t in zip(args, spec["req"]):
        if t is not None and not isinstance(v, float):
            lo, hi = RANGES[t]
            if not lo <= v <= hi:
                return ("ok", None) if got[0] == "exc" else ("bad", "out-of-range-int-not-rejected")
    if spec["count"] is not None and not JUDGE_SHIFT_COUNT_BEYOND_WIDTH:
        if args[spec["count"]] >= WIDTH[next(x for x in spec["req"] if x)]:
            return ("free", None)
    conv = spec.get("conv")
    if conv and ref[0] == "val":
        # chain ending in a conversion of the (exact, int) intermediate value to a fixed-width type
        lo, hi = RANGES[conv]
        if not lo <= ref[1][1] <= hi:
            return ("ok", None) if got[0] == "exc" else ("bad", "out-of-range-int-not-rejected")
    fixed_involved = any(t in RANGES for t in spec["ptypes"]) or spec["ret"] in RANGES or any(spec["req"])
    # 2. the reference raises
    if ref[0] == "exc":
        if not fixed_involved or ref[1] == "ZeroDivisionError":
            if got == ref:
                return ("ok", None)
            return ("bad", "exception-type" if got[0] == "exc" else "exception-missing")
        return ("free", None)  # e.g. negative shift count on i64, i64(float('nan'))
    # 3. the reference returns a value
    rt = spec["ret"]
    if rt in RANGES:
        exact = ref[1][1]
        lo, hi = RANGES[rt]
        if not lo <= exact <= hi:
            if spec["wrap"]:
                want = ("val", ("int", exact % 256))
                if got == want:
                    return ("ok", None)
                return ("bad", "u8-not-modulo-256")
            return ("free", None)
    if got == ref:
        return ("ok", None)
    if got[0] == "exc":
        return ("bad", "exception-unexpected")
    if got[1][0] != ref[1][0]:
        return ("bad", "result-type")
    return ("bad", "value")


def nontrivial(spec: dict, args: tuple, ref: tuple) -> bool:
    """A case is non-trivial iff it leaves the unboxed fast path or the happy path: an operand or the
    exact result is outside the short tagged range / at or beyond the limits of its fixed-width type,
    or the reference raises, or a float operand/result is not a finite non-zero number."""
    if ref[0] == "exc":
        return True
    vals = list(args)
    r = ref[1]
    vals.extend(x[1] for x in r[1]) if r[0] == "tuple" else vals.append(r[1])
    rng = None
    for t in list(spec["ptypes"]) + [spec["ret"]]:
        if t in RANGES:
            rng = RANGES[t]
    for v in vals:
        if isinstance(v, str):  # canonical float
            if v in ("nan", "inf", "-inf", "0.0", "-0.0"):
                return True
        elif isinstance(v, float):
            if v != v or v in (float("inf"), float("-inf")) or v == 0:
                return True
        elif isinstance(v, int) and not isinstance(v, bool):
            if rng is not None:
                if not rng[0] < v < rng[1]:
                    return True
            elif not SHORT_MIN < v < SHORT_MAX:
                return True
    return False


def signature(spec: dict, args: tuple, kind: str) -> str:
    """Cause-level identity: operator family + operand static types + coarse operand classes + kind."""
    fam, lit = spec["fam"], spec["lit"]
    if spec.get("chain"):
        ops = args[: spec["prod_arity"]]
        boundary_reject = any(t is not None and not isinstance(v, float) and not RANGES[t][0] <= v <= RANGES[t][1]
                              for v, t in zip(args, spec["req"]))
        if kind == "out-of-range-int-not-rejected" and not boundary_reject:
            return f"convert-int-to-{spec['conv']}|{kind}"
        # the cause is (almost always) the producer's result or its representation, whichever compiled
        # consumer observes it: one signature per producer and operand classes
        cls = ["float" if isinstance(v, float) else opclass(v, spec["req"][i] or spec["ptypes"][i])
               for i, v in enumerate(ops)]
        return f"chain|{spec['prod']}|{','.join(spec['ptypes'][:len(ops)])}|{','.join(cls)}"
    if kind == "out-of-range-int-not-rejected":
        # one cause per target type, whatever operation performs the (explicit/implicit) conversion
        for v, t in zip(args, spec["req"]):
            if t is not None and not isinstance(v, float) and not RANGES[t][0] <= v <= RANGES[t][1]:
                return f"convert-int-to-{t}|{kind}"
    types = list(spec["ptypes"])
    cls = []
    for i, (v, t) in enumerate(zip(args, spec["ptypes"])):
        c = "float" if isinstance(v, float) else opclass(v, spec["req"][i] or t)
        if spec["count"] == i:
            ft = next(x for x in spec["req"] if x)
            if v >= WIDTH[ft]:
                # C shift semantics for counts >= the width: one cause per fixed-width type
                return f"shift-count>=width|{ft}"
            c = "count<0" if v < 0 else "count<width"
        cls.append(c)
    if lit == "left":
        types.insert(0, "lit")
    elif lit == "right":
        types.append("lit")
    return f"{fam}|{','.join(types)}|{','.join(cls)}|{kind}"


# --------------------------------------------------------------------------- driver


C3_STATIC = [0, 1, -1, 1 << 62, -(1 << 62), (1 << 62) - 1]


def cases(spec: dict, extra_full: bool, wide: bool = False, ref: Any = None) -> list[tuple]:
    D = domains(wide)
    if "C3" in spec["doms"]:
        # chain with a third operand: a small fixed set plus, per operand tuple, the exact intermediate
        # value r (computed by the interpreter) and r + 1
        assert spec["doms"][-1] == "C3" and ref is not None
        prod = getattr(ref, spec["prod_ref"])
        out = []
        for xy in itertools.product(*[D[d] for d in spec["doms"][:-1]]):
            cs = list(C3_STATIC)
            try:
                r = prod(*xy)
            except Exception:  # noqa: BLE001
                r = None
            if r is not None:
                cs += [c for c in (r, r + 1) if c not in cs]
            out.extend(xy + (c,) for c in cs)
        return out
    doms = [D[d] for d in spec["doms"]]
    out = list(itertools.product(*doms))
    if extra_full:
        # whole-domain enumeration for the two narrow types (in addition to the boundary pairs)
        pt = spec["ptypes"]
        if pt in (["u8", "u8"], ["u8"]):
            full = [D["S"] if d == "S" else D["U8ALL"] for d in spec["doms"]]
            seen = set(out)
            out += [c for c in itertools.product(*full) if c not in seen]
        elif pt == ["i16"] and spec["doms"] == ["B"]:
            seen = set(out)
            out += [c for c in itertools.product(D["I16ALL"]) if c not in seen]
    return out


def n_cases(spec: dict, extra_full: bool, wide: bool = False) -> int:
    """Number of cases (an upper estimate for chains with a third operand); used to balance chunks."""
    if "C3" in spec["doms"]:
        D = domains(wide)
        n = len(C3_STATIC) + 2
        for d in spec["doms"][:-1]:
            n *= len(D[d])
        return n
    return len(cases(spec, extra_full, wide))


def load(path: str, name: str) -> Any:
    spec = importlib.util.spec_from_file_location(name, path)
    assert spec and spec.loader
    mod = importlib.util.module_from_spec(spec)
    spec.loader.exec_module(mod)
    return mod


def load_pair(build_dir: str, modname: str, refname: str) -> tuple[Any, Any]:
    so = [n for n in os.listdir(build_dir) if n.startswith(modname + ".") and n.endswith(".so")]
    assert len(so) == 1, so
    sys.path.insert(0, build_dir)
    comp = importlib.import_module(modname)
    assert comp.__file__ and comp.__file__.endswith(".so"), comp.__file__
    ref = load(os.path.join(build_dir, modname + ".py"), refname)
    return comp, ref


def run_job(job: dict) -> dict:
    comp, ref = load_pair(job["build_dir"], job["modname"], job["refname"])
    pfd = os.open(job["progress"], os.O_WRONLY | os.O_CREAT, 0o600)
    trace = job.get("trace", False)
    afd = os.open(job["progress"] + ".args", os.O_WRONLY | os.O_CREAT, 0o600) if trace else -1
    cap = job.get("max_mismatches", 6)
    res: dict[str, Any] = {}
    for spec in job["specs"]:
        name = spec["name"]
        os.pwrite(pfd, (name + " -1").ljust(120).encode(), 0)
        f_c, f_r = getattr(comp, name), getattr(ref, name)
        if "explicit" in job:
            cs = [tuple(dec(a) for a in c) for c in job["explicit"][name]]
        else:
            cs = cases(spec, job.get("extra_full", False), job.get("wide", False), ref)
        prod = getattr(ref, spec["prod_ref"]) if spec.get("chain") else None
        n = nt = free = n_exc = mixed = renorm = 0
        outcomes: set = set()
        bad: dict[str, dict] = {}
        nbad = 0
        first = None
        for i, args in enumerate(cs):
            if trace:
                # the operands themselves (chains have per-tuple third operands), then the index
                data = json.dumps([enc(a) for a in args]).encode()
                os.ftruncate(afd, 0)
                os.pwrite(afd, data, 0)
                os.pwrite(pfd, f"{name} {i}".ljust(120).encode(), 0)
            r = outcome(f_r, args)
            g = outcome(f_c, args)
            n += 1
            st, kind = judge(spec, args, r, g)
            if st == "free":
                free += 1
            elif st == "bad":
                nbad += 1
                sig = signature(spec, args, kind or "")
                b = bad.get(sig)
                if b is None:
                    if len(bad) < cap:
                        bad[sig] = {"signature": sig, "args": [enc(a) for a in args], "reference": show(r),
                                    "compiled": show(g), "kind": kind, "count": 1}
                else:
                    b["count"] += 1
            if g[0] == "exc":
                n_exc += 1
            if nontrivial(spec, args, r):
                nt += 1
            if len(args) == 2 and spec["ptypes"] == ["int", "int"]:
                if (SHORT_MIN <= args[0] <= SHORT_MAX) != (SHORT_MIN <= args[1] <= SHORT_MAX):
                    mixed += 1
            if prod is not None:
                # chain whose intermediate value fits a short int although an operand is a heap int:
                # the producer must normalise the representation for the compiled consumer
                ops = args[:spec["prod_arity"]]
                if any(isinstance(a, int) and not SHORT_MIN <= a <= SHORT_MAX for a in ops):
                    try:
                        iv = prod(*ops)
                    except Exception:  # noqa: BLE001
                        iv = None
                    if iv is not None and SHORT_MIN <= iv <= SHORT_MAX:
                        renorm += 1
            if len(outcomes) < 64:
                outcomes.add(g if g[0] == "exc" else ("val", g[1][0]))
            if (first is None and len(args) == 2 and g[0] == "val" and nontrivial(spec, args, r)
                    and all(not isinstance(a, bool) and abs(a) > 2 for a in args)):
                first = {"function": name, "args": [pretty(enc(a)) for a in args], "compiled": show(g),
                         "reference": show(r)}
        res[name] = {"n": n, "nontrivial": nt, "free": free, "exceptions": n_exc, "bad": nbad, "mixed": mixed, "renorm": renorm,
                     "mismatches": list(bad.values()),
                     "outcomes": sorted(o[1] if o[0] == "exc" else "value:" + o[1] for o in outcomes),
                     "sample": first}
    os.pwrite(pfd, "DONE -1".ljust(120).encode(), 0)
    os.close(pfd)
    if afd >= 0:
        os.close(afd)
    return res


def main() -> None:
    with open(sys.argv[1]) as f:
        job = json.load(f)
    res = run_job(job)
    with open(job["out"] + ".tmp", "w") as f:
        json.dump(res, f)
    os.replace(job["out"] + ".tmp", job["out"])


if __name__ == "__main__":
    main()
