"""C14 space (b): a syntax grammar enumerated to depth 2, and space (c): single-token corruptions.

Every generator here is a finite, deterministic enumeration (no sampling).  A candidate text belongs to space
(b) iff CPython's own parser (`ast.parse` of the running interpreter) accepts it: CPython is the reference for
"syntactically valid"; syntax newer than the running interpreter is left out (the default parser documents
that it cannot parse it: "you likely need to run mypy using Python 3.x or newer").

Holes are written $0, $1, $2 ($ is not a Python token).  Unfilled holes of a form take the atoms a, b, c
(the prelude declares `a: int`, `c: Any`, leaves `b` undefined, so every program yields diagnostics on leaves
and on composite nodes).
"""

from __future__ import annotations

import ast
import io
import re
import tokenize
import warnings
from typing import Iterator

PRELUDE = "import types\nfrom typing import Any, Callable, Literal, Optional, Union, cast\na: int\nc: Any\n"
ATOMS = ("a", "b", "c")

BINOPS = ["+", "-", "*", "/", "//", "%", "**", "@", "<<", ">>", "&", "|", "^"]
CMPOPS = ["==", "!=", "<", "<=", ">", ">=", "is", "is not", "in", "not in"]

# --------------------------------------------------------------------------- expression forms

EXPRS: list[tuple[str, str]] = [
    ("name", "a"), ("undefined", "b"), ("int", "1"), ("hex", "0x_ff"), ("float", "1.5"), ("complex", "2j"),
    ("str", "'s'"), ("bytes", "b's'"), ("raw", "r'\\d'"), ("triple", '"""s"""'), ("concat", "'s' 't'"),
    ("true", "True"), ("none", "None"), ("ellipsis", "..."),
    ("neg", "-$0"), ("pos", "+$0"), ("inv", "~$0"), ("not", "not $0"), ("negneg", "- -$0"),
]
EXPRS += [(f"bin{op}", f"$0 {op} $1") for op in BINOPS]
EXPRS += [("binchain", "$0 + $1 * $2"), ("binparen", "($0 + $1) * $2")]
EXPRS += [("and", "$0 and $1"), ("or", "$0 or $1"), ("and3", "$0 and $1 and $2"), ("andor", "$0 and $1 or $2")]
EXPRS += [(f"cmp {op}", f"$0 {op} $1") for op in CMPOPS]
EXPRS += [
    ("cmpchain", "$0 < $1 <= $2"), ("cmpchain-in", "$0 in $1 not in $2"),
    ("call0", "$0()"), ("call1", "$0($1)"), ("call2", "$0($1, $2)"), ("callkw", "$0($1, k=$2)"),
    ("callstar", "$0(*$1)"), ("callstar2", "$0(**$1)"), ("callmix", "$0($1, *$2, k=1, **$1)"),
    ("callkwstar", "$0(k=$1, *$2)"), ("calltrail", "$0($1,)"), ("callgen", "$0(x for x in $1)"),
    ("callcall", "$0($1)($2)"), ("callmultiline", "$0(\n    $1,\n    $2,\n)"),
    ("attr", "$0.x"), ("attr2", "$0.x.y"), ("attrcall", "$0.x($1)"), ("index", "$0[$1]"), ("slice", "$0[$1:$2]"),
    ("slice3", "$0[$1:$2:$1]"), ("sliceopen", "$0[:]"), ("slicelo", "$0[$1:]"), ("slicehi", "$0[:$1]"),
    ("slicestep", "$0[::$1]"), ("indextuple", "$0[$1, $2]"), ("indexslices", "$0[$1:$2, $1]"),
    ("indexstar", "$0[*$1]"), ("indexellipsis", "$0[..., $1]"),
    ("lambda0", "lambda: $0"), ("lambda1", "lambda x: $0"), ("lambdadef", "lambda x=$0: $1"),
    ("lambdafull", "lambda x, /, y=$0, *z, w, v=$1, **k: $2"), ("lambdastar", "lambda *, k: $0"),
    ("cond", "$0 if $1 else $2"), ("condnest", "$0 if $1 else $2 if $0 else $1"),
    ("list0", "[]"), ("list1", "[$0]"), ("list2", "[$0, $1]"), ("liststar", "[$0, *$1]"), ("listtrail", "[$0,]"),
    ("tuple0", "()"), ("tuple1", "($0,)"), ("tuple2", "($0, $1)"), ("tuplebare", "$0, $1"), ("tuplestar", "(*$0, $1)"),
    ("set1", "{$0}"), ("setstar", "{$0, *$1}"), ("dict0", "{}"), ("dict1", "{$0: $1}"), ("dictstar", "{$0: $1, **$2}"),
    ("dict2", "{$0: $1, $1: $0}"), ("paren", "($0)"), ("parenparen", "(($0))"), ("parenmultiline", "(\n    $0\n)"),
    ("listcomp", "[$0 for x in $1]"), ("listcompif", "[$0 for x in $1 if $2]"), ("listcompifif", "[x for x in $0 if $1 if $2]"),
    ("listcomp2", "[$0 for x in $1 for y in $2]"), ("setcomp", "{$0 for x in $1}"), ("dictcomp", "{$0: $1 for x in $2}"),
    ("genexp", "($0 for x in $1)"), ("asynccomp", "[$0 async for x in $1]"), ("comptuple", "[$0 for x, y in $1]"),
    ("compstar", "[$0 for x, *y in $1]"), ("compawait", "[await $0 for x in $1]"), ("compcond", "[x for x in $0 if $1 else $2]"),
    ("yield0", "(yield)"), ("yield", "(yield $0)"), ("yieldtuple", "(yield $0, $1)"), ("yieldfrom", "(yield from $0)"),
    ("await", "await $0"), ("awaitparen", "(await $0)"), ("walrus", "(x := $0)"), ("starred", "*$0"),
    ("fstr", "f'{$0}'"), ("fstrconv", "f'{$0!r}'"), ("fstrspec", "f'{$0:>10}'"), ("fstrconvspec", "f'{$0!s:^{$1}}'"),
    ("fstrnestspec", "f'{$0:{$1}.{$2}}'"), ("fstreq", "f'{$0=}'"), ("fstreqspec", "f'{$0 = !r:10}'"),
    ("fstrtext", "f'a{$0}b{$1}c'"), ("fstrnested", "f'{f\"{$0}\"}'"), ("fstrnested3", "f'{f\"{f'{$0}'}\"}'"),
    ("fstrtriple", 'f"""{$0}\n{$1}"""'), ("fstrtripleexpr", 'f"""{\n$0\n}"""'), ("fstrconcat", "'s' f'{$0}' 't'"),
    ("fstrconcat2", "f'{$0}' f'{$1}'"), ("fstrbraces", "f'{{{$0}}}'"), ("fstrsamequote", "f'{$0['k']}'"),
    ("fstrspaces", "f'{ $0 }'"), ("fstrraw", "rf'\\d{$0}'"), ("fstrlambda", "f'{(lambda: $0)()}'"), ("fstrempty", "f''"),
    ("fstrdict", "f'{ {$0: $1} }'"), ("fstrcomment", "f'''{\n$0  # comment\n}'''"), ("fstrbackslash", "f'{$0}\\n{$1}'"),
]

# --------------------------------------------------------------------------- statement forms

STMTS: list[tuple[str, str]] = [
    ("expr", "$0"), ("assign", "x = $0"), ("assign-target", "$0 = $1"), ("assign-multi", "x = y = $0"),
    ("assign-unpack", "x, y = $0"), ("assign-star", "x, *y = $0"), ("assign-nested", "(x, [y, z]) = $0"),
    ("assign-attr", "$0.x = $1"), ("assign-index", "$0[$1] = $2"), ("assign-slice", "$0[$1:$2] = $0"),
    ("ann", "x: $0"), ("ann-value", "x: $0 = $1"), ("ann-attr", "$0.x: $1 = $2"), ("ann-paren", "(x): $0 = $1"),
]
STMTS += [(f"aug{op}=", f"x {op}= $0") for op in BINOPS]
STMTS += [
    ("aug-attr", "$0.x += $1"), ("aug-index", "$0[$1] += $2"),
    ("del", "del $0"), ("del-multi", "del x, $0"), ("del-index", "del $0[$1]"), ("pass", "pass"),
    ("assert", "assert $0"), ("assert-msg", "assert $0, $1"), ("raise0", "raise"), ("raise", "raise $0"),
    ("raise-from", "raise $0 from $1"), ("return-top", "return $0"),
    ("global", "def f():\n    global x\n    x = $0"), ("nonlocal", "def f():\n    x = $0\n    def g():\n        nonlocal x\n        x = $1"),
    ("import", "import m"), ("import-as", "import m.n as o, p"), ("from", "from m import x, y as z"),
    ("from-star", "from m import *"), ("from-rel", "from . import x"), ("from-rel2", "from ..m import (x,\n    y)"),
    ("if", "if $0:\n    pass"), ("if-else", "if $0:\n    $1\nelse:\n    $2"),
    ("if-elif", "if $0:\n    pass\nelif $1:\n    pass\nelif $2:\n    pass\nelse:\n    pass"), ("if-oneline", "if $0: $1"),
    ("if-nested-else", "if $0:\n    pass\nelse:\n    if $1:\n        pass"),
    ("while", "while $0:\n    pass"), ("while-else", "while $0:\n    break\nelse:\n    $1"),
    ("while-continue", "while $0:\n    if $1:\n        continue\n    $2"),
    ("for", "for x in $0:\n    pass"), ("for-target", "for $0 in $1:\n    pass"), ("for-else", "for x in $0:\n    $1\nelse:\n    $2"),
    ("for-tuple", "for x, y in $0:\n    pass"), ("for-star", "for x, *y in $0:\n    pass"), ("for-bare-tuple", "for x in $0, $1:\n    pass"),
    ("try", "try:\n    $0\nexcept $1:\n    pass"), ("try-as", "try:\n    pass\nexcept $0 as e:\n    $1"),
    ("try-multi", "try:\n    pass\nexcept ($0, $1) as e:\n    pass\nexcept $2:\n    pass"),
    ("try-finally", "try:\n    $0\nfinally:\n    $1"), ("try-else", "try:\n    pass\nexcept:\n    $0\nelse:\n    $1\nfinally:\n    $2"),
    ("try-star", "try:\n    pass\nexcept* $0:\n    pass"), ("try-star-as", "try:\n    pass\nexcept* $0 as e:\n    $1"),
    ("with", "with $0:\n    pass"), ("with-as", "with $0 as x:\n    $1"), ("with2", "with $0 as x, $1 as y:\n    pass"),
    ("with-paren", "with ($0 as x, $1 as y):\n    pass"), ("with-paren-trail", "with (\n    $0 as x,\n    $1,\n):\n    pass"),
    ("with-target", "with $0 as (x, y):\n    pass"), ("with-target-attr", "with $0 as $1.x:\n    pass"),
    ("def", "def f(x, y=$0):\n    return $1"), ("def-ann", "def f(x: $0, y: $1 = $2) -> $0:\n    pass"),
    ("def-all", "def f(p, /, q, *r, s=$0, t, **u):\n    return $1"), ("def-kwonly", "def f(*, k: int = $0) -> None:\n    $1"),
    ("def-star-ann", "def f(*args: $0, **kw: $1) -> $2:\n    pass"), ("def-oneline", "def f(): return $0"),
    ("def-nested", "def f():\n    def g(x=$0):\n        return $1\n    return g"), ("def-doc", "def f():\n    'doc'\n    return $0"),
    ("def-multiline", "def f(\n    x: int,\n    y: str = $0,\n) -> None:\n    $1"), ("def-ellipsis", "def f(x: int = ...) -> int: ..."),
    ("def-deco", "@$0\ndef f():\n    pass"), ("def-deco2", "@$0\n@$1\ndef f(x):\n    return $2"),
    ("def-deco-call", "@$0($1)\ndef f():\n    pass"), ("def-implicit-optional", "def f(x: int = None, *, y: str = None) -> None:\n    $0"),
    ("class", "class C($0):\n    pass"), ("class-kw", "class C($0, metaclass=$1):\n    pass"), ("class-bases", "class C($0, $1, k=$2):\n    pass"),
    ("class-star", "class C(*$0, **$1):\n    pass"), ("class-deco", "@$0\nclass C:\n    x = $1"),
    ("class-body", "class C:\n    x = $0\n    y: int = $1\n    def m(self):\n        return $2"),
    ("class-nested", "class C:\n    class D:\n        x = $0"), ("class-empty-parens", "class C():\n    $0"),
    ("class-methods", "class C:\n    @staticmethod\n    def s(x=$0): pass\n    @classmethod\n    def c(cls): return $1\n    @property\n    def p(self): return $2"),
    ("async-def", "async def f():\n    $0"), ("async-return", "async def f(x=$0):\n    return $1"),
    ("async-for", "async def f():\n    async for x in $0:\n        $1\n    else:\n        $2"),
    ("async-with", "async def f():\n    async with $0 as x, $1:\n        $2"), ("async-await", "async def f():\n    x = await $0"),
    ("async-gen", "async def f():\n    yield $0"), ("async-comp", "async def f():\n    return [$0 async for x in $1 if await $2]"),
    ("async-deco", "@$0\nasync def f():\n    await $1"), ("async-for-top", "async for x in $0:\n    pass"),
    ("async-with-top", "async with $0:\n    pass"), ("async-method", "class C:\n    async def m(self):\n        await $0"),
    ("gen", "def f():\n    yield $0"), ("gen-assign", "def f():\n    x = yield $0"), ("gen-from", "def f():\n    x = yield from $0\n    return $1"),
    ("gen-bare", "def f():\n    yield"), ("gen-aug", "def f():\n    x += yield $0"),
    ("match", "match $0:\n    case x:\n        $1"), ("match-guard", "match $0:\n    case x if $1:\n        $2"),
    ("match-multi", "match $0:\n    case 1:\n        $1\n    case _:\n        $2"), ("match-tuple-subject", "match $0, $1:\n    case _:\n        pass"),
    ("match-soft-kw", "match = $0\ncase = $1\nmatch[$2]"), ("type-soft-kw", "type = $0\ntype(type)"),
    ("type-alias", "type A = $0"), ("type-alias-generic", "type A[T] = $0"), ("type-alias-bound", "type A[T: $0, *Ts, **P] = $1"),
    ("def695", "def f[T](x: T) -> $0:\n    return $1"), ("def695-bound", "def f[T: $0](x: T) -> T:\n    return x"),
    ("def695-constraints", "def f[T: ($0, $1)](x: T) -> T:\n    return x"), ("def695-variadic", "def f[*Ts, **P](*args: *Ts) -> $0:\n    pass"),
    ("class695", "class C[T]($0):\n    x: T"), ("class695-bound", "class C[T: $0, U: ($1, $2)]:\n    pass"),
    ("method695", "class C[T]:\n    def m[U](self, x: T, y: U) -> $0:\n        return $1"), ("async695", "async def f[T](x: T) -> T:\n    return await $0"),
    ("semi", "x = $0; y = $1"), ("semi-trail", "x = $0;"), ("semi-block", "if $0: x = $1; y = $2"),
    ("nested-blocks", "if a:\n    for x in $0:\n        while $1:\n            with $2:\n                pass"),
    ("dedent2", "if a:\n    if c:\n        $0\n$1"), ("comment-lines", "# c\nif $0:  # c\n    # c\n    $1  # c\n# c"),
    ("blank-lines", "if $0:\n\n    $1\n\n\n    $2\n"), ("docstring", "'''doc\nstring'''\n$0"),
    ("ignore", "x: int = $0  # type: ignore"), ("ignore-code", "x: int = $0  # type: ignore[assignment]"),
    ("ignore-multiline", "x: int = f(\n    $0,  # type: ignore\n    $1)"), ("ignore-top", "# type: ignore\n$0"),
    ("ignore-def", "def f(x: int = $0,  # type: ignore\n      y: int = $1) -> None: pass"),
    ("version-check", "import sys\nif sys.version_info >= (3, 10):\n    x = $0\nelse:\n    x = $1"),
    ("platform-check", "import sys\nif sys.platform == 'win32':\n    $0\nelse:\n    $1"),
    ("type-checking", "from typing import TYPE_CHECKING\nif TYPE_CHECKING:\n    x = $0\nelse:\n    x = $1"),
    ("assert-version", "import sys\nassert sys.version_info >= (3, 99)\n$0"), ("while-true", "while True:\n    $0\n$1"),
    ("overload", "from typing import overload\n@overload\ndef f(x: int) -> int: ...\n@overload\ndef f(x: str) -> str: ...\ndef f(x=$0): return $1"),
    ("cond-overload", "from typing import overload\nimport sys\nif sys.version_info >= (3, 10):\n    @overload\n    def f(x: int) -> int: ...\n@overload\ndef f(x: str) -> str: ...\ndef f(x): return $0"),
    ("property-setter", "class C:\n    @property\n    def p(self): return $0\n    @p.setter\n    def p(self, v): $1"),
    ("redefinition", "def f(): return $0\ndef f(): return $1"), ("cond-def", "if $0:\n    def f(): pass\nelse:\n    def f(): pass"),
    ("dunder-all", "__all__ = ['x'] + $0"), ("mypy-comment", "# mypy: disallow-any-expr\nx = $0"),
    ("mypy-comment-optional", "# mypy: implicit-optional\ndef f(x: int = None) -> None:\n    $0"),
    ("named-tuple", "from typing import NamedTuple\nclass N(NamedTuple):\n    x: $0\n    y: int = $1"),
    ("slots", "class C:\n    __slots__ = ($0, $1)"), ("lambda-stmt", "f = lambda x, y=$0: $1"),
    ("star-expr-stmt", "*$0, = $1"), ("return-star", "def f():\n    return *$0, $1"), ("print-chevron", "print >> $0, $1"),
]

# --------------------------------------------------------------------------- match patterns

PATTERNS: list[tuple[str, str]] = [
    ("capture", "x"), ("wild", "_"), ("int", "1"), ("neg", "-1"), ("float", "1.5"), ("complex", "1+2j"), ("str", "'s'"),
    ("strconcat", "'s' 't'"), ("bytes", "b's'"), ("none", "None"), ("true", "True"), ("value", "a.b"), ("value2", "a.b.c"),
    ("group", "($0)"), ("seq", "[$0, $1]"), ("seq0", "[]"), ("seq1", "[$0]"), ("seqparen", "($0, $1)"), ("seqparen1", "($0,)"),
    ("seqbare", "$0, $1"), ("star", "[$0, *rest]"), ("starmid", "[$0, *rest, $1]"), ("starwild", "[*_]"), ("starbare", "*rest, $0"),
    ("map0", "{}"), ("map", "{'k': $0}"), ("map2", "{'k': $0, 1: $1}"), ("maprest", "{'k': $0, **rest}"), ("mapvalue", "{a.b: $0}"),
    ("class0", "C()"), ("classpos", "C($0)"), ("classpos2", "C($0, $1)"), ("classkw", "C(k=$0)"), ("classmix", "C($0, k=$1)"),
    ("classdotted", "m.C($0)"), ("classtrail", "C($0,)"), ("or", "$0 | $1"), ("or3", "$0 | $1 | $0"), ("as", "$0 as y"),
    ("builtin", "int($0)"), ("builtin0", "str()"),
]
PATTERN_ATOMS = ("x", "1", "_")
PATTERN_CARRIERS = [
    ("case", "match a:\n    case $P:\n        pass"),
    ("case-guard", "match a:\n    case $P if c:\n        x"),
    ("case-2", "match c:\n    case 0:\n        pass\n    case $P:\n        reveal_type(c)\n    case _:\n        pass"),
]

# --------------------------------------------------------------------------- type expressions x annotation positions

TYPES: list[str] = [
    "int", "list[int]", "int | None", "None | int | str", "'int'", "'list[int]'", "\"int | 'str'\"", "list['int']",
    "Callable[[int], str]", "Callable[..., int]", "Callable[[], None]", "tuple[int, ...]", "tuple[()]", "tuple[int, str]",
    "Literal['x']", "Literal[1, -1]", "Literal[True, None]", "Literal['a', b'b']", "Optional[int]", "Union[int, str]",
    "type[int]", "None", "Any", "'C'", "dict[str, list[int]]", "list[list[list[int]]]", "m.T", "a.b.c[int]", "a",
    "b", "1", "-1", "1.5", "'not a type!'", "''", "f()", "a + b", "[int]", "(int, str)", "{int}", "{}", "lambda: int", "int if a else str",
    "not int", "*int", "*tuple[int, ...]", "list[int][0]", "Callable[[int, str], None] | None", "'Callable[[int], str]'",
    "list[int, str]", "int[str]", "...", "Literal[1 + 2]", "Literal[int]", "list[...]", "(x := int)",
    "r'int'", "'''int'''", "'in' 't'", "f'int'", "b'int'", "'int' | None", "list[\n    int\n]", "'list[\\n int]'", "' int '",
    "'int # c'", "int.__class__", "Callable[[Arg(int, 'x')], int]", "Callable[[VarArg(int), KwArg(str)], int]",
    "Callable[[DefaultArg(int, 'y')], int]", "Callable[[Arg(b, 'x')], b]", "Callable[int, str]", "Callable[[int]]",
]
ANNOTATION_POSITIONS: list[tuple[str, str]] = [
    ("var", "x: $T"), ("var-value", "x: $T = 1"), ("arg", "def f(x: $T): pass"), ("arg-default", "def f(x: $T = None): pass"),
    ("star-arg", "def f(*args: $T, **kw: $T): pass"), ("return", "def f() -> $T: pass"), ("return-multiline", "def f(\n) -> $T:\n    pass"),
    ("kwonly", "def f(*, k: $T): pass"), ("method", "class C:\n    def m(self, x: $T) -> $T: pass"), ("attr", "class C:\n    x: $T"),
    ("self-attr", "class C:\n    def m(self) -> None:\n        self.x: $T = 1"), ("cast", "cast($T, 1)"), ("alias", "X = $T"),
    ("type-stmt", "type X = $T"), ("base", "class C(list[$T]): pass"), ("bound", "def f[T: $T](x: T): pass"),
    ("nested", "x: list[$T]"), ("union-left", "x: $T | None"), ("typevar-bound", "from typing import TypeVar\nT = TypeVar('T', bound=$T)"),
    ("namedtuple", "from typing import NamedTuple\nclass N(NamedTuple):\n    x: $T"), ("lambda-none", "f: Callable[[$T], $T] = lambda x: x"),
    ("async-return", "async def f() -> $T: pass"), ("index-expr", "x = list[$T]()"), ("isinstance", "isinstance(a, $T)"),
    ("string-whole", "x: \"$T\""), ("for-ann", "x: $T\nfor x in c: pass"), ("indent", "if a:\n        x: $T"),
]

# --------------------------------------------------------------------------- enumeration


def fill(template: str, values: dict[int, str]) -> str:
    return re.sub(r"\$(\d)", lambda m: values.get(int(m.group(1)), ATOMS[int(m.group(1)) % 3]), template)


def holes(template: str) -> list[int]:
    return sorted({int(x) for x in re.findall(r"\$(\d)", template)})


def cpython_accepts(text: str) -> bool:
    try:
        with warnings.catch_warnings():
            warnings.simplefilter("ignore")
            ast.parse(text)
        return True
    except (SyntaxError, ValueError, RecursionError, MemoryError):
        return False


# Representatives (one form per syntactic class).  The quick tier enumerates the products in which at least one
# factor is a representative; the thorough tier enumerates the full products.
REP_EXPRS = {
    "name", "undefined", "int", "str", "concat", "neg", "not", "bin+", "bin**", "and", "cmp <", "cmp is not", "cmpchain",
    "call1", "callmix", "callgen", "attr", "index", "slice", "indextuple", "lambda1", "lambdafull", "cond", "list2", "liststar",
    "tuple2", "tuplebare", "dict1", "dictstar", "paren", "listcomp", "genexp", "dictcomp", "yield", "yieldfrom", "await", "walrus",
    "starred", "fstr", "fstrnestspec", "fstrnested", "fstrtriple",
}
REP_STMTS = {"expr", "assign", "ann-value", "aug+=", "if", "for-target", "with-as", "def-ann", "class", "async-await",
             "match-guard", "type-alias", "lambda-stmt", "gen-from"}
REP_PATTERNS = {"capture", "int", "value", "seq", "star", "maprest", "classmix", "or", "as", "group"}
QUICK_FULL_OUTER = {"fstr", "call1", "index", "lambda1", "cond", "listcomp"}  # quick: these outer forms x every inner form
QUICK_FULL_INNER = {"fstr", "call1", "lambda1", "cond", "yield", "walrus"}  # quick: every outer form x these inner forms
QUICK_GAP_LAYOUTS = ("backslash-after-", "newline-after-", "parens-around-")

# Forms that are only legal inside a function body: mypy's semantic analyzer rejects the whole file otherwise
# ('"yield" outside function' is a blocking error).  In the depth-2 products the statement that contains such a
# form is placed in a `def _g():` body (same statement, same holes); the depth-1 family keeps the top-level misuse.
NEEDS_DEF = {"yield0", "yield", "yieldtuple", "yieldfrom"}
# statement forms that are blocking or position-free by themselves: depth 1 only
DEPTH1_ONLY = {"from-rel", "from-rel2", "pass", "raise0", "import", "import-as", "from", "from-star", "gen-bare", "def-ellipsis"}


def in_def(body: str) -> str:
    return "def _g():\n" + "".join("    " + ln if ln.strip() else ln for ln in body.splitlines(keepends=True))


# CPython compile-stage errors whose mypy counterpart is a BLOCKING semantic-analysis error (mypy/semanal.py:
# "yield" outside function, "break" outside loop, can't use starred expression here, ...) or a crash.
_ROUTE_ALONE = ("'yield' outside function", "'yield from' outside", "outside loop", "not properly in loop",
                "can't use starred expression", "multiple starred", "'yield from' inside async")


def predicted_blocker(text: str) -> bool:
    """Will the file probably be rejected as a whole?  Only used to ROUTE programs (such a program is built alone
    instead of as one module among many, where it would abort the build of its neighbours); never a verdict."""
    try:
        with warnings.catch_warnings():
            warnings.simplefilter("ignore")
            compile(text, "<c14>", "exec", dont_inherit=True)
        return False
    except SyntaxError as e:
        return any(m in (e.msg or "") for m in _ROUTE_ALONE)
    except (ValueError, RecursionError, MemoryError):
        return True


def depth1() -> Iterator[tuple[str, str]]:
    """Every statement form and every expression form once, holes filled by atoms."""
    for name, t in STMTS:
        yield f"S:{name}", PRELUDE + fill(t, {}) + "\n"
    for name, t in EXPRS:
        yield f"E:{name}", PRELUDE + "reveal_type(" + fill(t, {}) + ")\n"
        yield f"E:{name}:stmt", PRELUDE + fill(t, {}) + "\n"
    for name, t in PATTERNS:
        body = re.sub(r"\$(\d)", lambda m: PATTERN_ATOMS[int(m.group(1)) % 3], t)
        yield f"P:{name}", PRELUDE + PATTERN_CARRIERS[0][1].replace("$P", body) + "\n"


def stmt_x_expr() -> Iterator[tuple[str, str]]:
    """Every statement form x every hole x every expression form (bare, parenthesised, and inside reveal_type)."""
    for sname, st in STMTS:
        if sname in DEPTH1_ONLY:
            continue
        for h in holes(st):
            for ename, et in EXPRS:
                e = fill(et, {})
                for variant, text in (("bare", e), ("paren", f"({e})"), ("probe", f"reveal_type({e})")):
                    body = fill(st, {h: text}) + "\n"
                    if ename in NEEDS_DEF:
                        body = in_def(body)
                    yield f"SxE:{sname}:{h}:{ename}:{variant}", PRELUDE + body


def expr_x_expr() -> Iterator[tuple[str, str]]:
    """Every expression form x every hole x every expression form, carried by reveal_type(...) and by a bare statement."""
    for oname, ot in EXPRS:
        for h in holes(ot):
            for ename, et in EXPRS:
                e = fill(et, {})
                wrap = in_def if (ename in NEEDS_DEF or oname in NEEDS_DEF) else (lambda b: b)
                for variant, text in (("bare", e), ("paren", f"({e})")):
                    outer = fill(ot, {h: text})
                    yield f"ExE:{oname}:{h}:{ename}:{variant}", PRELUDE + wrap(f"reveal_type({outer})\n")
                    yield f"ExE:{oname}:{h}:{ename}:{variant}:stmt", PRELUDE + wrap(f"x = {outer}\n")


def pattern_x_pattern() -> Iterator[tuple[str, str]]:
    for cname, carrier in PATTERN_CARRIERS:
        for oname, ot in PATTERNS:
            hs = [int(x) for x in sorted(set(re.findall(r"\$(\d)", ot)))]
            if not hs:
                yield f"PxP:{cname}:{oname}", PRELUDE + carrier.replace("$P", ot) + "\n"
                continue
            for h in hs:
                for iname, it in PATTERNS:
                    inner = re.sub(r"\$(\d)", lambda m: PATTERN_ATOMS[int(m.group(1)) % 3], it)
                    for variant, text in (("bare", inner), ("paren", f"({inner})")):
                        body = re.sub(r"\$(\d)", lambda m: text if int(m.group(1)) == h else PATTERN_ATOMS[int(m.group(1)) % 3], ot)
                        yield f"PxP:{cname}:{oname}:{h}:{iname}:{variant}", PRELUDE + carrier.replace("$P", body) + "\n"


def type_x_position() -> Iterator[tuple[str, str]]:
    for pname, pt in ANNOTATION_POSITIONS:
        for i, t in enumerate(TYPES):
            if pname == "string-whole" and ('"' in t or "\n" in t or "\\" in t):
                continue
            yield f"TxA:{pname}:{i}", PRELUDE + pt.replace("$T", t) + "\n"


# --------------------------------------------------------------------------- layouts (applied to a base program)


def token_spans(text: str) -> list[tuple[int, int, int, str]]:
    """(start offset, end offset, token type, string) of every token with a non-empty span (incl. NEWLINE/INDENT)."""
    starts = [0]
    for ln in text.splitlines(keepends=True):
        starts.append(starts[-1] + len(ln))
    out = []
    try:
        for t in tokenize.generate_tokens(io.StringIO(text).readline):
            if t.type in (tokenize.ENDMARKER, tokenize.DEDENT, tokenize.ENCODING):
                continue
            s = starts[t.start[0] - 1] + t.start[1]
            e = starts[t.end[0] - 1] + t.end[1]
            if e > s:
                out.append((s, e, t.type, t.string))
    except (tokenize.TokenError, IndentationError, SyntaxError):
        pass
    return out


def layouts(text: str) -> Iterator[tuple[str, str]]:
    """Unusual layouts of one program.  Only the body after the prelude is transformed token-wise."""
    yield "crlf", text.replace("\n", "\r\n")
    yield "cr", text.replace("\n", "\r")
    yield "tabs", re.sub(r"(?m)^((?:    )+)", lambda m: "\t" * (len(m.group(1)) // 4), text)
    yield "tab-space-mix", re.sub(r"(?m)^((?:    )+)", lambda m: "\t" + " " * (len(m.group(1)) - 4), text) if "\n        " in text else text.replace("    ", "\t", 1)
    yield "indent2", re.sub(r"(?m)^((?:    )+)", lambda m: " " * (len(m.group(1)) // 2), text)
    yield "indent8tab", re.sub(r"(?m)^((?:    )+)", lambda m: "        " * (len(m.group(1)) // 4), text)
    yield "no-final-newline", text.rstrip("\n")
    yield "extra-final-newlines", text + "\n\n"
    yield "final-whitespace", text + "    \n"
    yield "final-comment-no-newline", text + "# end"
    yield "trailing-spaces", text.replace("\n", "  \n")
    yield "trailing-comments", text.replace("\n", "  # c\n")
    yield "formfeed-lines", text.replace("\n", "\n\f", text.count("\n") - 1)
    yield "formfeed-top", "\f" + text
    yield "formfeed-gap", re.sub(r" = ", " \f= ", text)
    yield "formfeed-after-colon", text.replace(": ", ":\f ", 1)
    yield "blank-ws-lines", text.replace("\n", "\n    \n", text.count("\n") - 1)
    yield "nonascii-comment", text.replace("\n", "  # é中\U0001F600\n")
    yield "nonascii-ident", re.sub(r"\bx\b", "é", text)
    yield "nonascii-ident-wide", re.sub(r"\bx\b", "中文", text)
    yield "nonascii-ident-nfkc", re.sub(r"\bx\b", "ﬁ", text) + "ﬁ = fi\n"
    yield "nonascii-ident-astral", re.sub(r"\bx\b", "\U0001D465", text)
    yield "nonascii-str", text.replace("'s'", "'é'").replace("a: int\n", "a: int; 'é中'\n")
    yield "nonascii-str-before", text.replace(PRELUDE, PRELUDE + "'é'; ", 1)
    yield "nonascii-str-astral-before", text.replace(PRELUDE, PRELUDE + "'\U0001F600'; ", 1)
    yield "nonascii-many-before", text.replace(PRELUDE, PRELUDE + "'" + "中" * 40 + "'; ", 1)
    yield "nonascii-prev-line", text.replace(PRELUDE, PRELUDE + "'''é\n中'''\n", 1)
    yield "semicolon-before", text.replace(PRELUDE, PRELUDE + "pass; ", 1)
    body_start = len(PRELUDE)
    spans = [s for s in token_spans(text) if s[0] >= body_start]
    for i, (s, e, typ, string) in enumerate(spans):
        if typ in (tokenize.NEWLINE, tokenize.NL, tokenize.INDENT, tokenize.COMMENT):
            continue
        # explicit line joining after this token; plain newline after this token (valid inside brackets only);
        # extra spaces / a tab after this token
        yield f"backslash-after-{i}", text[:e] + " \\\n" + text[e:]
        yield f"backslash-indent-after-{i}", text[:e] + "\\\n        " + text[e:]
        yield f"newline-after-{i}", text[:e] + "\n" + text[e:]
        yield f"newline-comment-after-{i}", text[:e] + "  # c\n    " + text[e:]
        yield f"spaces-after-{i}", text[:e] + "   " + text[e:]
        yield f"tab-after-{i}", text[:e] + "\t" + text[e:]
        yield f"parens-around-{i}", text[:s] + "(" + string + ")" + text[e:]


# --------------------------------------------------------------------------- (c) single-token corruptions

REPLACEMENTS = ["(", ")", "[", "}", ":", ",", "=", ".", "*", "x", "1", "'", "if", "\n"]


def corruptions(text: str, start: int = 0) -> Iterator[tuple[str, str]]:
    """Every token position (from offset `start`) x {delete, duplicate, replace by each of REPLACEMENTS}."""
    for i, (s, e, typ, string) in enumerate(token_spans(text)):
        if s < start:
            continue
        yield f"del@{i}", text[:s] + text[e:]
        sep = "" if typ in (tokenize.NEWLINE, tokenize.NL, tokenize.INDENT) else " "
        yield f"dup@{i}", text[:e] + sep + string + text[e:]
        for r in REPLACEMENTS:
            if r != string:
                yield f"rep@{i}:{r!r}", text[:s] + r + text[e:]
