"""Shared plumbing: results, evidence, known findings, scratch, output comparison.

Every check module in mc.checks exposes

    PROPERTY = "Cxx"
    LEVEL = "model_checking" | "exploration" | "fault_enumeration"
    def run(ctx: Ctx) -> Result
    def replay(ctx: Ctx, record: dict) -> Result     (optional)

and never prints VIOLATION lines itself; mc.run does that after consulting
/verif/known_findings.jsonl.
"""

from __future__ import annotations

import atexit
import hashlib
import json
import os
import re
import shutil
import sys
import time
from collections import Counter
from dataclasses import dataclass, field
from typing import Any, Iterable

VERIF = os.path.dirname(os.path.dirname(os.path.abspath(__file__)))
REPO = os.environ.get("VERIF_REPO", "/repo")  # VERIF_REPO: harness self-test against a scratch worktree
EVIDENCE_DIR = os.path.join(VERIF, "evidence")
REPLAY_DIR = os.path.join(VERIF, "replays")
KNOWN_FINDINGS = os.path.join(VERIF, "known_findings.jsonl")
NCPU = int(os.environ.get("VERIF_JOBS", "0")) or (os.cpu_count() or 4)


# --------------------------------------------------------------------------- scratch

_scratch_root: str | None = None


def scratch_root() -> str:
    """Per-process-tree scratch directory on tmpfs (never /tmp, /repo, /verif)."""
    global _scratch_root
    if _scratch_root is None:
        base = "/dev/shm" if os.path.isdir("/dev/shm") and os.access("/dev/shm", os.W_OK) else "/var/tmp"
        _scratch_root = os.path.join(base, f"verif-{os.getpid()}")
        os.makedirs(_scratch_root, exist_ok=True)
        owner = os.getpid()

        def _cleanup() -> None:
            if os.getpid() == owner:
                shutil.rmtree(_scratch_root, ignore_errors=True)  # type: ignore[arg-type]

        atexit.register(_cleanup)
    return _scratch_root


def scratch(*parts: str) -> str:
    p = os.path.join(scratch_root(), *parts)
    os.makedirs(p, exist_ok=True)
    return p


# --------------------------------------------------------------------------- results


@dataclass
class Violation:
    signature: str  # cause-level identity (matched against known_findings.jsonl)
    what: str  # one line, human readable
    detail: dict[str, Any] = field(default_factory=dict)  # everything needed to replay


@dataclass
class Result:
    property_id: str
    level: str
    coverage: dict[str, Any]
    violations: list[Violation] = field(default_factory=list)
    assumptions: list[str] = field(default_factory=list)
    harness_errors: list[str] = field(default_factory=list)


@dataclass
class Ctx:
    tier: str
    seed: int
    t0: float = field(default_factory=time.time)

    @property
    def quick(self) -> bool:
        return self.tier == "quick"

    @property
    def thorough(self) -> bool:
        return self.tier == "thorough"

    def elapsed(self) -> float:
        return time.time() - self.t0


# --------------------------------------------------------------------------- known findings


def load_known_findings(path: str = KNOWN_FINDINGS) -> tuple[dict[tuple[str, str], dict], list[dict]]:
    """Returns ({(property, signature): record} for open findings, [fixed records])."""
    known: dict[tuple[str, str], dict] = {}
    fixed: list[dict] = []
    if not os.path.exists(path):
        return known, fixed
    with open(path) as f:
        for line in f:
            line = line.strip()
            if not line or line.startswith("#"):
                continue
            rec = json.loads(line)
            if rec.get("status") == "fixed":
                fixed.append(rec)
            else:
                known[(rec["property"], rec["signature"])] = rec
    return known, fixed


# --------------------------------------------------------------------------- evidence / replay


def write_evidence(res: Result, ctx: Ctx, n_unlisted: int, n_known: int) -> str:
    os.makedirs(EVIDENCE_DIR, exist_ok=True)
    cov = dict(res.coverage)
    cov.setdefault("samples", [])
    cov["known_findings_reported"] = n_known
    cov["harness_errors"] = len(res.harness_errors)
    if res.harness_errors:
        cov["harness_error_samples"] = res.harness_errors[:5]
    ev = {
        "property_id": res.property_id,
        "tier": ctx.tier,
        "seed": ctx.seed,
        "level": res.level,
        "coverage": cov,
        "assumptions": res.assumptions,
        "wall_s": round(ctx.elapsed(), 2),
        "violations": n_unlisted,
    }
    path = os.path.join(EVIDENCE_DIR, f"{res.property_id}.json")
    tmp = path + ".tmp"
    with open(tmp, "w") as f:
        json.dump(ev, f, indent=1, sort_keys=True, default=str)
        f.write("\n")
    os.replace(tmp, path)
    return path


def write_replay(prop: str, v: Violation) -> str:
    d = os.path.join(REPLAY_DIR, prop)
    os.makedirs(d, exist_ok=True)
    body = {"property": prop, "signature": v.signature, "what": v.what, "detail": v.detail}
    blob = json.dumps(body, indent=1, sort_keys=True, default=str)
    h = hashlib.sha1(blob.encode()).hexdigest()[:12]
    path = os.path.join(d, f"{h}.json")
    with open(path, "w") as f:
        f.write(blob + "\n")
    return path


# --------------------------------------------------------------------------- output comparison

_LINE_RE = re.compile(r"^(?P<file>[^:\n]+):(?P<line>\d+)(?::\d+)*: (?:error|note|warning): ")


def _file_blocks(lines: Iterable[str]) -> dict[str, list[tuple[int, str]]]:
    blocks: dict[str, list[tuple[int, str]]] = {}
    for ln in lines:
        m = _LINE_RE.match(ln)
        if m:
            blocks.setdefault(m.group("file"), []).append((int(m.group("line")), ln))
        else:
            blocks.setdefault("", []).append((-1, ln))
    return blocks


def same_diagnostics(a: list[str], b: list[str]) -> tuple[bool, bool]:
    """DESIGN section 0 comparison.

    Returns (equal, order_only): `equal` is True iff the multisets of lines agree and, per file,
    the sequences agree up to permutation of lines carrying the same line number.  `order_only`
    is True when equal but the raw lists differ (counted, never a violation).
    """
    if a == b:
        return True, False
    if Counter(a) != Counter(b):
        return False, False
    ba, bb = _file_blocks(a), _file_blocks(b)
    if set(ba) != set(bb):
        return False, False
    for f in ba:
        if f == "":
            continue
        la, lb = ba[f], bb[f]
        # group consecutive lines by line number; compare as sequence of (lineno, multiset)
        def groups(seq: list[tuple[int, str]]) -> list[tuple[int, Counter[str]]]:
            out: list[tuple[int, Counter[str]]] = []
            for no, text in seq:
                if out and out[-1][0] == no:
                    out[-1][1][text] += 1
                else:
                    out.append((no, Counter([text])))
            return out

        if groups(la) != groups(lb):
            return False, False
    return True, True


def sha(data: bytes | str) -> str:
    if isinstance(data, str):
        data = data.encode()
    return hashlib.sha1(data).hexdigest()


def seeded_order(items: list, seed: int) -> list:
    """Deterministic permutation by seed; only used for exploration ORDER / slice choice."""
    if not seed:
        return list(items)
    import random

    r = random.Random(seed)
    out = list(items)
    r.shuffle(out)
    return out


def log(*a: Any) -> None:
    print("[verif]", *a, file=sys.stderr, flush=True)
