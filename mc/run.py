"""Runner: python -m mc.run <ID> [--tier quick|thorough] [--replay PATH]

Contract (MANIFEST): exit 0 if the property held on everything explored; exit 1 plus a line
`VIOLATION property=<id> replay=<path>` otherwise; `KNOWN-FINDING: property=<id> <what>` for
violations whose signature is listed in /verif/known_findings.jsonl.  Rewrites
/verif/evidence/<id>.json on every run.
"""

from __future__ import annotations

import argparse
import importlib
import json
import os
import sys
import time
import traceback

from mc.common import Ctx, Result, load_known_findings, log, write_evidence, write_replay


def main() -> int:
    ap = argparse.ArgumentParser()
    ap.add_argument("prop")
    ap.add_argument("--tier", default=os.environ.get("VERIF_TIER", "quick"), choices=["quick", "thorough"])
    ap.add_argument("--replay", default=None)
    ap.add_argument("--no-evidence", action="store_true")
    args = ap.parse_args()
    prop = args.prop.upper()
    try:
        seed = int(os.environ.get("VERIF_SEED", "0"))
    except ValueError:
        seed = 0
    ctx = Ctx(tier=args.tier, seed=seed)
    mod = importlib.import_module(f"mc.checks.{prop.lower()}")

    if args.replay:
        with open(args.replay) as f:
            rec = json.load(f)
        res: Result = mod.replay(ctx, rec)
        for v in res.violations:
            print(f"REPRODUCED property={prop} signature={v.signature} :: {v.what}")
        if not res.violations:
            print(f"NOT-REPRODUCED property={prop}")
        return 1 if res.violations else 0

    try:
        res = mod.run(ctx)
    except Exception:
        traceback.print_exc()
        print(f"HARNESS-ERROR property={prop} (check crashed; nothing is claimed)")
        return 2

    known, _fixed = load_known_findings()
    seen_known: dict[str, str] = {}
    unlisted = []
    for v in res.violations:
        if (prop, v.signature) in known:
            seen_known.setdefault(v.signature, known[(prop, v.signature)].get("what_fails", v.what))
        else:
            unlisted.append(v)
    for sig, what in sorted(seen_known.items()):
        print(f"KNOWN-FINDING: property={prop} {what} [signature={sig}]")
    # one VIOLATION line per distinct signature (first = smallest, checks enumerate simplest-first)
    by_sig: dict[str, list] = {}
    for v in unlisted:
        by_sig.setdefault(v.signature, []).append(v)
    for sig, vs in by_sig.items():
        path = write_replay(prop, vs[0])
        print(f"VIOLATION property={prop} replay={path}")
        print(f"  signature={sig} occurrences={len(vs)} :: {vs[0].what}")
    if res.harness_errors:
        log(f"{len(res.harness_errors)} harness errors (not violations); first: {res.harness_errors[0][:500]}")
    res.coverage["violation_signatures_unlisted"] = sorted(by_sig)
    res.coverage["known_finding_signatures_seen"] = sorted(seen_known)
    if not args.no_evidence:
        p = write_evidence(res, ctx, len(by_sig), len(seen_known))
        log(f"evidence -> {p} ({ctx.elapsed():.1f}s)")
    return 1 if unlisted else 0


def _sweep_scratch(t0: float) -> None:
    """Pool workers and forked children that were the first to ask for scratch space own a /dev/shm/verif-<pid>
    directory that nobody removes when they are killed or leave through os._exit.  Remove the directories of DEAD
    processes that were created during this run (ours), and any such directory older than six hours."""
    import glob
    import shutil
    import time

    for d in glob.glob("/dev/shm/verif-[0-9]*") + glob.glob("/var/tmp/verif-[0-9]*"):
        try:
            pid = int(d.rsplit("-", 1)[1])
            st = os.stat(d)
        except (ValueError, OSError):
            continue
        if pid == os.getpid() or os.path.exists(f"/proc/{pid}"):
            continue
        if st.st_ctime >= t0 - 1 or st.st_mtime < time.time() - 6 * 3600:
            shutil.rmtree(d, ignore_errors=True)


def _main_and_sweep() -> int:
    import time

    t0 = time.time()
    try:
        return main()
    finally:
        _sweep_scratch(t0)


if __name__ == "__main__":
    sys.exit(_main_and_sweep())
