"""Coordinator-side scheduler for C07: owns every scheduling decision of a parallel build.

Installed (by monkey-patching, inside a forked harness child — never in /repo) around the REAL
coordinator:  mypy.build.ready_to_read  -> Controller.ready_to_read  (completion order / grouping)
              BuildManager.free_workers -> ControlledSet            (which free worker gets a batch)
              mypy.build.send           -> wrapper learning which workers are busy
Workers are real `python -m mypy.build_worker` subprocesses whose phase functions are gated by
/verif/mc/shim/sitecustomize.py.  Between two gates exactly one worker runs, so an execution is a
deterministic function of the choice list; replaying a prefix must reproduce the recorded enabled
sets, otherwise Divergence is raised (hard error).
"""

from __future__ import annotations

import json
import os
import select
import socket
from typing import Any


class Deadlock(Exception):
    pass


class Divergence(Exception):
    pass


class Controller:
    def __init__(self, ctl_path: str, prefix: list[int], expect: list[int] | None = None) -> None:
        self.path = ctl_path
        if os.path.exists(ctl_path):
            os.unlink(ctl_path)
        self.listen = socket.socket(socket.AF_UNIX, socket.SOCK_STREAM)
        self.listen.bind(ctl_path)
        self.listen.listen(32)
        self.socks: dict[int, socket.socket] = {}
        self.anon: list[tuple[socket.socket, bytes]] = []
        self.bufs: dict[int, bytes] = {}
        self.at_gate: dict[int, dict] = {}
        self.busy: set[int] = set()
        self.prefix = list(prefix)
        self.expect = expect  # enabled-set sizes recorded by the execution that produced the prefix
        self.points: list[dict[str, Any]] = []
        self.trace: list[str] = []
        self.overlap = 0  # number of polls at which >= 2 workers were busy
        self.sent: dict[int, int] = {}  # 'frame is in the socket' notifications per worker
        self.undelivered: dict[int, int] = {}  # frames sent by a worker but not yet read by the coordinator

    # ------------------------------------------------------------------ choices

    def choose(self, n: int, kind: str, desc: list[str]) -> int:
        i = len(self.points)
        k = self.prefix[i] if i < len(self.prefix) else 0
        if self.expect is not None and i < len(self.expect) and self.expect[i] != n:
            raise Divergence(f"choice point {i} ({kind}): {n} alternatives now, {self.expect[i]} when recorded")
        if k >= n:
            raise Divergence(f"choice point {i} ({kind}): choice {k} of {n}")
        self.points.append({"n": n, "kind": kind, "chosen": k, "options": desc})
        self.trace.append(f"{kind}:{desc[k]}")
        return k

    # ------------------------------------------------------------------ gates

    def _pump(self, timeout: float) -> bool:
        """Read whatever control traffic is available; returns False on timeout."""
        rl = [self.listen] + list(self.socks.values()) + [s for s, _b in self.anon]
        r, _, _ = select.select(rl, [], [], timeout)
        if not r:
            return False
        for s in r:
            if s is self.listen:
                c, _ = self.listen.accept()
                self.anon.append((c, b""))
                continue
            data = s.recv(65536)
            idx = next((i for i, ss in self.socks.items() if ss is s), None)
            if idx is None:
                j = next(j for j, (ss, _b) in enumerate(self.anon) if ss is s)
                buf = self.anon[j][1] + data
                if b"\n" in buf:
                    line, rest = buf.split(b"\n", 1)
                    msg = json.loads(line)
                    idx = int(msg["w"])
                    self.socks[idx] = s
                    self.bufs[idx] = b""
                    del self.anon[j]
                    self._on_msg(idx, msg)
                    while b"\n" in rest:
                        line, rest = rest.split(b"\n", 1)
                        self._on_msg(idx, json.loads(line))
                    self.bufs[idx] = rest
                elif not data:
                    del self.anon[j]
                else:
                    self.anon[j] = (s, buf)
                continue
            if not data:
                # worker died / closed: treat as "gone"; coordinator will see EOF on its own connection
                del self.socks[idx]
                self.busy.discard(idx)
                self.at_gate[idx] = {"w": idx, "gate": "dead", "info": None}
                continue
            buf = self.bufs.get(idx, b"") + data
            while b"\n" in buf:
                line, buf = buf.split(b"\n", 1)
                self._on_msg(idx, json.loads(line))
            self.bufs[idx] = buf
        return True

    def _on_msg(self, idx: int, msg: dict) -> None:
        if msg["gate"] == "sent":
            self.sent[idx] = self.sent.get(idx, 0) + 1
        else:
            self.at_gate[idx] = msg

    def quiesce(self) -> None:
        """Block until every busy worker is parked at a gate."""
        waited = 0.0
        while any(i not in self.at_gate for i in self.busy):
            if not self._pump(5.0):
                waited += 5.0
                if waited >= 300.0:
                    raise Deadlock(f"busy workers {sorted(self.busy)} never reached a gate; at_gate={self.at_gate}")

    def release(self, idx: int) -> dict:
        g = self.at_gate.pop(idx)
        if g["gate"] != "dead":
            self.socks[idx].sendall(b"g")
        return g

    # ------------------------------------------------------------------ patched ready_to_read

    def ready_to_read(self, conns: list, timeout: float | None = None) -> list[int]:
        """The coordinator polls.  Options at a poll (one choice point each time round the loop):
          adv(w)      release worker w parked at a COMPUTE gate (it runs to its next gate)
          send(w)     release worker w parked at a SEND gate: the frame goes into the socket but is NOT yet
                      handed to the coordinator (a fast worker / slow coordinator), w runs on to its next gate
          deliver(w)  return [w]: the coordinator reads one frame of w that is already in the socket
          together    return every worker that has an undelivered frame (one select() returning several)
          burst(w)    w runs ahead through all its remaining gates of this request without any delivery
        The default (choice 0) is: lowest worker first; deliver before anything else."""
        unread = [i for i, c in enumerate(conns) if c.buffer]
        if unread:
            return unread
        while True:
            self.quiesce()
            parked = sorted(i for i in self.at_gate if i in self.busy or self.at_gate[i]["gate"] == "dead")
            pending = sorted(i for i, n in self.undelivered.items() if n > 0)
            if len(self.busy) + len([i for i in pending if i not in self.busy]) >= 2:
                self.overlap += 1
            if not parked and not pending:
                raise Deadlock(f"coordinator waits, nothing enabled; busy={sorted(self.busy)}")
            options: list[tuple[str, tuple[int, ...]]] = []
            workers = sorted(set(parked) | set(pending))
            for i in workers:  # per worker: deliver first, then its gate step
                if i in pending:
                    options.append(("deliver", (i,)))
                if i in parked:
                    g = self.at_gate[i]["gate"]
                    options.append(("dead" if g == "dead" else ("send" if g.startswith("send") else "adv"), (i,)))
            if len(pending) >= 2:
                options.append(("together", tuple(pending)))
            for i in parked:
                if self.at_gate[i]["gate"] not in ("dead", "send-impl"):
                    options.append(("burst", (i,)))
            desc = []
            for kind, who in options:
                if kind in ("adv", "send", "dead"):
                    desc.append(f"{kind}:w{who[0]}@{self.at_gate[who[0]]['gate']}")
                else:
                    desc.append(f"{kind}:" + ",".join(f"w{i}" for i in who))
            k = self.choose(len(options), "step", desc)
            kind, who = options[k]
            if kind in ("deliver", "together"):
                out = []
                for i in who:
                    r, _, _ = select.select([conns[i].connection], [], [], 300.0)
                    if not r:
                        raise Deadlock(f"worker {i} has an undelivered frame but nothing is readable")
                    self.undelivered[i] = 0  # the coordinator drains the socket into its buffer in one read
                    out.append(i)
                return out
            i = who[0]
            if kind == "dead":
                self.release(i)
                return [i]
            if kind in ("adv", "send"):
                self._step(i)
                continue
            if kind == "burst":
                while True:
                    last = self._step(i)
                    if last == "send-impl" or i not in self.busy:
                        break
                    self.quiesce()
                    if i not in self.at_gate or self.at_gate[i]["gate"] == "dead":
                        break
                continue

    def _step(self, i: int) -> str:
        """Release worker i from its gate; book-keep sent frames; returns the gate kind."""
        want = self.sent.get(i, 0) + 1
        g = self.release(i)
        kind = g["gate"]
        if kind.startswith("send"):
            # wait until the worker reports that the frame really is in the socket
            waited = 0.0
            while self.sent.get(i, 0) < want:
                if not self._pump(5.0):
                    waited += 5.0
                    if waited >= 300.0:
                        raise Deadlock(f"worker {i} released at {kind} never reported the frame as sent")
            self.undelivered[i] = self.undelivered.get(i, 0) + 1
            if kind == "send-impl" or (g.get("info") or {}).get("blocker"):
                self.busy.discard(i)
        return kind

    def close(self) -> None:
        for s in list(self.socks.values()) + [s for s, _ in self.anon]:
            try:
                s.close()
            except OSError:
                pass
        self.listen.close()
        if os.path.exists(self.path):
            os.unlink(self.path)


class ControlledSet(set):
    """free_workers with the pop() choice owned by the controller (default: lowest index)."""

    ctl: Controller | None = None

    def pop(self) -> int:  # type: ignore[override]
        opts = sorted(self)
        k = 0
        if len(opts) > 1 and ControlledSet.ctl is not None:
            k = ControlledSet.ctl.choose(len(opts), "assign", [f"w{i}" for i in opts])
        v = opts[k]
        self.discard(v)
        return v


def install(ctl: Controller) -> None:
    import mypy.build as mb

    ControlledSet.ctl = ctl
    mb.ready_to_read = ctl.ready_to_read
    mb.WORKER_START_TIMEOUT = 120
    mb.WORKER_CONNECTION_TIMEOUT = 120

    def get_fw(self: Any) -> Any:
        return self.__dict__.get("_verif_fw", set())

    def set_fw(self: Any, v: Any) -> None:
        self.__dict__["_verif_fw"] = ControlledSet(v)

    mb.BuildManager.free_workers = property(get_fw, set_fw)  # type: ignore[assignment]

    orig_send = mb.send

    def send(conn: Any, msg: Any) -> None:
        if isinstance(msg, mb.SccRequestMessage) and msg.scc_ids:
            mgr = CURRENT.get("manager")
            if mgr is not None:
                for i, w in enumerate(mgr.workers):
                    if w.connected and w.conn is conn:
                        ctl.busy.add(i)
        return orig_send(conn, msg)

    mb.send = send

    orig_pg = mb.process_graph

    def process_graph(graph: Any, manager: Any) -> None:
        CURRENT["manager"] = manager
        return orig_pg(graph, manager)

    mb.process_graph = process_graph


CURRENT: dict[str, Any] = {}
