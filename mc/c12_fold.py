"""C12 / constant folding: a folded value (and its type) == eval(); no fold where eval raises.

Folders under test (real code, called on real parser output):
   mypy   mypy.constant_fold.constant_fold_expr(expr, module_id)
   mypyc  mypyc.irbuild.constant_fold.constant_fold_expr(builder, expr)   (builder is only touched
          for MemberExpr, which the grammar does not produce; None is passed)
Lane A (all expressions): module `E<i> = <expr>` parsed by the real parser (fastparse and native
parser); references to the Final names of the prelude are bound to the REAL `Var` nodes obtained
from a real build of the prelude (this is all semantic analysis does for a global name); both
folders are called per expression inside try/except, so an exception in a folder is recorded for
that expression instead of killing the batch.
Lane B (wiring, a stated subset): the same expressions as `E<i>: Final = <expr>` through a full
real build; `Var.final_value` (semanal -> constant_fold_expr) and both folders applied to the
semantically analysed rvalue must reproduce lane A.
Reference: eval(expr) in CPython with the Final names bound to the same literals.
Resource guard (stated exclusion, counted): an expression is skipped when some int power / shift /
sequence repeat in it would produce more than ~8e6 bits/items but is not large enough to fail fast
(both eval and mypy would try to allocate it).
"""

from __future__ import annotations

import itertools
import operator
import os
import shutil
from collections import Counter
from typing import Any, Iterator

BIN_OPS = ["+", "-", "*", "/", "//", "%", "**", "<<", ">>", "&", "|", "^"]
UN_OPS = ["-", "~", "+"]
_PYOP = {"+": operator.add, "-": operator.sub, "*": operator.mul, "/": operator.truediv, "//": operator.floordiv,
         "%": operator.mod, "**": operator.pow, "<<": operator.lshift, ">>": operator.rshift, "&": operator.and_,
         "|": operator.or_, "^": operator.xor}

FINALS = {"FI": "3", "FF": "0.5", "FS": "'s'", "FB": "True", "FC": "1j", "FN": "-2", "FY": "b'y'"}
PRELUDE = "from typing import Final\n" + "".join(f"{k}: Final = {v}\n" for k, v in FINALS.items())
EVAL_NS = {k: eval(v) for k, v in FINALS.items()}

WIDE_LEAVES = (
    ["0", "1", "2", "3", "63", "64", "1024", "4611686018427387904", "9223372036854775807", "9223372036854775808",
     "9223372036854775809", "1" + "0" * 309]
    + ["0.0", "1.0", "0.5", "2.0", "1e308", "5e-324", "1e309"]
    + ["''", "'a'", "'\\u00e9\\x00'"]
    + ["b''", "b'a'", "b'\\xff\\\\n'"]
    + ["1j", "0j", "2.5j"]
    + ["True", "False"]
    + list(FINALS)
)
CORE_QUICK = ["1", "2", "9223372036854775807", "0.5"]
CORE_THOROUGH = ["0", "1", "2", "64", "9223372036854775807", "0.5", "'a'", "True"]
CORE_DEEP = ["1", "2"]
DEEP_OUTER = ["2", "9223372036854775807", "0.5"]


def par(e: str, leaf: bool) -> str:
    return e if leaf else f"({e})"


def level(leaves: list[str], depth: int) -> list[str]:
    """All expression sources of depth <= depth over the leaves, simplest first, no duplicates."""
    cur = [(x, True) for x in leaves]
    allx = list(cur)
    for _ in range(depth):
        nxt = [(f"{op}{par(e, lf)}", False) for op in UN_OPS for e, lf in allx]
        nxt += [(f"{par(a, la)} {op} {par(b, lb)}", False) for op in BIN_OPS for a, la in allx for b, lb in allx]
        seen = {e for e, _ in allx}
        allx = allx + [(e, lf) for e, lf in nxt if e not in seen]
    return [e for e, _ in allx]


def _depth2_only(core: list[str]) -> Iterator[str]:
    """Expressions of depth exactly 2 over the core leaves, canonical order, generated lazily
    (full parenthesisation makes distinct (op, operands) triples distinct strings)."""
    d1 = level(core, 1)
    leaves = set(core)
    for op in UN_OPS:
        for e in d1:
            if e not in leaves:
                yield f"{op}({e})"
    for op in BIN_OPS:
        for a in d1:
            la = a in leaves
            pa = par(a, la)
            for b in d1:
                lb = b in leaves
                if la and lb:
                    continue
                yield f"{pa} {op} {par(b, lb)}"


def _deep3() -> Iterator[str]:
    """Depth-3 slice: unary(d2), d2 op x, x op d2 for every depth-2 expression d2 over CORE_DEEP."""
    d2 = list(_depth2_only(CORE_DEEP))
    for op in UN_OPS:
        for e in d2:
            yield f"{op}({e})"
    for op in BIN_OPS:
        for e in d2:
            for x in DEEP_OUTER:
                yield f"({e}) {op} {x}"
                yield f"{x} {op} ({e})"


def _family_iter(name: str) -> Iterator[str]:
    """Families are pairwise disjoint: wide-depth1 has depth <=1 over all leaves (the core leaves are
    a subset), the core families have depth exactly 2, deep3 depth exactly 3."""
    if name == "wide-depth1":
        return iter(level(WIDE_LEAVES, 1))
    if name.startswith("core-depth2"):
        core = CORE_QUICK if name.endswith("quick") else CORE_THOROUGH
        assert set(core) <= set(WIDE_LEAVES)
        return _depth2_only(core)
    return _deep3()


_COUNT: dict[str, int] = {}


def family_count(name: str) -> int:
    if name not in _COUNT:
        _COUNT[name] = sum(1 for _ in _family_iter(name))
    return _COUNT[name]


def family_slice(name: str, start: int, stop: int) -> list[str]:
    return list(itertools.islice(_family_iter(name), start, stop))


FAMILY_TEXT = {
    "wide-depth1": f"all expressions of depth <=1 over {len(WIDE_LEAVES)} boundary leaves (ints 0..2^63+1 and 10^309, floats incl. "
                   "inf/denormal, str, bytes, complex, bool, 7 Final names)",
    "core-depth2-quick": f"all expressions of depth exactly 2 over the leaves {CORE_QUICK} (depth <=1 is in wide-depth1)",
    "core-depth2-thorough": f"all expressions of depth exactly 2 over the leaves {CORE_THOROUGH} (depth <=1 is in wide-depth1)",
    "deep3": f"depth 3, restricted: unary(d2), d2 op x, x op d2 for every depth-2 expression d2 over {CORE_DEEP} "
             f"and x in {DEEP_OUTER}",
}

# --------------------------------------------------------------------------- guarded reference

UNSAFE_LO = 8_000_000
UNSAFE_HI = 1 << 50


class Unsafe(Exception):
    pass


def _guard(op: str, a: Any, b: Any) -> None:
    """Raise Unsafe when `a op b` would build a huge object without failing fast."""
    if op == "**" and isinstance(a, int) and isinstance(b, int):
        if b > 0 and abs(a) > 1 and a.bit_length() * b > UNSAFE_LO:
            raise Unsafe
    if op == "<<" and isinstance(a, int) and isinstance(b, int) and UNSAFE_LO < b < UNSAFE_HI and a != 0:
        raise Unsafe
    if op == "*":
        for s, n in ((a, b), (b, a)):
            if isinstance(s, (str, bytes)) and isinstance(n, int) and len(s) and UNSAFE_LO < n * len(s) < UNSAFE_HI:
                raise Unsafe
        if isinstance(a, int) and isinstance(b, int) and a.bit_length() + b.bit_length() > 8 * UNSAFE_LO:
            raise Unsafe


_AST_BIN = None


def _ast_ops() -> tuple[dict, dict]:
    import ast

    return ({ast.Add: "+", ast.Sub: "-", ast.Mult: "*", ast.Div: "/", ast.FloorDiv: "//", ast.Mod: "%", ast.Pow: "**",
             ast.LShift: "<<", ast.RShift: ">>", ast.BitAnd: "&", ast.BitOr: "|", ast.BitXor: "^"},
            {ast.USub: operator.neg, ast.Invert: operator.invert, ast.UAdd: operator.pos})


_NOVAL = object()


def _safe_walk(node: Any) -> Any:
    """Bottom-up evaluation of EVERY sub-expression with CPython's own operators (a folder evaluates
    both operands even where eval would stop at the first exception).  Returns the value or _NOVAL
    (the node raises); raises Unsafe if any operation anywhere in the tree is in the guarded zone."""
    import ast

    binops, unops = _ast_ops()
    if isinstance(node, ast.Constant):
        return node.value
    if isinstance(node, ast.Name):
        return EVAL_NS[node.id]
    if isinstance(node, ast.UnaryOp):
        v = _safe_walk(node.operand)
        if v is _NOVAL:
            return _NOVAL
        try:
            return unops[type(node.op)](v)
        except Exception:  # noqa: BLE001
            return _NOVAL
    if isinstance(node, ast.BinOp):
        a = _safe_walk(node.left)
        b = _safe_walk(node.right)
        if a is _NOVAL or b is _NOVAL:
            return _NOVAL
        op = binops[type(node.op)]
        _guard(op, a, b)
        try:
            return _PYOP[op](a, b)
        except Exception:  # noqa: BLE001
            return _NOVAL
    raise RuntimeError(f"unexpected node {node!r}")


def reference(src: str) -> tuple[str, Any]:
    """('val', v) | ('exc', ExceptionTypeName) | ('unsafe', None).  The value is `eval(src)`; the
    guarded bottom-up walk only decides whether evaluating (by eval and by the folders) is safe."""
    import ast
    import warnings

    tree = ast.parse(src, mode="eval").body
    with warnings.catch_warnings():
        warnings.simplefilter("ignore")
        try:
            _safe_walk(tree)
        except Unsafe:
            return ("unsafe", None)
        try:
            return ("val", eval(src, dict(EVAL_NS)))
        except Exception as e:  # noqa: BLE001 - any exception of the reference means "must not fold"
            return ("exc", type(e).__name__)


def same_value(a: Any, b: Any) -> bool:
    if type(a) is not type(b):
        return False
    if isinstance(a, (float, complex)):
        return repr(a) == repr(b)  # distinguishes -0.0 from 0.0 and equates nan with nan
    return bool(a == b)


def short_src(src: str) -> str:
    import re

    return re.sub(r"\d{40,}", lambda m: f"{m.group(0)[:4]}...({len(m.group(0))} digits)", src)


def short(v: Any) -> str:
    if isinstance(v, int) and not isinstance(v, bool) and v.bit_length() > 200:
        return f"<int of {v.bit_length()} bits>"
    r = repr(v)
    return r if len(r) <= 60 else r[:57] + "..."


# --------------------------------------------------------------------------- mypy side


def real_build(text: str, cache_src: str | None, work: str) -> Any:
    from mypy import build as mb
    from mypy.modulefinder import BuildSource

    from mc.drivers import make_options

    os.makedirs(os.path.join(work, "tmp"), exist_ok=True)
    os.chdir(work)
    cache = None
    if cache_src:
        cache = os.path.join(work, "cache")
        if not os.path.isdir(cache):
            shutil.copytree(cache_src, cache)
    o = make_options(cache_dir=cache, fixtures=False)
    o.preserve_asts = True
    return mb.build([BuildSource("c12fold.py", "c12fold", text)], o)


def parse_exprs(srcs: list[str], native: bool) -> list[Any]:
    from mypy.errors import Errors
    from mypy.nodes import AssignmentStmt
    from mypy.options import Options
    from mypy.parse import parse

    text = "".join(f"E{i} = {s}\n" for i, s in enumerate(srcs))
    o = Options()
    o.native_parser = native
    errors = Errors(o)
    tree = parse(text, "c12fold.py", "c12fold", errors, o, eager=True)
    if errors.is_errors():
        raise RuntimeError(f"parse errors in a generated fold module: {errors.new_messages()[:3]}")
    stmts = [d for d in tree.defs if isinstance(d, AssignmentStmt)]
    if len(stmts) != len(srcs):
        raise RuntimeError("statement count mismatch in fold module")
    return [s.rvalue for s in stmts]


def bind_names(expr: Any, vars_: dict[str, Any]) -> None:
    from mypy.nodes import GDEF, NameExpr, OpExpr, UnaryExpr

    if isinstance(expr, NameExpr):
        if expr.name in vars_:
            expr.node = vars_[expr.name]
            expr.kind = GDEF
            expr.fullname = f"c12fold.{expr.name}"
    elif isinstance(expr, OpExpr):
        bind_names(expr.left, vars_)
        bind_names(expr.right, vars_)
    elif isinstance(expr, UnaryExpr):
        bind_names(expr.expr, vars_)


def fold_both(expr: Any) -> dict[str, tuple[str, Any]]:
    """{'mypy': ('val', v) | ('none', None) | ('crash', 'Exc: text'), 'mypyc': ...}"""
    import warnings

    import mypy.constant_fold as mf
    import mypyc.irbuild.constant_fold as cf

    out: dict[str, tuple[str, Any]] = {}
    for name, fn in (("mypy", lambda: mf.constant_fold_expr(expr, "c12fold")),
                     ("mypyc", lambda: cf.constant_fold_expr(None, expr))):  # type: ignore[arg-type]
        try:
            with warnings.catch_warnings():
                warnings.simplefilter("ignore")
                v = fn()
            out[name] = ("none", None) if v is None else ("val", v)
        except Exception as e:  # noqa: BLE001
            import traceback

            frames = [f for f in traceback.extract_tb(e.__traceback__) if f.filename.startswith("/repo/")]
            where = f"{frames[-1].filename[len('/repo/'):]}:{frames[-1].name}" if frames else "?"
            out[name] = ("crash", f"{type(e).__name__}: {str(e)[:80]} @{where}")
    return out


def judge(folded: tuple[str, Any], ref: tuple[str, Any]) -> str | None:
    """None = property holds for this (folder, expression); else the kind of failure."""
    if folded[0] == "crash":
        return "crash"
    if folded[0] == "none":
        return None
    if ref[0] == "exc":
        return "folds-where-eval-raises"
    if type(folded[1]) is not type(ref[1]):
        return "wrong-type"
    if not same_value(folded[1], ref[1]):
        return "wrong-value"
    return None


def _top(src: str) -> tuple[str, list[str]]:
    """(top-level operator, child sources) via CPython's own parser."""
    import ast

    n = ast.parse(src, mode="eval").body
    if isinstance(n, ast.UnaryOp):
        return ("unary" + {ast.USub: "-", ast.Invert: "~", ast.UAdd: "+"}[type(n.op)], [ast.unparse(n.operand)])
    if isinstance(n, ast.BinOp):
        op = {ast.Add: "+", ast.Sub: "-", ast.Mult: "*", ast.Div: "/", ast.FloorDiv: "//", ast.Mod: "%", ast.Pow: "**",
              ast.LShift: "<<", ast.RShift: ">>", ast.BitAnd: "&", ast.BitOr: "|", ast.BitXor: "^"}[type(n.op)]
        return (op, [ast.unparse(n.left), ast.unparse(n.right)])
    return ("leaf", [])


def _tname(ref: tuple[str, Any]) -> str:
    if ref[0] == "val":
        v = ref[1]
        if isinstance(v, int) and not isinstance(v, bool) and v.bit_length() > 1023:
            return "int>2**1023"
        if isinstance(v, int) and not isinstance(v, bool) and v.bit_length() > 62:
            return "int>2**62"
        return type(v).__name__
    return ref[0]


def blame(src: str, folder: str, vars_: dict[str, Any]) -> tuple[str, str, str]:
    """(smallest failing sub-expression, failure kind, signature) for a failing expression: a wrong
    child makes every parent wrong, so the cause is named after the deepest failing node."""
    op, kids = _top(src)
    for k in kids:
        e = parse_exprs([k], False)[0]
        bind_names(e, vars_)
        ref = reference(k)
        if ref[0] == "unsafe":
            continue
        kind = judge(fold_both(e)[folder], ref)
        if kind is not None:
            return blame(k, folder, vars_)
    e = parse_exprs([src], False)[0]
    bind_names(e, vars_)
    ref = reference(src)
    folded = fold_both(e)[folder]
    kind = judge(folded, ref) or "?"
    kid_refs = [reference(k) for k in kids]
    if kind == "crash":
        # one cause per unguarded operation (named after the function that let the exception out),
        # whatever the magnitude or the folder entry point that triggers it
        where = folded[1].rsplit("@", 1)[1]
        if "too large to convert to float" in folded[1]:
            return (src, kind, f"crash:int-too-large-to-convert-to-float@{where}")
        if "division result too large" in folded[1]:
            return (src, kind, f"crash:int-true-division-result-too-large-for-float@{where}")
        return (src, kind, f"crash:{op}@{where}")
    types = ",".join(_tname(r) for r in kid_refs)
    return (src, kind, f"{kind}:{op}:{types}")


# --------------------------------------------------------------------------- worker


def prelude_vars(cache: str | None, work: str) -> dict[str, Any]:
    from mypy.nodes import Var

    res = real_build(PRELUDE, cache, work)
    if res.errors:
        raise RuntimeError(f"fold prelude is not clean: {res.errors}")
    out = {}
    for k in FINALS:
        node = res.files["c12fold"].names[k].node
        assert isinstance(node, Var) and node.is_final, k
        out[k] = node
    return out


def run_item(item: dict) -> dict:
    """One slice of one expression family.  Runs in a freshly forked process."""
    from mc.common import scratch

    srcs = family_slice(item["family"], item["start"], item["stop"])
    work = scratch("c12", f"fold-{os.getpid()}")
    st: Counter[str] = Counter()
    viol: list[dict] = []
    herr: list[str] = []
    sample = None
    try:
        vars_ = prelude_vars(item.get("cache"), work)
        refs = [reference(s) for s in srcs]
        lane_a: dict[str, dict[str, tuple[str, Any]]] = {}
        for native in item["parsers"]:
            exprs = parse_exprs(srcs, native)
            for s, e, ref in zip(srcs, exprs, refs):
                if not native:
                    st["expressions"] += 1
                if ref[0] == "unsafe":
                    st["skipped_resource_guard"] += 1 if not native else 0
                    continue
                bind_names(e, vars_)
                both = fold_both(e)
                if not native:
                    lane_a[s] = both
                    st[f"ref_{ref[0]}"] += 1
                elif s in lane_a and any(both[f][0] != lane_a[s][f][0] or (both[f][0] == "val" and not same_value(both[f][1], lane_a[s][f][1]))
                                         for f in both):
                    st["parser_differences"] += 1
                    viol.append({"signature": "fold:parsers-disagree", "what": f"`{s}`: fastparse tree folds to {lane_a[s]}, "
                                 f"native-parser tree folds to {both}", "detail": {"sub": "fold", "expr": s, "native": True}})
                    continue
                st["evaluations"] += 2
                if not native and (ref[0] == "exc" or both["mypy"][0] != "none" or both["mypyc"][0] != "none"):
                    st["nontrivial"] += 1
                bad = {f: judge(both[f], ref) for f in both}
                for f in both:
                    st[f"{f}_{both[f][0]}"] += 1 if not native else 0
                if not any(bad.values()):
                    if both["mypy"][0] == "val" or both["mypyc"][0] == "val":
                        st["folded_and_equal"] += 1 if not native else 0
                        if sample is None and _top(s)[0] != "leaf" and s.count("(") >= 1:
                            sample = {"expr": s, "eval": short(ref[1]), "mypy": short(both["mypy"][1]), "mypyc": short(both["mypyc"][1])}
                    continue
                if native:
                    continue  # already reported for the fastparse tree (identical result checked above)
                failing = sorted(f for f, k in bad.items() if k)
                sub, kind, tail = blame(s, failing[0], vars_)
                st["failing_expressions"] += 1
                viol.append({
                    "signature": f"fold:{tail}",
                    "what": f"`{short_src(s)}`: eval -> {ref[0]} {short(ref[1])}; " + "; ".join(f"{f} fold -> {both[f][0]} {short(both[f][1])}" for f in failing)
                            + (f" (smallest failing sub-expression `{short_src(sub)}`)" if sub != s else ""),
                    "detail": {"sub": "fold", "expr": s, "blamed": sub, "folders": failing, "kind": kind,
                               "reference": [ref[0], short(ref[1])], "folded": {f: [both[f][0], short(both[f][1])] for f in both}},
                })
        # lane B: wiring through the real semantic analyzer
        if item.get("wired"):
            ok = [s for s in srcs if s in lane_a and lane_a[s]["mypy"][0] != "crash"]
            text = PRELUDE + "".join(f"E{i}: Final = {s}\n" for i, s in enumerate(ok))
            shutil.rmtree(os.path.join(work, "cache"), ignore_errors=True)
            res = real_build(text, item.get("cache"), work)
            tree = res.files["c12fold"]
            from mypy.nodes import AssignmentStmt, NameExpr, Var

            stmts = [d for d in tree.defs if isinstance(d, AssignmentStmt) and isinstance(d.lvalues[0], NameExpr)
                     and d.lvalues[0].name.startswith("E")]
            if len(stmts) != len(ok):
                raise RuntimeError(f"lane B: {len(stmts)} statements for {len(ok)} expressions")
            for s, d in zip(ok, stmts):
                st["wired_checked"] += 1
                node = d.lvalues[0].node
                assert isinstance(node, Var)
                a = lane_a[s]
                both = fold_both(d.rvalue)
                for f in both:
                    if both[f][0] != a[f][0] or (both[f][0] == "val" and not same_value(both[f][1], a[f][1])):
                        herr.append(f"lane A/B differ for `{s}` ({f}): name-bound parse tree {a[f]}, analysed tree {both[f]}")
                fv = node.final_value
                if fv is not None:
                    st["wired_final_value_set"] += 1
                    if a["mypy"][0] != "val" or not same_value(fv, a["mypy"][1]):
                        herr.append(f"lane B: final_value {fv!r} for `{s}` but direct fold gives {a['mypy']}")
                elif a["mypy"][0] == "val" and not isinstance(a["mypy"][1], complex):
                    herr.append(f"lane B: no final_value for `{s}` although the direct fold gives {a['mypy']}")
    finally:
        shutil.rmtree(work, ignore_errors=True)
    return {"stats": dict(st), "violations": viol, "sample": sample, "harness_errors": herr[:20]}


WIRED_PREFIX_THOROUGH = 200_000


def items(tier: str, chunk: int) -> tuple[list[dict], dict]:
    fams: list[tuple[str, list[bool], int]] = [("wide-depth1", [False, True], 10**9)]
    if tier == "quick":
        fams.append(("core-depth2-quick", [False], 0))
    else:
        fams.append(("core-depth2-thorough", [False], WIRED_PREFIX_THOROUGH))
        fams.append(("deep3", [False], 0))
    out = []
    space: dict[str, Any] = {}
    for fam, parsers, wired_upto in fams:
        n = family_count(fam)
        space[fam] = {"expressions": n, "what": FAMILY_TEXT[fam], "parsers": ["fastparse", "native"][: len(parsers)],
                      "wired_lane_for_first": min(n, wired_upto)}
        for s in range(0, n, chunk):
            wired = s < wired_upto
            out.append({"kind": "fold", "family": fam, "start": s, "stop": min(n, s + chunk), "parsers": parsers,
                        "wired": wired, "cost": (min(n, s + chunk) - s) * (len(parsers) + (3 if wired else 0)) // 8 + 300})
    return out, space


def replay_one(d: dict, cache: str | None) -> dict:
    from mc.kernel import run_isolated

    return run_isolated(_replay, {"expr": d["expr"], "cache": cache}, timeout=600)


def _replay(job: dict) -> dict:
    from mc.common import scratch

    work = scratch("c12", f"fold-replay-{os.getpid()}")
    try:
        vars_ = prelude_vars(job["cache"], work)
        e = parse_exprs([job["expr"]], False)[0]
        bind_names(e, vars_)
        ref = reference(job["expr"])
        both = fold_both(e)
        return {"reference": [ref[0], short(ref[1])], "folded": {f: [both[f][0], short(both[f][1])] for f in both},
                "failing": sorted(f for f in both if judge(both[f], ref))}
    finally:
        shutil.rmtree(work, ignore_errors=True)
