"""Subprocess entry for C10(a): run a list of build specs under THIS interpreter's hash seed.

usage: python -m mc.c10_runner <specs.json>  -> JSON list of {messages, blocker, cache: [(name, sha1, mtime)]}
Each spec is built in a freshly forked child (clean global state), so only the hash seed differs
between two invocations of this runner.
"""

from __future__ import annotations

import json
import os
import shutil
import sys

from mc.drivers import StorePlan, build_inproc, cache_listing
from mc.kernel import ExecError, run_isolated


def one(spec: dict) -> dict:
    root = spec["root"]
    cd = os.path.join(root, spec["cache_dir"])
    shutil.rmtree(cd, ignore_errors=True)
    spec = dict(spec)
    spec["plan"] = StorePlan("content")
    r = build_inproc(spec)
    return {"messages": r["messages"], "blocker": r["blocker"], "crashed": r["crashed"],
            "cache": cache_listing(root, spec["cache_dir"], spec.get("store", "fs"), spec.get("fmt", "ff"))}


def main() -> None:
    specs = json.load(open(sys.argv[1]))
    out = []
    for s in specs:
        try:
            out.append(run_isolated(one, s, timeout=300))
        except ExecError as e:
            out.append({"messages": [f"<{e.kind}>"], "blocker": None, "crashed": e.info[-2000:], "cache": []})
    json.dump(out, sys.stdout)


if __name__ == "__main__":
    main()
