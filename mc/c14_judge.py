"""C14 oracle: compare the outputs of the two parsers and validate every reported position.

Everything here is string work on mypy's formatted output (`file:line:col:end_line:end_col: severity: text
[code]`, mypy/errors.py format_messages_default: the shown start column is 1 + the 0-based column, the shown
end column is the 0-based exclusive end, i.e. the 1-based inclusive end) and on the source text of the program.
No mypy code is re-implemented.
"""

from __future__ import annotations

import os
import re
from collections import Counter
from typing import Any, NamedTuple

from mc.common import same_diagnostics

_LOC = re.compile(
    r"^(?P<file>[^:\n]+?)(?::(?P<line>\d+)(?::(?P<col>\d+)(?::(?P<el>\d+):(?P<ec>\d+))?)?)?: "
    r"(?P<sev>error|note|warning): (?P<text>.*)$",
    re.DOTALL,
)
_CODE = re.compile(r"  \[([a-z0-9\-]+)\]$")


class Diag(NamedTuple):
    file: str
    line: int | None
    col: int | None  # as shown (1-based)
    el: int | None
    ec: int | None  # as shown (0-based exclusive == 1-based inclusive)
    sev: str
    text: str  # message incl. "  [code]"
    raw: str

    @property
    def s1(self) -> str:
        """The same diagnostic in mypy's default output format."""
        if self.line is None:
            return f"{self.file}: {self.sev}: {self.text}"
        return f"{self.file}:{self.line}: {self.sev}: {self.text}"

    @property
    def s1key(self) -> tuple:
        return (self.file, self.line, self.sev, self.text)

    @property
    def pos(self) -> tuple:
        return (self.col, self.el, self.ec)


def parse_line(raw: str) -> Diag | None:
    m = _LOC.match(raw)
    if not m:
        return None
    g = m.groupdict()
    i = lambda k: int(g[k]) if g[k] is not None else None  # noqa: E731
    return Diag(g["file"], i("line"), i("col"), i("el"), i("ec"), g["sev"], g["text"], raw)


def parse_messages(msgs: list[str]) -> tuple[list[Diag], list[str]]:
    diags, other = [], []
    for raw in msgs:
        d = parse_line(raw)
        if d is None:
            other.append(raw)
        else:
            diags.append(d)
    return diags, other


def msgkind(text: str, collapse_syntax: bool = False) -> str:
    """Cause-level kind of a message: quoted/backquoted fragments and numbers abstracted, code kept."""
    code = ""
    m = _CODE.search(text)
    if m:
        code = m.group(1)
        text = text[: m.start()]
    if collapse_syntax and code == "syntax":
        return "[syntax]"
    t = re.sub(r'"[^"]*"', '"_"', text)
    t = re.sub(r"`[^`]*`", "`_`", t)
    t = re.sub(r"'[^']*'", "'_'", t)
    t = re.sub(r"\d+", "N", t)
    t = re.sub(r"\s+", " ", t).strip()
    if len(t) > 90:
        t = t[:90] + "~"
    return f"{t} [{code}]" if code else t


# --------------------------------------------------------------------------- source geometry

_EOL = re.compile(rb"\r\n|\r|\n")


def line_table(src: str | bytes) -> list[bytes]:
    """The lines of a source file the way Python's tokenizer counts them (\\n, \\r\\n, \\r end a line; form feed
    and the other str.splitlines separators do not), INCLUDING the final segment after the last terminator
    (empty when the file ends with a newline: the end-of-file position)."""
    b = src.encode("utf-8", "surrogatepass") if isinstance(src, str) else _utf8_of_bytes(src)
    return _EOL.split(b)


def _utf8_of_bytes(b: bytes) -> bytes:
    import io
    import tokenize

    try:
        enc, _ = tokenize.detect_encoding(io.BytesIO(b).readline)
        return b.decode(enc).encode("utf-8", "surrogatepass")
    except (SyntaxError, UnicodeDecodeError, LookupError):
        return b


def position_faults(d: Diag, lines: list[bytes]) -> list[str]:
    """Which clauses of the position rule the diagnostic breaks (empty list = valid).

    line:   1 <= line <= number of lines (the final empty segment after a trailing newline counts: EOF position)
    column: 0 <= column0 <= len(line) where column0 = shown - 1; len in UTF-8 bytes (the larger of the two units
            in use: CPython's ast offsets are UTF-8 bytes, characters are never more numerous)
    end:    (end_line, end_col) >= (line, column0) with end_col the exclusive 0-based end; end_line exists;
            end_col <= len(end_line) + 1 (the line terminator may be covered: Errors.report makes one-character
            spans out of positions that carry no end)
    """
    out: list[str] = []
    if d.line is None:
        return out  # file-level message, no position claimed
    n = len(lines)
    if not (1 <= d.line <= n):
        out.append("line-out-of-range")
        return out
    if d.col is not None:
        c0 = d.col - 1
        if c0 < 0 or c0 > len(lines[d.line - 1]):
            out.append("column-past-eol")
    if d.el is not None and d.ec is not None and d.col is not None:
        if (d.el, d.ec) < (d.line, d.col - 1):
            out.append("end-before-start")
        if not (1 <= d.el <= n):
            out.append("end-line-out-of-range")
        elif d.ec > len(lines[d.el - 1]) + 1:
            out.append("end-column-past-eol")
    return out


def non_ascii_near(d: Diag, lines: list[bytes]) -> bool:
    """Is there a non-ASCII byte on the start or end line of the diagnostic?"""
    for ln in (d.line, d.el):
        if ln is not None and 1 <= ln <= len(lines) and any(x >= 0x80 for x in lines[ln - 1]):
            return True
    return False


# --------------------------------------------------------------------------- differential


def compare(dflt: list[str], nat: list[str], lines_of: Any) -> list[tuple[str, str]]:
    """Disagreements between the default-parser output and the native-parser output of one accepted program.

    Returns [(signature, one-line description)], cause level:
      s1|<component>|<message kind>   default output format differs (component: presence-default-only,
                                      presence-native-only, line, text, order)
      s2|<component>|<message kind>   equal in the default format, differs with columns/end positions shown
                                      (component: column, end, column-presence, order)
      s2|non-ascii|<component>        the same, on a line containing non-ASCII characters (one cause: units)
    `lines_of(file) -> list[bytes] | None` gives the line table of a reported file.
    """
    D, oD = parse_messages(dflt)
    N, oN = parse_messages(nat)
    out: list[tuple[str, str]] = []
    if Counter(oD) != Counter(oN):
        out.append(("s1|unlocated|" + msgkind((oD + oN)[0]), f"unlocated lines differ: default={oD[:2]} native={oN[:2]}"))
    cD, cN = Counter(d.s1key for d in D), Counter(d.s1key for d in N)
    if cD != cN:
        onlyD = sorted((cD - cN).elements(), key=lambda k: (k[0], k[1] or 0, k[3]))
        onlyN = sorted((cN - cD).elements(), key=lambda k: (k[0], k[1] or 0, k[3]))
        usedN: set[int] = set()
        for kd in onlyD:
            hit = None
            # same text elsewhere => the line differs
            for j, kn in enumerate(onlyN):
                if j not in usedN and kn[0] == kd[0] and kn[2] == kd[2] and kn[3] == kd[3]:
                    hit = ("line", j)
                    break
            if hit is None:
                for j, kn in enumerate(onlyN):
                    if j not in usedN and kn[:3] == kd[:3] and msgkind(kn[3]) == msgkind(kd[3]):
                        hit = ("text-detail", j)
                        break
            if hit is None:
                for j, kn in enumerate(onlyN):
                    if j not in usedN and kn[:3] == kd[:3]:
                        hit = ("text", j)
                        break
            if hit is None:
                out.append((f"s1|presence-default-only|{msgkind(kd[3])}", f"only the default parser reports {_fmt(kd)}"))
            else:
                comp, j = hit
                usedN.add(j)
                kn = onlyN[j]
                if comp == "text":
                    out.append((f"s1|text|{msgkind(kd[3])} => {msgkind(kn[3])}", f"default {_fmt(kd)} / native {_fmt(kn)}"))
                else:
                    out.append((f"s1|{comp}|{msgkind(kd[3])}", f"default {_fmt(kd)} / native {_fmt(kn)}"))
        for j, kn in enumerate(onlyN):
            if j not in usedN:
                out.append((f"s1|presence-native-only|{msgkind(kn[3])}", f"only the native parser reports {_fmt(kn)}"))
        return out
    eq1, _ = same_diagnostics([d.s1 for d in D], [d.s1 for d in N])
    if not eq1:
        out.append(("s1|order", "same lines, different order across line numbers"))
        return out
    # strength 2: per default-format line, the multiset of (col, end_line, end_col)
    pD: dict[tuple, list[Diag]] = {}
    pN: dict[tuple, list[Diag]] = {}
    for d in D:
        pD.setdefault(d.s1key, []).append(d)
    for d in N:
        pN.setdefault(d.s1key, []).append(d)
    for k in sorted(pD, key=lambda k: (k[0], k[1] or 0, k[3])):
        a = sorted(pD[k], key=lambda d: tuple(-1 if x is None else x for x in d.pos))
        b = sorted(pN[k], key=lambda d: tuple(-1 if x is None else x for x in d.pos))
        if Counter(d.pos for d in a) == Counter(d.pos for d in b):
            continue
        ra = [d for d in a]
        rb = [d for d in b]
        # drop exact matches, pair the rest in order
        for d in list(ra):
            for e in rb:
                if e.pos == d.pos:
                    ra.remove(d)
                    rb.remove(e)
                    break
        for d, e in zip(ra, rb):
            if (d.col is None) != (e.col is None):
                comp = "column-missing-default" if d.col is None else "column-missing-native"
            elif d.col != e.col:
                comp = "column"
            elif _no_span(d) and not _no_span(e):
                comp = "end-missing-default"  # the default parser's node carries no end (Errors.report made a 1-char span)
            elif _no_span(e) and not _no_span(d):
                comp = "end-missing-native"
            else:
                comp = "end"
            lt = lines_of(d.file)
            if lt is not None and non_ascii_near(d, lt):
                sig = f"s2|non-ascii|{comp}"
            else:
                sig = f"s2|{comp}|{_position_cause(comp, d, e, lt)}"
            out.append((sig, f"default {d.raw[:160]!r} / native {e.raw[:160]!r}"))
    if not out:
        eq2, _ = same_diagnostics(dflt, nat)
        if not eq2:
            out.append(("s2|order", "same lines, different order across line numbers"))
    return out


_KEYWORDS = {"lambda", "not", "await", "yield", "if", "for", "async", "def", "class", "with", "try", "except", "match", "case",
             "type", "del", "assert", "return", "raise", "import", "from", "while", "global", "nonlocal", "None", "True", "False"}


def _token_class(line: bytes, c0: int) -> str:
    """What starts at 0-based column c0 of the line: name / kw:<keyword> / number / string / the character itself."""
    rest = line[c0:].decode("utf-8", "replace")
    m = re.match(r"[A-Za-z_][A-Za-z_0-9]*", rest)
    if m:
        w = m.group(0)
        if re.match(r"(?i)^(r|b|u|f|br|rb|fr|rf)?$", w) is None and w in _KEYWORDS:
            return f"kw:{w}"
        if re.match(r"(?i)^(r|b|u|f|br|rb|fr|rf)$", w) and rest[len(w):len(w) + 1] in ("'", '"'):
            return "string"
        return "name"
    if rest[:1].isdigit():
        return "number"
    if rest[:1] in ("'", '"'):
        return "string"
    return rest[:1] or "<eol>"


def _paren_role(line: str, close: int) -> str:
    """What kind of parenthesis closes at index `close`: 'group' (a parenthesised expression: the opening one follows
    an operator, a comma, another bracket or nothing), 'call' (the opening one follows a name, a bracket close or a
    string: an argument list), '?' when it does not open on this line."""
    depth = 0
    for j in range(close, -1, -1):
        ch = line[j]
        if ch in ")]}":
            depth += 1
        elif ch in "([{":
            depth -= 1
            if depth == 0:
                if ch != "(":
                    return "?"
                k = j - 1
                while k >= 0 and line[k] == " ":
                    k -= 1
                if k < 0:
                    return "group"
                prev = line[k]
                if prev.isalnum() or prev in "_)]}'\"":
                    w = re.search(r"[A-Za-z_]+$", line[: k + 1])
                    if w and w.group(0) in ("in", "not", "and", "or", "is", "if", "else", "return", "yield", "await", "lambda", "assert",
                                            "del", "raise", "from", "import", "for", "while", "with", "as", "case", "match", "elif", "except", "print"):
                        return "group"
                    return "call"
                return "group"
    return "?"


def _position_cause(comp: str, d: Diag, e: Diag, lt: list[bytes] | None) -> str:
    """Cause-level identity of a column/end disagreement, read off the SOURCE TEXT where that is conclusive:
    the characters that lie between the two reported positions when they are few (e.g. one parser counts an
    enclosing parenthesis or the `{` of an f-string field, the other does not), the kind of token a span-less
    diagnostic starts at; otherwise the message kind."""
    if lt is None or d.line is None or not (1 <= d.line <= len(lt)):
        return msgkind(d.text)
    if comp in ("end-missing-default", "end-missing-native") and d.col is not None:
        return "at=" + _token_class(lt[d.line - 1], d.col - 1)
    if comp == "column" and d.col is not None and e.col is not None:
        lo, hi = sorted((d.col - 1, e.col - 1))
        delta = lt[d.line - 1][lo:hi].decode("utf-8", "replace").strip()
        if 0 < len(delta) <= 2 and not delta.isalnum():
            return ("default-starts-before:" if d.col < e.col else "native-starts-before:") + delta
    if comp == "end" and d.el == e.el and d.el is not None and 1 <= d.el <= len(lt) and d.ec is not None and e.ec is not None:
        lo, hi = sorted((d.ec, e.ec))
        line = lt[d.el - 1].decode("utf-8", "replace")
        delta = line[lo:hi].strip()
        if 0 < len(delta) <= 2 and not delta.isalnum():
            role = ""
            if delta == ")":
                role = "[" + _paren_role(line, line.rfind(")", lo, hi)) + "]"
                if role == "[?]":
                    role += "|" + msgkind(d.text)
            return ("default-ends-after:" if d.ec > e.ec else "native-ends-after:") + delta + role
    return msgkind(d.text)


def _no_span(d: Diag) -> bool:
    """Shown span is the single character at the start position (what Errors.report substitutes for a missing end)."""
    return d.el == d.line and d.ec == d.col


def _fmt(k: tuple) -> str:
    f, ln, sev, text = k
    return f"{f}:{ln}: {sev}: {text}"[:200]


def first_blocker_kind(msgs: list[str]) -> str:
    for raw in msgs:
        d = parse_line(raw)
        if d is not None and d.sev == "error":
            return msgkind(d.text)
    return msgkind(msgs[0]) if msgs else "<no message>"


def split_by_file(msgs: list[str]) -> dict[str, list[str]]:
    out: dict[str, list[str]] = {}
    for raw in msgs:
        d = parse_line(raw)
        out.setdefault(d.file if d else "", []).append(raw)
    return out


def norm_path(p: str) -> str:
    return os.path.normpath(p).replace(os.sep, "/")
