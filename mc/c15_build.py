"""C15 helper: compile the generated module with mypyc from /repo's working tree.

Built the way mypyc/test/test_run.py builds (mypyc.build.mypycify + setuptools build_ext --inplace),
in a scratch directory, in a separate process whose cwd is that directory.  mypycify takes the
runtime C sources from /repo/mypyc/lib-rt (mypyc.build.include_dir()), so edits of lib-rt are seen.
"""

from __future__ import annotations

import os
import subprocess
import sys
import time

MODNAME = "c15mod"
REFNAME = "c15ref"
# The tree under test.  Always /repo for ./check; a scratch git worktree can be substituted when a
# candidate patch or a seeded defect must be examined without touching /repo.
TREE = os.environ.get("VERIF_C15_TREE", "/repo").rstrip("/")

SETUP = """\
from setuptools import setup
from mypyc.build import mypycify

setup(name='c15_build',
      ext_modules=mypycify(['{mod}.py'], opt_level='{opt}', debug_level='0', strip_asserts=False))
"""


def build_env() -> dict[str, str]:
    env = dict(os.environ)
    env["PYTHONPATH"] = TREE
    env["PYTHONDONTWRITEBYTECODE"] = "1"
    env.pop("MYPYC_OPT_LEVEL", None)
    env.pop("CFLAGS", None)
    return env


def build(job: dict) -> dict:
    """job = {"dir", "opt", "source"}; returns {"ok", "seconds", "log", "opt", "dir", "lib_rt"}."""
    d = job["dir"]
    os.makedirs(d, exist_ok=True)
    with open(os.path.join(d, MODNAME + ".py"), "w") as f:
        f.write(job["source"])
    with open(os.path.join(d, "setup.py"), "w") as f:
        f.write(SETUP.format(mod=MODNAME, opt=job["opt"]))
    t0 = time.time()
    try:
        p = subprocess.run([sys.executable, "setup.py", "build_ext", "--inplace"], cwd=d, env=build_env(),
                           stdout=subprocess.PIPE, stderr=subprocess.STDOUT, timeout=job.get("timeout", 1500))
        rc, out = p.returncode, p.stdout.decode("utf8", "replace")
    except subprocess.TimeoutExpired as e:
        rc, out = -999, "TIMEOUT\n" + (e.stdout or b"").decode("utf8", "replace")
    secs = time.time() - t0
    sos = [n for n in os.listdir(d) if n.startswith(MODNAME + ".") and n.endswith(".so")]
    ok = rc == 0 and len(sos) == 1
    # which runtime sources were used (evidence that the working tree's lib-rt was compiled)
    lib_rt = ""
    for line in out.splitlines():
        if "lib-rt" in line and " -I" in line:
            for tok in line.split():
                if tok.startswith("-I") and "lib-rt" in tok:
                    lib_rt = tok[2:]
            break
    return {"ok": ok, "rc": rc, "seconds": round(secs, 2), "log": out[-6000:], "opt": job["opt"], "dir": d,
            "lib_rt": lib_rt, "tag": job.get("tag", "")}
