"""C16 daemon lane (S2): the real mypy.dmypy_server.Server.serve() loop in a forked child, talked to
over its real AF_UNIX socket by well-behaved (mypy.ipc.IPCClient + dmypy_util.send/receive) and
misbehaving (raw socket) clients.

Owned environment: everything lives in a scratch directory on /dev/shm (project files, status
file, socket directory via TMPDIR, daemon log); the daemon child carries PR_SET_PDEATHSIG=SIGKILL
and is always killed + reaped by the harness; no verdict depends on wall-clock time (timeouts only
bound how long the harness waits before declaring a *harness* error).
"""

from __future__ import annotations

import ctypes
import hashlib
import json
import os
import shutil
import signal
import socket
import struct
import sys
import tempfile
import time
import traceback
from typing import Any

import mypy.build  # noqa: F401  (preloaded so that forked daemons / cold runs do not re-import)
import mypy.dmypy_server  # noqa: F401
import mypy.dmypy_util  # noqa: F401
import mypy.find_sources  # noqa: F401
import mypy.ipc  # noqa: F401

from mc.kernel import run_isolated

BASE_TIME = 1_600_000_000
WAIT = 180.0  # generous: only bounds waiting for things that must happen anyway
POLL = 10.0  # while waiting for a reply, how often to look whether the daemon is working or blocked
FILES = ["a.py", "b.py"]

# --------------------------------------------------------------------------- the program under check

BASE_TREE = {
    "a.py": "def f(x: int) -> int:\n    return x\n",
    "b.py": "import a\ny: int = a.f(1)\n",
}
# edits = "set file to content" (absolute), so a tree is a function of the set of edits applied last
EDITS = {
    "e1": ("a.py", "def f(x: int) -> str:\n    return ''\n"),  # b.py: incompatible assignment
    "e2": ("b.py", "import a\ny: int = a.f('s')\n"),  # b.py: arg-type (under base a.py)
    "e3": ("a.py", "def f(x: int, z: str = '') -> int:\n    return z\n"),  # a.py: return-value error
    "probe": ("b.py", "import a\ny: str = a.f(1)\nz: int = a.f()\n"),
}


def daemon_options() -> Any:
    """Options as a `dmypy start` with fixture stubs would hand to Server (which then forces
    incremental/fine_grained_incremental/local_partial_types/cache_dir=devnull/num_workers=0)."""
    from mypy.options import Options

    o = Options()
    o.use_builtins_fixtures = True
    o.show_traceback = True
    o.error_summary = False
    o.local_partial_types = True
    return o


def cold_options() -> Any:
    """Same effective, output-affecting options for the cold reference: a plain non-incremental
    mypy.build.build with what the server forces that can change diagnostics (local_partial_types)."""
    o = daemon_options()
    o.incremental = False
    o.cache_dir = os.devnull
    o.local_partial_types = True
    o.num_workers = 0
    return o


def _cold_build(proj: str) -> dict[str, Any]:
    import mypy.build
    from mypy.errors import CompileError
    from mypy.find_sources import create_source_list
    from mypy.fscache import FileSystemCache

    os.chdir(proj)
    o = cold_options()
    fsc = FileSystemCache()
    sources = create_source_list(FILES, o, fsc)
    try:
        res = mypy.build.build(sources=sources, options=o, fscache=fsc)
        return {"messages": list(res.errors), "blocker": False}
    except CompileError as e:
        return {"messages": list(e.messages), "blocker": True}


def tree_key(proj: str) -> str:
    h = hashlib.sha1()
    for fn in sorted(os.listdir(proj)):
        if fn.endswith(".py"):
            with open(os.path.join(proj, fn), "rb") as f:
                h.update(fn.encode() + b"\0" + f.read() + b"\0")
    return h.hexdigest()[:16]


def cold_reference(proj: str, memo_dir: str) -> dict[str, Any]:
    """Cold mypy.build.build on the CURRENT files of proj (fresh forked process).  Memoised by the
    bytes of the files as read back from disk (the reference is a function of nothing else)."""
    k = tree_key(proj)
    mp = os.path.join(memo_dir, k + ".json")
    try:
        with open(mp) as f:
            return json.load(f)
    except (OSError, ValueError):
        pass
    # run on a private copy so that a concurrent edit cannot interfere and cwd-relative paths agree
    cp = tempfile.mkdtemp(prefix="cold-", dir=memo_dir)
    try:
        for fn in os.listdir(proj):
            if fn.endswith(".py"):
                shutil.copy2(os.path.join(proj, fn), os.path.join(cp, fn))
        res = run_isolated(_cold_build, cp, timeout=WAIT)
    finally:
        shutil.rmtree(cp, ignore_errors=True)
    res["tree"] = k
    tmp = mp + f".{os.getpid()}.tmp"
    with open(tmp, "w") as f:
        json.dump(res, f)
    os.replace(tmp, mp)
    return res


# --------------------------------------------------------------------------- daemon process


def _set_pdeathsig() -> None:
    try:
        libc = ctypes.CDLL(None, use_errno=True)
        libc.prctl(1, signal.SIGKILL, 0, 0, 0)  # PR_SET_PDEATHSIG
    except Exception:
        pass


class Daemon:
    """One real Server.serve() loop in a forked child of this process."""

    def __init__(self, work: str) -> None:
        self.work = work
        self.proj = os.path.join(work, "p")
        self.sockdir = os.path.join(work, "s")
        self.status_file = os.path.join(self.proj, ".dmypy.json")
        self.log_path = os.path.join(work, "log")
        self.accepts_path = os.path.join(work, "accepts")
        os.makedirs(self.proj)
        os.makedirs(self.sockdir)
        self.clock = 0
        for fn, text in BASE_TREE.items():
            self.write_file(fn, text)
        self.pid = 0
        self.exit_status: int | None = None  # raw waitpid status once reaped
        self.sock_name = ""

    # -- files (owned clock: every write gets a fresh, deterministic mtime)
    def write_file(self, fn: str, text: str) -> None:
        p = os.path.join(self.proj, fn)
        with open(p, "w", newline="") as f:
            f.write(text)
        self.clock += 1
        os.utime(p, (BASE_TIME + self.clock, BASE_TIME + self.clock))

    def start(self) -> None:
        sys.stdout.flush()
        sys.stderr.flush()
        ppid = os.getpid()
        pid = os.fork()
        if pid == 0:
            code = 70
            try:
                _set_pdeathsig()
                if os.getppid() != ppid:
                    os._exit(71)
                self._child()
                code = 0
            except SystemExit as e:
                code = e.code if isinstance(e.code, int) else (0 if e.code is None else 1)
            except BaseException:  # noqa: BLE001 - serve() already printed the traceback to the log
                code = 70
            finally:
                try:
                    sys.stdout.flush()
                    sys.stderr.flush()
                except Exception:
                    pass
                os._exit(code)
        self.pid = pid
        # wait until the daemon has published itself (status file) -- or died trying
        deadline = time.time() + WAIT
        while True:
            if os.path.isfile(self.status_file):
                try:
                    with open(self.status_file) as f:
                        st = json.load(f)
                    self.sock_name = st["connection_name"]
                    assert st["pid"] == pid, (st, pid)
                    return
                except ValueError:
                    pass  # being written
            if self.poll_exit() is not None:
                raise RuntimeError(f"daemon died during start-up: {self.log()[-2000:]}")
            if time.time() > deadline:
                raise RuntimeError("daemon did not publish a status file")
            time.sleep(0.001)

    def _child(self) -> None:
        os.chdir(self.proj)
        os.environ["TMPDIR"] = self.sockdir
        for v in ("MYPYPATH", "MYPY_FORCE_COLOR", "FORCE_COLOR", "MYPY_TEST_PREFIX"):
            os.environ.pop(v, None)
        tempfile.tempdir = self.sockdir
        fd = os.open(self.log_path, os.O_WRONLY | os.O_CREAT | os.O_APPEND, 0o600)
        dn = os.open(os.devnull, os.O_RDONLY)
        os.dup2(dn, 0)
        os.dup2(fd, 1)
        os.dup2(fd, 2)
        sys.stdout = sys.stderr = os.fdopen(fd, "w", buffering=1)
        # pure observation: count accepted connections, so that a daemon exit can be attributed to
        # the client step whose connection it was serving
        import mypy.ipc as ipc

        afd = os.open(self.accepts_path, os.O_WRONLY | os.O_CREAT | os.O_APPEND, 0o600)
        orig_enter = ipc.IPCServer.__enter__

        def counting_enter(s: Any) -> Any:
            r = orig_enter(s)
            os.write(afd, b"a")
            return r

        ipc.IPCServer.__enter__ = counting_enter  # type: ignore[method-assign]
        from mypy.dmypy_server import Server

        server = Server(daemon_options(), self.status_file)
        server.serve()

    # -- process state
    def poll_exit(self) -> int | None:
        if self.exit_status is not None:
            return self.exit_status
        try:
            p, st = os.waitpid(self.pid, os.WNOHANG)
        except ChildProcessError:
            self.exit_status = -1
            return self.exit_status
        if p == self.pid:
            self.exit_status = st
        return self.exit_status

    def wait_exit(self, timeout: float = WAIT) -> int | None:
        deadline = time.time() + timeout
        while self.poll_exit() is None:
            if time.time() > deadline:
                return None
            time.sleep(0.001)
        return self.exit_status

    def cpu_ticks(self) -> tuple[str, int] | None:
        """(scheduler state, utime+stime) of the daemon process, None if it is gone."""
        try:
            with open(f"/proc/{self.pid}/stat") as f:
                rest = f.read().rsplit(")", 1)[1].split()
            return rest[0], int(rest[11]) + int(rest[12])
        except (OSError, IndexError, ValueError):
            return None

    def wait_exit_unless_idle(self) -> int | None:
        """Wait for the process to end; give up early (None) when it demonstrably is not going to:
        sleeping with no CPU used between two looks POLL seconds apart."""
        last = None
        total = 0.0
        while total < WAIT:
            if self.wait_exit(POLL) is not None:
                return self.exit_status
            total += POLL
            cur = self.cpu_ticks()
            if cur is not None and cur == last and cur[0] in "SD":
                return None
            last = cur
        return None

    def accepts(self) -> int:
        try:
            return os.path.getsize(self.accepts_path)
        except OSError:
            return 0

    def log(self) -> str:
        try:
            with open(self.log_path, errors="replace") as f:
                return f.read()
        except OSError:
            return ""

    def exit_desc(self) -> str:
        st = self.exit_status
        if st is None:
            return "alive"
        if st == -1:
            return "reaped-elsewhere"
        if os.WIFSIGNALED(st):
            return f"signal {os.WTERMSIG(st)}"
        return f"exit {os.WEXITSTATUS(st)}"

    def destroy(self) -> None:
        if self.pid and self.exit_status is None:
            try:
                os.kill(self.pid, signal.SIGKILL)
            except ProcessLookupError:
                pass
            try:
                _, self.exit_status = os.waitpid(self.pid, 0)
            except ChildProcessError:
                self.exit_status = -1
        shutil.rmtree(self.work, ignore_errors=True)


# --------------------------------------------------------------------------- clients


class Gone(Exception):
    """Could not even connect: nobody is listening on the daemon's socket any more."""


def _request(command: str, **kw: Any) -> dict[str, Any]:
    """The dict mypy.dmypy.client.request() would send (is_tty / terminal_width fixed)."""
    args = dict(kw)
    args["command"] = command
    args["is_tty"] = False
    args["terminal_width"] = 80
    return args


REQ_STATUS = _request("status", fswatcher_dump_file=None)
REQ_CHECK = _request("check", files=FILES, export_types=False)
REQ_RECHECK = _request("recheck", export_types=False)
REQ_STOP = _request("stop")


def frame(payload: bytes) -> bytes:
    return struct.pack("!L", len(payload)) + payload


def wire(req: Any) -> bytes:
    """Bytes a well-behaved client puts on the wire (dmypy_util.send = json.dumps + frame)."""
    return frame(json.dumps(req).encode("utf-8"))


class Blocked(Exception):
    """The daemon sits idle (sleeping, no CPU used between two polls) while a client that has sent
    its complete request - and said so by half-closing - waits for the reply."""


def _await_reply(d: "Daemon", fn: Any) -> Any:
    """Run the blocking receive `fn` (socket timeout POLL), retrying while the daemon is busy."""
    waited = 0.0
    last = None
    while True:
        try:
            return fn()
        except TimeoutError:
            waited += POLL
            cur = d.cpu_ticks()
            if cur is not None and cur == last and cur[0] in "SD":
                raise Blocked() from None
            last = cur
            if waited >= WAIT:
                raise


def rpc(d: "Daemon", req: dict[str, Any]) -> dict[str, Any]:
    """Well-behaved client: real IPCClient + dmypy_util.send/receive, like client.request().

    One addition: after sending its request the client half-closes (SHUT_WR).  The protocol is one
    request per connection, so this changes nothing for a daemon that reads the frame it was sent,
    but a daemon that waits for bytes that will never come sees EOF instead of dead-locking with us.
    """
    from mypy.dmypy_util import receive, send
    from mypy.ipc import IPCClient, IPCException

    try:
        # blocking connect (an AF_UNIX connect under a socket timeout fails with EAGAIN on a full backlog)
        client = IPCClient(d.sock_name, None)
    except (ConnectionRefusedError, FileNotFoundError) as e:
        raise Gone(str(e)) from e
    out: dict[str, Any] = {}
    with client:
        client.connection.settimeout(POLL)
        try:
            send(client, req)
            client.connection.shutdown(socket.SHUT_WR)
            final = False
            extra_out: list[str] = []
            while not final:
                resp = _await_reply(d, lambda: receive(client))
                final = bool(resp.pop("final", False))
                for key in ("stdout", "stderr"):
                    v = resp.pop(key, None)
                    if v:
                        extra_out.append(v)
                out = resp
            if extra_out:
                out["_daemon_output"] = "".join(extra_out)
        except Blocked:
            return {"_noreply": "blocked"}
        except TimeoutError:
            return {"_noreply": "timeout"}
        except (OSError, IPCException) as e:
            return {"_noreply": f"{type(e).__name__}: {e}"}
    return out


def raw(d: "Daemon", data: bytes, read_reply: bool) -> dict[str, Any]:
    """Misbehaving client on a raw socket: send exactly `data`, then either close at once or
    (half-close and) wait for whatever the daemon answers: a reply, or EOF when it drops us."""
    from mypy.ipc import IPCBase

    s = socket.socket(socket.AF_UNIX, socket.SOCK_STREAM)
    try:
        try:
            s.connect(d.sock_name)
        except (ConnectionRefusedError, FileNotFoundError) as e:
            raise Gone(str(e)) from e
        s.settimeout(POLL)
        try:
            if data:
                s.sendall(data)
        except OSError as e:
            return {"_noreply": f"send failed: {type(e).__name__}"}
        if not read_reply:
            return {"_closed": True}
        conn = IPCBase("c16-raw", POLL)
        conn.connection = s
        out: dict[str, Any] = {}
        try:
            s.shutdown(socket.SHUT_WR)
            final = False
            while not final:
                b = _await_reply(d, conn.read_bytes)
                if not b:
                    return {"_noreply": "EOF"}
                resp = json.loads(b.decode("utf-8"))
                final = bool(resp.pop("final", False))
                resp.pop("stdout", None)
                resp.pop("stderr", None)
                out = resp
        except Blocked:
            return {"_noreply": "blocked"}
        except TimeoutError:
            return {"_noreply": "timeout"}
        except OSError as e:
            return {"_noreply": f"{type(e).__name__}"}
        return out
    finally:
        s.close()


# --------------------------------------------------------------------------- behaviour alphabet

PARTIAL_OF = wire(REQ_STATUS)  # the valid request whose every proper prefix is sent by close-after-k
OVERSIZED = struct.pack("!L", 0x7FFFFFFF) + b'{"command": "status"}'

# label -> (kind, description).  Kinds group manifestations of one cause for signatures.
MALFORMED: dict[str, tuple[bytes, str]] = {
    "non-utf8": (frame(b"\xff\xfe{\x80"), "valid frame whose payload is not UTF-8"),
    "non-json": (frame(b"this is not json"), "valid frame, payload is not JSON"),
    "json-list": (frame(b'["status"]'), "valid frame, JSON but not a dict (list)"),
    "json-int": (frame(b"42"), "valid frame, JSON but not a dict (number)"),
    "no-command": (wire({"is_tty": False, "terminal_width": 80}), "dict without `command`"),
    "command-int": (wire({"command": 5, "is_tty": False, "terminal_width": 80}), "non-string `command` (int)"),
    "command-list": (wire({"command": ["status"], "is_tty": False, "terminal_width": 80}), "non-string `command` (list)"),
    "unknown-command": (wire(_request("frobnicate")), "unknown command"),
    "status-extra-arg": (wire(_request("status", bogus=1)), "known command `status` with an unexpected argument"),
    "check-missing-args": (wire(_request("check")), "known command `check` without its arguments"),
    "status-missing-tty": (wire({"command": "status"}), "known command `status` without is_tty/terminal_width"),
    "stop-extra-arg": (wire(_request("stop", bogus=1)), "known command `stop` with an unexpected argument"),
}
# a complete, valid request followed by bytes that do not belong to it (read the reply, close)
TRAILING: dict[str, tuple[bytes, str]] = {
    "status+stray": (wire(REQ_STATUS) + b"xx", "valid status request followed by 2 stray bytes"),
    "status+check": (wire(REQ_STATUS) + wire(REQ_CHECK), "valid status request followed by a second request (check) in the same connection"),
}
WRONG_ARGS = {"status-extra-arg", "check-missing-args", "status-missing-tty", "stop-extra-arg"}


def kind_of(label: str) -> str:
    """Client-behaviour kind (groups the manifestations of one behaviour for signatures)."""
    if label.startswith("close@"):
        k = int(label[6:])
        return "close-mid-header" if k < 4 else "close-mid-body"
    if label in ("json-list", "json-int"):
        return "json-non-dict"
    if label in ("command-int", "command-list"):
        return "non-string-command"
    if label in ("status-extra-arg", "check-missing-args", "status-missing-tty"):
        return "wrong-args"
    if label == "stop-extra-arg":
        return "wrong-args-stop"
    return label


def full_alphabet() -> list[str]:
    a = ["status", "check", "recheck", "edit-e1+check", "edit-e2+check", "edit-e3+check", "connect-close"]
    a += [f"close@{k}" for k in range(1, len(PARTIAL_OF))]
    a += list(MALFORMED)
    a += ["oversized-header", "status-noread", "check-noread"]
    a += list(TRAILING)
    return a


def reduced_alphabet() -> list[str]:
    """Representative k's: first header byte, last header byte, header complete/no body, first body
    byte, middle of the body, all but the last byte."""
    n = len(PARTIAL_OF)
    ks = sorted({1, 3, 4, 5, n // 2, n - 1})
    a = ["status", "check", "recheck", "edit-e1+check", "edit-e2+check", "edit-e3+check", "connect-close"]
    a += [f"close@{k}" for k in ks]
    a += ["non-utf8", "non-json", "json-list", "no-command", "command-int", "unknown-command",
          "status-extra-arg", "check-missing-args"]
    a += ["oversized-header", "status-noread", "check-noread"]
    a += list(TRAILING)
    return a


def do_step(d: Daemon, label: str) -> dict[str, Any]:
    """Execute one client behaviour against the daemon; returns what the client saw."""
    if label == "status":
        return rpc(d, REQ_STATUS)
    if label == "check":
        return rpc(d, REQ_CHECK)
    if label == "recheck":
        return rpc(d, REQ_RECHECK)
    if label == "stop":
        return rpc(d, REQ_STOP)
    if label.startswith("edit-"):
        e = label[5:].split("+")[0]
        fn, text = EDITS[e]
        d.write_file(fn, text)
        return rpc(d, REQ_CHECK)
    if label == "connect-close":
        return raw(d, b"", read_reply=False)
    if label.startswith("close@"):
        return raw(d, PARTIAL_OF[: int(label[6:])], read_reply=False)
    if label in MALFORMED:
        return raw(d, MALFORMED[label][0], read_reply=True)
    if label in TRAILING:
        return raw(d, TRAILING[label][0], read_reply=True)
    if label == "oversized-header":
        return raw(d, OVERSIZED, read_reply=False)
    if label == "status-noread":
        return raw(d, wire(REQ_STATUS), read_reply=False)
    if label == "check-noread":
        return raw(d, wire(REQ_CHECK), read_reply=False)
    raise ValueError(label)


# --------------------------------------------------------------------------- one sequence


def _cause_from_log(log: str) -> str:
    """Last exception line + innermost mypy frame of the traceback the dying daemon printed."""
    lines = [ln for ln in log.splitlines() if ln.strip()]
    exc = ""
    for ln in reversed(lines):
        if not ln.startswith(" ") and ":" in ln and not ln.startswith("Traceback"):
            exc = ln.strip()
            break
    where = ""
    frames = [ln.strip() for ln in lines if ln.strip().startswith('File "')]
    # outermost frame inside Server.serve (where the exception escaped) and innermost frame
    for fr in frames:
        if "dmypy_server.py" in fr and "in serve" in fr:
            where = fr
    inner = frames[-1] if frames else ""

    def short(fr: str) -> str:
        # File "/repo/mypy/dmypy_server.py", line 230, in serve
        try:
            path = fr.split('"')[1]
            rest = fr.split('",', 1)[1].strip()
            return f"{os.path.basename(path)} {rest}"
        except IndexError:
            return fr

    return f"{exc} [escaped at {short(where)}; raised at {short(inner)}]" if exc else "no traceback in daemon log"


def _exc_type(cause: str) -> str:
    head = cause.split(" [", 1)[0]
    return head.split(":", 1)[0].strip() if head else "?"


def exit_signature(parts: dict[str, Any], intrinsic: set[tuple[str, str]] | None) -> str:
    """Cause-level signature of a daemon exit.

    `intrinsic` = (behaviour, exception type) pairs with which a behaviour makes the daemon exit
    all by itself, as MEASURED by the length-1 sequences of the same run (None = not known yet:
    provisional signature).  A daemon
    that dies while serving a behaviour that is harmless on its own died of what came before:
    bytes left behind by the previous connection, if that one sent more than its request."""
    killer, prev, exc = parts["killer"], parts["prev"], parts["exc"]
    if intrinsic is not None and (killer, exc) in intrinsic:
        return f"daemon-exits|{kind_of(killer)}|{exc}"
    if prev in TRAILING:
        return f"daemon-exits|next-client-after:{prev}|{exc}"
    if killer in WELL_FORMED:
        return f"daemon-exits|well-formed-request-after:{parts['faults']}|{exc}"
    return f"daemon-exits|{kind_of(killer)}|{exc}"


def run_sequence(seq: tuple[str, ...], work: str, memo_dir: str, final: str = "stop") -> dict[str, Any]:
    """Start a fresh daemon, play `seq`, then the probe status -> edit -> check, then stop.

    Returns {"steps": n executed, "violations": [...], "states": [...], "harness_errors": [...], ...}
    """
    d = Daemon(work)
    out: dict[str, Any] = {"seq": list(seq), "steps": 0, "violations": [], "states": [], "harness_errors": [],
                           "checks_compared": 0, "died": False, "outcomes": [], "check_outputs": [], "served": 0}
    viol = out["violations"]
    initialised = False  # daemon has done a successful first check (has a fine-grained manager)
    conn_labels: list[str] = []  # one entry per connection made, in order
    conn_extra: list[bool] = []  # True for connections made only to find out whether the daemon lives

    def faults_before(n: int) -> str:
        """Kinds of the misbehaviours among the first n connections (cause context for signatures)."""
        return "+".join(sorted({kind_of(x) for x in conn_labels[:n] if x not in WELL_FORMED})) or "no-fault"

    def ctx(i: int) -> str:
        """Cause context of something going wrong on connection i (0-based): when the connection
        right before it left bytes behind, that is the cause; otherwise name all earlier faults."""
        if i > 0 and conn_labels[i - 1] in TRAILING:
            return f"next-client-after:{conn_labels[i - 1]}"
        return "after:" + faults_before(i)

    def state() -> tuple:
        return ("alive" if d.exit_status is None else "dead", initialised, tree_key(d.proj))

    def compare(label: str, reply: dict[str, Any]) -> None:
        ref = cold_reference(d.proj, memo_dir)
        got = (reply.get("out", "") + reply.get("err", "")).splitlines()
        out["checks_compared"] += 1
        out["check_outputs"].append("\n".join(got))
        ok = sorted(got) == sorted(ref["messages"])
        status_ok = (reply.get("status", None) != 0) == bool(ref["messages"])
        if not (ok and status_ok):
            viol.append({
                "signature": "wrong-check-result|" + ctx(len(conn_labels) - 1),
                "what": f"after {list(seq)} the daemon's `{label}` says {got[:3]} (status {reply.get('status')}); "
                        f"a cold run on the same files says {ref['messages'][:3]}",
                "detail": {"seq": list(seq), "at": label, "daemon": got, "cold": ref["messages"],
                           "daemon_status": reply.get("status")},
            })

    def dead_report(at: str) -> None:
        """The daemon is gone (or going): reap it, attribute the exit, check the status file."""
        out["died"] = True
        st = d.wait_exit()
        if st is None:
            out["harness_errors"].append(f"{list(seq)}: socket gone but daemon process still alive after {WAIT}s")
            return
        acc = d.accepts()
        killer = conn_labels[acc - 1] if 0 < acc <= len(conn_labels) else "?"
        cause = _cause_from_log(d.log())
        out["killer"] = killer
        out["killer_exc"] = _exc_type(cause)
        out["cause"] = cause
        parts = {"killer": killer, "prev": conn_labels[acc - 2] if acc > 1 else None, "exc": _exc_type(cause),
                 "faults": faults_before(max(acc - 1, 0))}
        sig = exit_signature(parts, None)
        viol.append({
            "signature": sig,
            "what": f"client behaviour `{killer}` ({describe(killer)}) makes the daemon exit ({d.exit_desc()}): {cause}; "
                    f"sequence {list(seq)} + probe",
            "sig_parts": parts,
            "detail": {"seq": list(seq), "killer": killer, "killer_connection": acc, "noticed_at": at,
                       "cause": cause, "exit": d.exit_desc(), "log_tail": d.log()[-1500:]},
        })
        if os.path.exists(d.status_file):
            viol.append({
                "signature": f"status-file-left|{kind_of(killer)}",
                "what": f"daemon process is gone ({d.exit_desc()}, after `{killer}`) but its status file still names it",
                "detail": {"seq": list(seq), "killer": killer, "cause": cause},
            })

    try:
        d.start()
        out["states"].append(state())
        plan = [(lab, "seq") for lab in seq] + [("status", "probe"), ("edit-probe+check", "probe")]
        alive = True

        def step(label: str, extra: bool = False) -> dict[str, Any]:
            conn_labels.append(label)
            conn_extra.append(extra)
            try:
                r = do_step(d, label)
            except Gone:
                conn_labels.pop()
                conn_extra.pop()
                raise
            out["steps"] += 1
            out["outcomes"].append(_outcome(label, r))
            return r

        def settle() -> str:
            """A well-formed request got no reply.  Find out - by talking to the daemon, not by
            waiting - whether it is gone (dead) or merely dropped the request (alive)."""
            for _ in range(100):
                if d.poll_exit() is not None:
                    return "dead"
                try:
                    r = step("status", extra=True)
                except Gone:
                    return "dead"
                if "_noreply" not in r:
                    return "alive"
                time.sleep(0.005)
            return "unknown"

        for label, _phase in plan:
            try:
                reply = step(label)
            except Gone:
                dead_report(label)
                alive = False
                break
            if reply.get("_noreply") == "timeout":
                out["harness_errors"].append(f"{list(seq)}: no reply to `{label}` within {WAIT}s (daemon busy)")
                alive = False
                break
            if reply.get("_noreply") == "blocked":
                viol.append({
                    "signature": f"daemon-unresponsive|{kind_of(label) if label not in WELL_FORMED else 'well-formed-request'}"
                                 f"|{ctx(len(conn_labels) - 1)}",
                    "what": f"`{label}` sent completely, daemon alive but idle and never answers; sequence {list(seq)} + probe",
                    "detail": {"seq": list(seq), "at": label, "daemon_state": d.cpu_ticks()},
                })
                out["blocked"] = True
                alive = False
                break
            vi = len(conn_labels) - 1  # index of this step's connection
            if label in WELL_FORMED:
                if "_noreply" in reply:
                    # a well-formed request went unanswered: either the daemon is dying or it dropped us
                    how = settle()
                    if how == "alive" and vi > 0 and conn_labels[vi - 1] in TRAILING:
                        # served with the previous connection's left-over request and hung up on,
                        # possibly before we had sent ours: same cause as a mismatched reply
                        out["outcomes"][vi] = f"{kind_of(label)}:mismatched-reply"
                        viol.append({"signature": f"reply-mismatch|{ctx(vi)}",
                                     "what": f"`{label}` was answered with the reply to a different request (connection closed on "
                                             f"us: {reply['_noreply']}); sequence {list(seq)} + probe",
                                     "detail": {"seq": list(seq), "at": label}})
                        out["states"].append(state())
                        continue
                    if how == "alive":
                        viol.append({"signature": f"request-dropped|{kind_of(label)}|{ctx(vi)}",
                                     "what": f"well-formed `{label}` got no reply ({reply['_noreply']}) although the daemon lives on",
                                     "detail": {"seq": list(seq), "at": label}})
                        out["states"].append(state())
                        continue
                    if how == "unknown":
                        out["harness_errors"].append(f"{list(seq)}: daemon neither answers nor exits")
                    else:
                        dead_report(label)
                    alive = False
                    break
                if (label == "status" and "out" in reply) or (label != "status" and "error" not in reply and "out" not in reply):
                    out["outcomes"][vi] = f"{kind_of(label)}:mismatched-reply"
                    viol.append({"signature": f"reply-mismatch|{ctx(vi)}",
                                 "what": f"`{label}` was answered with the reply to a different request (keys {sorted(reply)}); "
                                         f"sequence {list(seq)} + probe",
                                 "detail": {"seq": list(seq), "at": label, "reply_keys": sorted(reply)}})
                    out["states"].append(state())
                    continue
                if label == "status" and "error" in reply:
                    viol.append({"signature": f"status-error-reply|{ctx(vi)}",
                                 "what": f"well-formed status answered with error {str(reply['error'])[:200]!r}; sequence {list(seq)} + probe",
                                 "detail": {"seq": list(seq), "reply": reply}})
                if label in ("check", "recheck") or label.startswith("edit-"):
                    err = str(reply.get("error", ""))
                    if label == "recheck" and "only valid after a 'check'" in err:
                        pass  # the daemon has not checked anything yet and says so
                    elif "error" in reply:
                        viol.append({"signature": f"check-error-reply|{ctx(vi)}",
                                     "what": f"well-formed `{label}` answered with error: {err[-300:]!r}; sequence {list(seq)} + probe",
                                     "detail": {"seq": list(seq), "reply": reply}})
                    else:
                        compare(label, reply)
            if label in ("check", "check-noread") or label.startswith("edit-"):
                initialised = True
            out["states"].append(state())
        if alive:
            # the daemon answered the whole probe: it must still be a live process ...
            if d.poll_exit() is not None:
                dead_report("after-probe")
            else:
                # ... and a final stop must end it cleanly and leave no status file behind
                try:
                    r = step(final)
                except Gone:
                    dead_report("stop")
                    return out  # (the finally block below still runs)
                if "_noreply" in r or "error" in r:
                    viol.append({"signature": f"stop-not-acknowledged|{ctx(len(conn_labels) - 1)}",
                                 "what": f"well-formed stop answered {str(r)[:200]}; sequence {list(seq)} + probe",
                                 "detail": {"seq": list(seq), "reply": r}})
                elif d.wait_exit_unless_idle() is None:
                    viol.append({"signature": f"stop-ignored|{ctx(len(conn_labels) - 1)}",
                                 "what": f"daemon acknowledged stop but keeps running; sequence {list(seq)} + probe",
                                 "detail": {"seq": list(seq)}})
                else:
                    if os.path.exists(d.status_file):
                        viol.append({"signature": "status-file-left|stop", "what": "status file still present after stop",
                                     "detail": {"seq": list(seq)}})
                    if d.exit_desc() != "exit 0":
                        viol.append({"signature": "stop-unclean-exit", "what": f"daemon ended with {d.exit_desc()} after stop",
                                     "detail": {"seq": list(seq), "log_tail": d.log()[-800:]}})
                    out["states"].append(("stopped", initialised, tree_key(d.proj)))
    except Exception as e:  # noqa: BLE001 - harness trouble, not a verdict
        out["harness_errors"].append(f"{list(seq)}: {type(e).__name__}: {e}\n{traceback.format_exc()[-600:]}")
    finally:
        # Deterministic accounting: only what the daemon really accepted and served counts (a
        # connection queued behind a dying daemon may or may not get in, depending on timing).
        acc = d.accepts()
        plan_served = [i for i in range(min(acc, len(conn_labels))) if not conn_extra[i]]
        out["served"] = len(plan_served)
        out["outcomes"] = [out["outcomes"][i] for i in plan_served if i < len(out["outcomes"])]
        out["states"] = [list(x) for x in out["states"][: len(plan_served) + 1]]
        if out["died"]:
            out["states"].append(["dead"])
        out["check_outputs"] = sorted(set(out["check_outputs"]))
        d.destroy()
    return out


WELL_FORMED = {"status", "check", "recheck", "stop", "edit-e1+check", "edit-e2+check", "edit-e3+check", "edit-probe+check"}


def describe(label: str) -> str:
    if label.startswith("close@"):
        return f"close after {label[6:]} of {len(PARTIAL_OF)} bytes of a valid status request"
    if label in MALFORMED:
        return MALFORMED[label][1]
    if label in TRAILING:
        return TRAILING[label][1]
    return {
        "connect-close": "connect, send nothing, close",
        "oversized-header": "length header 0x7fffffff, a few bytes, close",
        "status-noread": "valid status request, close without reading the reply",
        "check-noread": "valid check request, close without reading the reply",
    }.get(label, label)


def _outcome(label: str, reply: dict[str, Any]) -> str:
    if "_noreply" in reply:
        return f"{kind_of(label)}:noreply"
    if "_closed" in reply:
        return f"{kind_of(label)}:closed"
    if "error" in reply:
        return f"{kind_of(label)}:error-reply"
    if "status" in reply:
        return f"{kind_of(label)}:checked-status{reply['status']}"
    return f"{kind_of(label)}:ok"


# --------------------------------------------------------------------------- pmap item


def run_batch(item: dict[str, Any]) -> dict[str, Any]:
    """item = {"seqs": [tuple,...], "root": scratch dir, "memo": memo dir, "tag": str}"""
    res = []
    for i, seq in enumerate(item["seqs"]):
        work = os.path.join(item["root"], f"{item['tag']}-{i}")
        if os.path.exists(work):
            shutil.rmtree(work)
        os.makedirs(work)
        res.append(run_sequence(tuple(seq), work, item["memo"]))
    return {"results": res}


def kill_leftovers(root: str) -> int:
    """SIGKILL every process whose cwd is under `root` (daemons orphaned by a harness timeout)."""
    n = 0
    me = os.getpid()
    for p in os.listdir("/proc"):
        if not p.isdigit() or int(p) == me:
            continue
        try:
            cwd = os.readlink(f"/proc/{p}/cwd")
        except OSError:
            continue
        if cwd == root or cwd.startswith(root + "/") or cwd.startswith(root + " "):
            try:
                os.kill(int(p), signal.SIGKILL)
                n += 1
            except OSError:
                pass
    return n
