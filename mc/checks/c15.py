"""C15 — compiled numeric primitives compute exactly what Python computes (S3, exploration).

One generated module with one function per (operator x operand static types) is compiled with mypyc
from /repo's working tree (mypycify + build_ext, lib-rt C sources of the working tree) at opt level 0
and 3.  In subprocesses that import the compiled module, every function is evaluated on ALL tuples of
its operand domains (boundary set B x B, shift counts / exponents from S, floats F) and compared with
the same source evaluated by the interpreter.  See mc/c15_gen.py (functions), mc/c15_driver.py
(domains + oracle), DESIGN.md section 4 / C15.
"""

from __future__ import annotations

import json
import os
import shutil
import signal
import subprocess
import sys
import time
from collections import Counter
from concurrent.futures import ThreadPoolExecutor
from typing import Any

from mc import c15_driver as drv
from mc.c15_build import MODNAME, REFNAME, TREE, build
from mc.c15_gen import generate, generate_chains, module_source
from mc.common import NCPU, Ctx, Result, Violation, log, scratch, seeded_order

PROPERTY = "C15"
LEVEL = "exploration"

OPTS = ["0", "3"]
EXPECTED_LIB_RT = TREE + "/mypyc/lib-rt"


def _driver_env() -> dict[str, str]:
    env = dict(os.environ)
    env["PYTHONPATH"] = "/verif"
    env["PYTHONDONTWRITEBYTECODE"] = "1"
    env["PYTHONHASHSEED"] = "0"
    return env


def _cpu_seconds() -> float:
    t = os.times()
    return t.children_user + t.children_system + t.user + t.system


def _run_driver(job: dict, jobfile: str, timeout: float) -> tuple[int, str]:
    with open(jobfile, "w") as f:
        json.dump(job, f)
    if os.path.exists(job["out"]):
        os.unlink(job["out"])
    try:
        p = subprocess.run([sys.executable, "-m", "mc.c15_driver", jobfile], env=_driver_env(), cwd=job["build_dir"],
                           stdout=subprocess.PIPE, stderr=subprocess.STDOUT, timeout=timeout)
        return p.returncode, p.stdout.decode("utf8", "replace")[-3000:]
    except subprocess.TimeoutExpired:
        return -999, "TIMEOUT"


def _progress(path: str) -> tuple[str, int]:
    try:
        with open(path) as f:
            name, idx = f.read().split()
        return name, int(idx)
    except (OSError, ValueError):
        return "", -1


def run_chunk(item: dict) -> dict:
    """Evaluate a list of specs against one build; survives (and localises) crashes of the driver process."""
    t_chunk = time.time()
    specs = list(item["specs"])
    base = os.path.join(item["work"], f"chunk-{item['opt']}-{item['id']}")
    results: dict[str, Any] = {}
    crashes: list[dict] = []
    herr: list[str] = []
    attempt = 0
    while specs:
        attempt += 1
        job = {"build_dir": item["build_dir"], "modname": MODNAME, "refname": REFNAME, "specs": specs,
               "progress": base + ".progress", "out": base + f".out{attempt}", "extra_full": item["extra_full"],
               "wide": item["wide"], "max_mismatches": 6}
        if "explicit" in item:
            job["explicit"] = item["explicit"]
        rc, out = _run_driver(job, base + ".job", item["timeout"])
        if rc == 0 and os.path.exists(job["out"]):
            with open(job["out"]) as f:
                results.update(json.load(f))
            break
        if rc == -999:
            herr.append(f"driver timeout after {item['timeout']}s (opt {item['opt']}, chunk {item['id']})")
            break
        name, _ = _progress(job["progress"])
        idx = next((i for i, sp in enumerate(specs) if sp["name"] == name), None)
        if rc > 0 or idx is None:
            herr.append(f"driver failed rc={rc} at {name!r} (opt {item['opt']}): {out[-1500:]}")
            break
        # the process died with a signal while evaluating specs[idx]: find the operands (trace mode)
        sp = specs[idx]
        tjob = dict(job, specs=[sp], trace=True, out=base + ".trace.out")
        trc, _tout = _run_driver(tjob, base + ".trace.job", item["timeout"])
        args = None
        if trc < 0:
            try:
                with open(job["progress"] + ".args") as f:
                    args = json.load(f)
            except (OSError, ValueError):
                args = None
        crashes.append({"spec": sp, "signal": -rc, "args": args, "reproduced_in_trace": trc < 0})
        before, specs = specs[:idx], specs[idx + 1:]
        # results of the functions before the crash are lost with the process: re-run them on their own
        if before:
            r2 = run_chunk(dict(item, specs=before, id=f"{item['id']}r{attempt}"))
            results.update(r2["results"])
            crashes.extend(r2["crashes"])
            herr.extend(r2["harness_errors"])
    for suffix in (".job", ".progress", ".progress.args", ".trace.job", ".trace.out"):
        try:
            os.unlink(base + suffix)
        except OSError:
            pass
    return {"opt": item["opt"], "id": item["id"], "results": results, "crashes": crashes, "harness_errors": herr,
            "seconds": round(time.time() - t_chunk, 2)}


def make_chunks(specs: list[dict], n: int, extra_full: bool, wide: bool) -> list[list[dict]]:
    """Greedy balance by number of cases (deterministic)."""
    sized = sorted(((drv.n_cases(sp, extra_full, wide), i) for i, sp in enumerate(specs)), key=lambda t: (-t[0], t[1]))
    bins: list[list[int]] = [[] for _ in range(n)]
    load = [0] * n
    for size, i in sized:
        b = load.index(min(load))
        bins[b].append(i)
        load[b] += size + 50
    return [[specs[i] for i in sorted(b)] for b in bins if b]


def build_all(work: str, sources: dict[str, str], opts: list[str]) -> dict[tuple[str, str], dict]:
    """Compile every (module, opt level) in parallel; key = (module tag, opt)."""
    jobs = [{"dir": os.path.join(work, f"build-{tag}-o{o}"), "opt": o, "source": src, "tag": tag}
            for tag, src in sources.items() for o in opts]
    with ThreadPoolExecutor(len(jobs)) as ex:
        res = list(ex.map(build, jobs))
    return {(r["tag"], r["opt"]): r for r in res}


def violation_from_mismatch(spec: dict, opt: str, m: dict) -> Violation:
    what = (f"{spec['name']}({', '.join(drv.pretty(a) for a in m['args'])})  [{'; '.join(ln.strip() for ln in spec['src'].splitlines()[1:])}; "
            f"{', '.join(spec['ptypes'])} -> {spec['ret']}] compiled(opt {opt}) {m['compiled']}, "
            f"interpreter {m['reference']} ({m['kind']}, {m['count']} operand tuples in this function)")
    if len(what) > 600:
        what = what[:600] + "..."
    return Violation(m["signature"], what, {"spec": spec, "opt": opt, "args": m["args"], "kind": m["kind"],
                                             "compiled": m["compiled"], "reference": m["reference"]})


def violation_from_crash(c: dict, opt: str) -> Violation:
    sp = c["spec"]
    try:
        signame = signal.Signals(c["signal"]).name
    except ValueError:
        signame = f"signal{c['signal']}"
    sig = f"crash|{sp['fam']}|{','.join(sp['ptypes'])}|{signame}"
    shown = ", ".join(drv.pretty(a) for a in c["args"]) if c["args"] else "operands not localised"
    what = f"{sp['name']}({shown}) killed the process with {signame} at opt {opt}"
    return Violation(sig, what, {"spec": sp, "opt": opt, "args": c["args"], "kind": "crash"})


def run(ctx: Ctx) -> Result:
    t_start = time.time()
    cpu0 = _cpu_seconds()
    source, one_specs = generate()
    chain_source, chain_specs = generate_chains()
    modules = {"ops": (source, one_specs), "chains": (chain_source, chain_specs)}
    specs = one_specs + chain_specs
    work = scratch("c15", f"run-{os.getpid()}")
    extra_full = True
    wide = ctx.thorough
    try:
        builds = build_all(work, {tag: src for tag, (src, _) in modules.items()}, OPTS)
        t_build = time.time() - t_start
        for (tag, o), b in builds.items():
            if not b["ok"]:
                raise RuntimeError(f"mypyc build of {tag} at opt {o} failed (rc={b['rc']}); nothing evaluated:\n"
                                   f"{b['log'][-3000:]}")
            if b["lib_rt"] != EXPECTED_LIB_RT:
                raise RuntimeError(f"build did not use the working tree's lib-rt: -I{b['lib_rt']!r}")
        log("C15 builds: " + ", ".join(f"{tag} opt {o}: {b['seconds']}s" for (tag, o), b in sorted(builds.items())))
        n_workers = NCPU * 4
        weight = {tag: sum(drv.n_cases(sp, extra_full, wide) for sp in sps) for tag, (_, sps) in modules.items()}
        items = []
        for tag, (_, sps) in modules.items():
            share = max(2, round(n_workers * weight[tag] / sum(weight.values()) / len(OPTS)))
            for o in OPTS:
                for k, ch in enumerate(make_chunks(sps, share, extra_full, wide)):
                    items.append({"opt": o, "id": f"{tag}{k}", "specs": ch, "build_dir": builds[(tag, o)]["dir"],
                                  "work": work, "extra_full": extra_full, "wide": wide,
                                  "timeout": 900 if ctx.quick else 3000})
        items = seeded_order(items, ctx.seed)
        t_eval0 = time.time()
        with ThreadPoolExecutor(NCPU) as ex:
            outs = list(ex.map(run_chunk, items))
        t_eval = time.time() - t_eval0
        log("C15 chunk seconds (slowest 5): " + str(sorted((o["seconds"] for o in outs), reverse=True)[:5])
            + f" of {len(outs)} chunks")
    finally:
        shutil.rmtree(work, ignore_errors=True)

    by_name = {sp["name"]: sp for sp in specs}
    order = {sp["name"]: i for i, sp in enumerate(specs)}
    tot: Counter[str] = Counter()
    per_opt_evals: Counter[str] = Counter()
    fam_evals: Counter[str] = Counter()
    type_evals: Counter[str] = Counter()
    outcome_kinds: set[str] = set()
    evaluated: dict[str, set[str]] = {o: set() for o in OPTS}
    found: list[tuple[tuple, Violation]] = []
    herr: list[str] = []
    samples: list[dict] = []
    for out in sorted(outs, key=lambda o: (o["opt"], str(o["id"]))):
        herr.extend(out["harness_errors"])
        for c in out["crashes"]:
            found.append(((order[c["spec"]["name"]], out["opt"], 0), violation_from_crash(c, out["opt"])))
        for name, r in out["results"].items():
            sp = by_name[name]
            evaluated[out["opt"]].add(name)
            for k in ("n", "nontrivial", "free", "exceptions", "bad", "mixed", "renorm"):
                tot[k] += r[k]
            if sp.get("chain"):
                tot["chain_n"] += r["n"]
            per_opt_evals[out["opt"]] += r["n"]
            fam_evals[sp["fam"]] += r["n"]
            type_evals[",".join(sp["ptypes"])] += r["n"]
            outcome_kinds.update(r["outcomes"])
            for j, m in enumerate(r["mismatches"]):
                found.append(((order[name], out["opt"], j + 1), violation_from_mismatch(sp, out["opt"], m)))
            if r["sample"] and out["opt"] == "0" and name in ("b_mul__int__int", "b_fdiv__i64__i64", "b_sub__u8__u8",
                                                              "b_mod__float__float", "b_shl__int__int", "k_xor__eq0",
                                                              "k_xor__eqc", "k_sub__i32"):
                samples.append(r["sample"])
    found.sort(key=lambda t: t[0])
    violations = [v for _, v in found]

    missing = {o: sorted(set(by_name) - evaluated[o]) for o in OPTS}
    n_missing = sum(len(v) for v in missing.values())
    if n_missing and not herr and not any(v.detail.get("kind") == "crash" for v in violations):
        raise RuntimeError(f"functions never evaluated: { {o: m[:5] for o, m in missing.items()} }")
    # vacuity gate
    vac = []
    need = {"value:int", "value:bool", "value:float", "value:tuple", "ZeroDivisionError", "OverflowError", "ValueError"}
    if not need <= outcome_kinds:
        vac.append(f"outcome kinds never observed: {sorted(need - outcome_kinds)}")
    if tot["nontrivial"] < 1000 or tot["mixed"] == 0:
        vac.append("no operands outside the short tagged range / no mixed short-long pairs")
    if tot["renorm"] < 1000:
        vac.append("no chain whose intermediate value fits a short int while an operand is a heap int")
    if tot["n"] < 100000 and not herr:
        vac.append(f"only {tot['n']} evaluations")
    if vac:
        raise RuntimeError("vacuous exploration: " + "; ".join(vac))

    cov = {
        "evaluations": tot["n"],
        "evaluations_per_opt_level": dict(sorted(per_opt_evals.items())),
        "distinct_nontrivial": tot["nontrivial"],
        "rule": "case = (compiled function, opt level, operand tuple), all distinct by construction; non-trivial iff "
                "an operand or the exact result is outside the unboxed short-int range [-2^62, 2^62) (resp. at or "
                "beyond the limits of the fixed-width type), or the interpreter raises, or a float operand/result "
                "is 0.0/-0.0/inf/nan",
        "exhaustive": n_missing == 0 and not herr,
        "functions": len(specs),
        "functions_by_operand_types": dict(sorted(Counter(",".join(s["ptypes"]) for s in specs).items())),
        "evaluations_by_operator_family": dict(sorted(fam_evals.items())),
        "evaluations_by_operand_types": dict(sorted(type_evals.items())),
        "opt_levels": OPTS,
        "boundary_set_size": len(drv.domains(wide)["B"]),
        "boundary_exponents": list(drv.KS_THOROUGH if wide else drv.KS),
        "shift_and_exponent_operands": drv.S,
        "float_set_size": len(drv.F),
        "extra_whole_domain": "u8 x u8 (all 65536 pairs) for every u8 binary function; all 65536 i16 values for "
                              "every unary/literal i16 function",
        "mixed_short_long_int_pairs": tot["mixed"],
        "chain_functions": len(chain_specs),
        "chain_evaluations": tot["chain_n"],
        "chains": "every int-producing operation (+ - * // % & | ^ << >> -x ~x abs() int(float) int(i64)) followed, "
                  "inside the same compiled function, by each consumer of its result r: r==0, r==c, r!=c, r<c, if r, "
                  "not r, bool(r), r+c, r&c, c-r, -r, float(r), i64/i32/i16/u8(r), `z: i64/i32 = r`; c from "
                  f"{[drv.pretty(drv.enc(c)) for c in drv.C3_STATIC]} + the exact r and r+1",
        "chain_evaluations_renormalised_intermediate": tot["renorm"],
        "cases_where_property_demands_nothing": tot["free"],
        "compiled_raised": tot["exceptions"],
        "distinct_outcome_kinds": sorted(outcome_kinds),
        "mismatching_evaluations": tot["bad"],
        "build_seconds": {f"{tag}-o{o}": b["seconds"] for (tag, o), b in sorted(builds.items())},
        "build_wall_seconds_parallel": round(t_build, 1),
        "evaluation_wall_seconds": round(t_eval, 1),
        "cpu_seconds_total": round(_cpu_seconds() - cpu0, 1),
        "lib_rt_include_dir": EXPECTED_LIB_RT,
        "samples": sorted(samples, key=lambda d: not d["function"].startswith("k_"))[:6],
    }
    return Result(PROPERTY, LEVEL, cov, violations, assumptions=[
        "64-bit platform (short tagged ints are 63-bit), gcc, CPython 3.12 of /venv",
        "reference = the same generated source imported by the interpreter (mypy_extensions.i64/i32/i16/u8 are "
        "int() at run time)",
        "signed fixed-width results that do not fit the type, float -> fixed-width conversions out of range and "
        "non-ZeroDivisionError reference exceptions on fixed-width operations are not judged (only crash freedom)",
        "exception messages are not compared, only exception types",
        "chains: a conversion of an intermediate int to a fixed-width type must raise iff the exact value is out of "
        "range, and return it otherwise",
        "operands beyond the stated boundary set: k=53, +-2^100 and +-2^1024 (int), a few extra floats; thorough tier: "
        "every k in 2..66; no random operands",
    ], harness_errors=herr)


def replay(ctx: Ctx, rec: dict) -> Result:
    d = rec["detail"]
    spec = d["spec"]
    work = scratch("c15", f"replay-{os.getpid()}")
    viol: list[Violation] = []
    try:
        b = build({"dir": os.path.join(work, "b"), "opt": d["opt"], "source": module_source([spec])})
        if not b["ok"]:
            raise RuntimeError("replay build failed:\n" + b["log"][-3000:])
        item = {"opt": d["opt"], "id": 0, "specs": [spec], "build_dir": b["dir"], "work": work,
                "extra_full": True, "wide": ctx.thorough, "timeout": 600}
        if d.get("args") is not None:  # else (crash whose operands were not localised): the whole domain
            item["explicit"] = {spec["name"]: [d["args"]]}
        out = run_chunk(item)
        for c in out["crashes"]:
            viol.append(violation_from_crash(c, d["opt"]))
        for r in out["results"].values():
            for m in r["mismatches"]:
                viol.append(violation_from_mismatch(spec, d["opt"], m))
                print(f"{spec['name']}({', '.join(drv.pretty(a) for a in m['args'])}): compiled {m['compiled']}, interpreter {m['reference']}")
        if out["harness_errors"]:
            raise RuntimeError("; ".join(out["harness_errors"]))
    finally:
        shutil.rmtree(work, ignore_errors=True)
    return Result(PROPERTY, LEVEL, {}, viol)
