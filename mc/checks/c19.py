"""C19 -- generated stubs are valid, self-consistent and faithful (S3: exhaustive over a definition grammar).

Space (mc/c19_grammar.py): every element of a definition grammar exactly once -- functions with every
parameter-kind sequence <= 3 (pos-only, pos-or-kw, *args, kw-only, **kw, each with/without default) x
default forms x {unannotated, annotated, partially annotated}; annotation spellings; variables; classes
(properties, static/class methods, __slots__, class variables, nesting, inheritance, abstract, dunders);
dataclasses; enums; NamedTuple and TypedDict (both syntaxes); overloads; generics old-style and PEP 695;
aliases (explicit / implicit / `type`); conditional and try/except definitions; imports; whole-module
`__all__` variants; relative imports in a package -- packed ~30 per generated module, each module run
through the three stubgen modes {--parse-only, default, --inspect-mode}.

Every run is the real tool: `mypy.stubgen.parse_options` + `generate_stubs` (what `stubgen` main() does) in
a freshly forked child.  Oracle per (element, mode), nothing a re-implementation of stubgen:
 (1) CPython `ast.parse` accepts the stub;
 (2) `mypy.build.build` on the stub(s) alone, bundled typeshed, default options: no errors;
 (3) the real `mypy.stubtest.test_stubs` on (imported runtime module, stub): no error lines;
 (4) structural: every public function/class/method/annotated variable of the source AST is in the stub
     AST, and every annotation the source spelled out is there after normalisation (quotes removed,
     typing./builtins. prefixes, Optional/Union -> |, List -> list, import aliases resolved,
     bare Final -> Final[T]).
A stub that fails (1)/(2) cannot be given to stubtest (stubtest refuses the whole module), so the elements
the errors are attributed to are recorded and the module is regenerated without them; failures that cannot
be attributed to an element split the module in halves.  For every distinct signature the simplest element
is re-run alone in its own module; the violation's replay detail is that minimal module.

Signature = mode | construct family | failing oracle | cause.  The cause is the diagnostic with generated
names abstracted; the CAUSES table below only renames/merges diagnostics that were triaged to one root cause
(a finding no row matches keeps its generic signature, so the table cannot hide anything).  EXEMPT lists the
one disagreement that is the source's own doing (an import of a module that does not exist).
"""

from __future__ import annotations

import ast
import os
import re
import shutil
import time
from collections import Counter
from typing import Any

import mypy.build  # noqa: F401  (loaded before forking)
import mypy.stubgen  # noqa: F401
import mypy.stubtest  # noqa: F401

from mc import c19_grammar as G
from mc import c19_oracle as O
from mc.common import Ctx, Result, Violation, log, scratch, seeded_order
from mc.kernel import ExecError, pmap, run_isolated

PROPERTY = "C19"
LEVEL = "exploration"

CHILD_TIMEOUT = 600.0
_WARM: str | None = None


def _warm_cache() -> str:
    global _WARM
    if _WARM is None:
        d = scratch("c19", "warm-cache")
        run_isolated(O.warm_cache, d, scratch("c19", "warm-src"), timeout=CHILD_TIMEOUT)
        _WARM = d
    return _WARM


# ----------------------------------------------------------------------------- one (module, mode) evaluation


class _Eval:
    """Evaluates a plan in one mode, regenerating without culprit elements / splitting as needed."""

    def __init__(self, plan: G.Plan, mode: str, warm: str, tag: str) -> None:
        self.plan = plan
        self.mode = mode
        self.warm = warm
        self.tag = tag
        self.findings: list[dict] = []  # {elem, oracle, reason, raw, stub}
        self.passed: list[str] = []
        self.blocked: list[str] = []  # elements whose stub could not reach stubtest (they failed (1)/(2))
        self.runs = 0
        self.harness: list[str] = []
        self.round = 0
        self.stub_samples: dict[str, str] = {}
        self.exempt: list[str] = []
        self.emitted: set[str] = set()  # elements for which the stub contains at least one statement

    # -- helpers
    def _owner(self, elems: list[G.Defn]) -> dict[str, str]:
        own: dict[str, str] = {}
        for e in elems:
            for n in e.names:
                own.setdefault(n, e.id)
        return own

    def _find(self, elem: G.Defn | None, oracle: str, reason: str, raw: str, files: dict, stubs: dict) -> None:
        if is_exempt(oracle, reason, raw):
            self.exempt.append(f"{elem.id if elem else None}: {raw[:160]}")
            return
        self.findings.append({
            "elem": elem.id if elem else None,
            "family": elem.family if elem else self.plan.family,
            "label": elem.label if elem else f"<{self.plan.kind} skeleton>",
            "oracle": oracle,
            "reason": reason,
            "raw": raw[:600],
        })

    def run(self) -> None:
        self._evaluate(list(self.plan.elems))

    def _split(self, elems: list[G.Defn]) -> None:
        h = len(elems) // 2
        self._evaluate(elems[:h])
        self._evaluate(elems[h:])

    def _evaluate(self, elems: list[G.Defn]) -> None:
        if not elems and self.plan.kind != "package":
            return
        plan, mode = self.plan, self.mode
        self.round += 1
        work = scratch("c19", f"{self.tag}-{plan.name}-{mode}-{os.getpid()}-r{self.round}")
        src, out, cache = os.path.join(work, "src"), os.path.join(work, "out"), os.path.join(work, "cache")
        try:
            self._evaluate_in(elems, work, src, out, cache)
        finally:
            shutil.rmtree(work, ignore_errors=True)

    def _evaluate_in(self, elems: list[G.Defn], work: str, src: str, out: str, cache: str) -> None:
        plan, mode = self.plan, self.mode
        files = plan.files(elems)
        O._write_files(src, files)
        os.makedirs(out, exist_ok=True)
        by_id = {e.id: e for e in elems}
        own = self._owner(elems)
        emod = plan.elem_module()
        modnames = sorted({O._stub_module(rel[:-3] + ".pyi") for rel in files}, key=len, reverse=True)
        single = len(elems) <= 1

        def elem_of(module: str | None, topname: str | None) -> G.Defn | None:
            if plan.kind == "module":
                return elems[0]
            if module is not None and module != emod:
                return None
            if topname is None:
                return None
            eid = own.get(topname)
            return by_id.get(eid) if eid else None

        # CPython: the generated module must import (else the harness, not stubgen, is at fault)
        try:
            imp = run_isolated(O.child_import, {"src": src, "modules": modnames[::-1]}, timeout=CHILD_TIMEOUT)
        except ExecError as e:
            self.harness.append(f"import child {plan.name}: {e.kind}")
            return
        if imp["error"]:
            raise RuntimeError(f"generated module does not import ({plan.name}): {imp['error']}")

        self.runs += 1
        try:
            sg = run_isolated(
                O.child_stubgen,
                {"src": src, "out": out, "flags": G.MODE_FLAGS[mode], "target": plan.target()},
                timeout=CHILD_TIMEOUT,
            )
        except ExecError as e:
            if e.kind == "timeout":
                self.harness.append(f"stubgen timeout {plan.name} {mode}")
                return
            sg = {"crash": f"child {e.kind}: {e.info[-800:]}", "stubs": {}}
        stubs: dict[str, str] = sg["stubs"]
        want_stubs = {rel[:-3] + ".pyi" for rel in files}
        if sg["crash"] or not want_stubs <= set(stubs):
            why = sg["crash"] or f"no stub written for {sorted(want_stubs - set(stubs))}"
            if single:
                first = why.strip().splitlines()[0] if why.strip() else "?"
                last = why.strip().splitlines()[-1] if why.strip() else "?"
                self._find(elems[0] if elems else None, "stubgen", O.normalise_reason(f"{first} / {last}", modnames), why, files, stubs)
                self.blocked += [e.id for e in elems]
            else:
                self._split(elems)
            return
        if len(elems) and plan.name not in self.stub_samples:
            self.stub_samples[plan.name] = stubs.get(emod.replace(".", "/") + ".pyi", "")[:1500]

        for rel, text in stubs.items():
            smod = O._stub_module(rel)
            for top in set(O.owner_by_line(text)):
                el0 = elem_of(smod, top) if top else None
                if el0 is not None:
                    self.emitted.add(el0.id)
        culprits: dict[str, None] = {}
        unattributed: list[str] = []
        # (1) ast.parse
        for rel, text in sorted(stubs.items()):
            try:
                ast.parse(text)
            except SyntaxError as e:
                owners = O.owner_by_line(text)
                ln = (e.lineno or 1) - 1
                top = owners[ln] if 0 <= ln < len(owners) else None
                el = elem_of(O._stub_module(rel), top)
                bad = text.split("\n")[ln] if 0 <= ln < len(owners) else ""
                if el is None and not single:
                    unattributed.append(f"syntax {rel}:{e.lineno}")
                else:
                    self._find(el or (elems[0] if elems else None), "ast.parse", O.normalise_reason(f"stub is not valid Python: {e.msg}", modnames), f"{rel}:{e.lineno}: {e.msg}: {bad}", files, stubs)
                    if el or elems:
                        culprits[(el or elems[0]).id] = None
        # (2) mypy on the stub alone
        tc = None
        if not culprits and not unattributed:
            O.copy_cache(self.warm, cache)
            try:
                tc = run_isolated(O.child_typecheck, {"out": out, "cache": cache, "stubs": sorted(stubs)}, timeout=CHILD_TIMEOUT)
            except ExecError as e:
                if e.kind == "timeout":
                    self.harness.append(f"typecheck timeout {plan.name} {mode}")
                    return
                tc = {"errors": [], "crash": f"child {e.kind}: {e.info[-800:]}"}
            shutil.rmtree(cache, ignore_errors=True)
            if tc["crash"]:
                if single:
                    self._find(elems[0] if elems else None, "typecheck", O.normalise_reason("mypy crashed: " + tc["crash"].strip().splitlines()[0], modnames), tc["crash"], files, stubs)
                    if elems:
                        culprits[elems[0].id] = None
                else:
                    unattributed.append("typecheck crash")
            owners_cache: dict[str, list[str | None]] = {}
            for rel, ln, msg in O.parse_mypy_errors(tc["errors"]):
                top = None
                if rel in stubs:
                    ow = owners_cache.setdefault(rel, O.owner_by_line(stubs[rel]))
                    top = ow[ln - 1] if 0 < ln <= len(ow) else None
                el = elem_of(O._stub_module(rel) if rel else None, top)
                if el is None and not single:
                    unattributed.append(f"{rel}:{ln}: {msg}")
                    continue
                line_text = stubs[rel].split("\n")[ln - 1].strip() if rel in stubs and ln > 0 else ""
                tgt = el or (elems[0] if elems else None)
                self._find(tgt, "typecheck", O.normalise_reason(msg, modnames), f"{rel}:{ln}: {msg}   <- `{line_text}`", files, stubs)
                if tgt is not None:
                    culprits[tgt.id] = None
                elif plan.kind == "package":
                    culprits["<skeleton>"] = None
        if unattributed:
            if single:
                self.harness.append(f"unattributable failure with one element {plan.name} {mode}: {unattributed[:2]}")
                return
            self._split(elems)
            return
        if culprits:
            self.blocked += [c for c in culprits if c in by_id]
            rest = [e for e in elems if e.id not in culprits]
            if "<skeleton>" in culprits:
                return
            if rest or (plan.kind == "package" and elems):
                self._evaluate(rest)
            return

        # (3) stubtest
        failing: dict[str, None] = {}
        try:
            stt = run_isolated(O.child_stubtest, {"src": src, "out": out, "name": plan.name}, timeout=CHILD_TIMEOUT)
        except ExecError as e:
            if e.kind == "timeout":
                self.harness.append(f"stubtest timeout {plan.name} {mode}")
                return
            stt = {"rc": None, "crash": f"child {e.kind}: {e.info[-800:]}", "stdout": "", "stderr": ""}
        if stt["crash"] or "not checking stubs due to" in stt["stdout"]:
            why = stt["crash"] or stt["stdout"]
            if single:
                head = [ln for ln in why.strip().splitlines() if ln.strip()]
                self._find(elems[0] if elems else None, "stubtest", O.normalise_reason("stubtest could not run: " + " / ".join(head[:2]), modnames), why, files, stubs)
                if elems:
                    failing[elems[0].id] = None
            else:
                self._split(elems)
                return
        else:
            lines = [ln for ln in stt["stdout"].splitlines() if ln.strip()]
            for ln in lines:
                if ln.startswith("Found ") and " error" in ln:
                    continue
                obj, _, msg = ln.partition(" ")
                module = next((m for m in modnames if obj == m or obj.startswith(m + ".")), None)
                top = obj[len(module) + 1:].split(".")[0] if module and obj != module else None
                if top and "@" in top:
                    top = top.split("@")[0]  # mypy-internal names such as N@base1 belong to N
                el = elem_of(module, top)
                tgt = el or (elems[0] if single and elems else None)
                self._find(tgt, "stubtest", O.normalise_reason(msg, modnames), ln, files, stubs)
                if tgt is not None:
                    failing[tgt.id] = None
            if stt["rc"] not in (0, 1):
                self.harness.append(f"stubtest rc={stt['rc']} {plan.name} {mode}")

        # (4) structural
        for rel, text in sorted(files.items()):
            srel = rel[:-3] + ".pyi"
            module = O._stub_module(srel)
            try:
                mism = O.structural(text, stubs[srel], module, rel.endswith("__init__.py"), imp["all"].get(module))
            except SyntaxError as e:
                self.harness.append(f"structural parse {plan.name}: {e}")
                continue
            for q, what in mism:
                el = elem_of(module, q.split(".")[0])
                tgt = el or (elems[0] if single and elems else None)
                self._find(tgt, "structural", O.normalise_reason(what.split(" [`")[0], modnames), f"{module}.{q}: {what}", files, stubs)
                if tgt is not None:
                    failing[tgt.id] = None
        self.passed += [e.id for e in elems if e.id not in failing]


def _run_plan_mode(job: dict) -> dict:
    plan = G.Plan.from_json(job["plan"])
    ev = _Eval(plan, job["mode"], job["warm"], job.get("tag", "x"))
    t0 = time.time()
    ev.run()
    return {
        "plan": plan.name,
        "mode": job["mode"],
        "findings": ev.findings,
        "passed": ev.passed,
        "blocked": ev.blocked,
        "runs": ev.runs,
        "harness": ev.harness,
        "exempt": ev.exempt,
        "emitted": sorted(ev.emitted),
        "stub_samples": ev.stub_samples,
        "secs": round(time.time() - t0, 1),
    }


# ----------------------------------------------------------------------------- signatures / isolation


# Cause table: (mode re, family re, oracle, reason re, raw re | None, label re | None, cause, merge_families).
# It only RENAMES/MERGES findings into cause-level signatures; a finding no row matches keeps the generic
# signature mode|family|oracle|<normalised diagnostic>, so nothing is hidden by this table.
CAUSES: list[tuple[str, str, str, str, str | None, str | None, str, bool]] = [
    # ---- inspect mode (InspectionStubGenerator on pure-Python modules)
    ("inspect", ".*", "stubgen", r"AttributeError: '[\w.]+' object has no attribute '__name__'", None, None,
     "crash AttributeError: annotation object (X | Y, InitVar, P.args, ForwardRef) has no __name__", True),
    ("inspect", ".*", "structural", r"annotation lost its type arguments$", None, None,
     "subscripted annotation loses its type arguments", True),
    ("inspect", ".*", "typecheck", r"^(Literal\[\.\.\.\] must have at least one parameter|Unpack\[\.\.\.\] requires exactly one|Annotated\[\.\.\.\] must have exactly)", None, None,
     "special form (Literal/Unpack/Annotated) printed without its arguments", True),
    ("inspect", ".*", "stubtest", r"should be positional-only", None, None, "positional-only marker `/` lost", True),
    ("inspect", ".*", "stubtest", r'is an "async def" function at runtime', None, None, "async def rendered as def", True),
    ("inspect", ".*", "typecheck", r'^Variable "X" is not valid as a type', None, None,
     "TypeVar / alias object rendered as a plain variable and then used as a type", True),
    ("inspect", ".*", "typecheck", r'^Name "typing\.<type parameter>" is not defined', None, None,
     "PEP 695 type parameter printed as typing.<name>", True),
    ("inspect", ".*", "typecheck", r'Name "(builtin_function_or_method|method_descriptor|wrapper_descriptor|dataclasses\._DataclassParams)" is not defined|module named "_abc"', None, None,
     "type of a runtime value printed by a name that cannot be imported", True),
    ("inspect", "enum|class", "typecheck", r"^(Enum members must be left unannotated|Cannot override final attribute|Detected enum)", None, None,
     "enum members and Enum internals emitted as annotated ClassVars", True),
    ("inspect", ".*", "structural", r"annotated class variable missing from stub", None, None,
     "class-level annotation without a value is ignored", True),
    ("inspect", "namedtuple", "stubtest", r"^is inconsistent", None, None,
     "NamedTuple rendered as a plain tuple subclass with __init__(self, _cls, ...)", False),
    ("inspect", "func-misc", "stubtest", r"^is inconsistent", None, "functools.wraps|contextmanager",
     "decorated function: wrapper signature (*args, **kwargs) emitted instead of the wrapped one", False),
    ("inspect", "overload", "structural", r"^(overload|property)", None, None,
     "overloads are not seen: only the implementation's signature is emitted", False),
    ("inspect", ".*", "structural", r"^property", None, None,
     "property type is not taken from the getter's annotation", True),
    ("inspect", ".*", "structural", r"^(class )?variable: annotation (changed|replaced by Incomplete)", None, None,
     "variable annotation ignored: the type is derived from the runtime value", True),
    ("inspect", "alias|generic", "structural", r"^(function|method): annotation changed", None, None,
     "alias used in an annotation is replaced by its argument-less target", True),
    ("inspect", "func|annotation", "structural", r"^function: annotation (dropped|replaced by Incomplete)", None, None,
     "typing.Optional / typing.Union annotation dropped or replaced by Incomplete", True),
    ("inspect", ".*", "structural", r"^annotated variable missing from stub", None, None,
     "module attribute dropped: its value's __module__ names another module, so it is taken for an import", True),
    ("inspect", "alias|var|import|generic|cond", "stubtest", r"^is not present in stub", None, None,
     "module attribute dropped: its value's __module__ names another module, so it is taken for an import", True),
    ("inspect", ".*", "typecheck", r'^(Module "X" has no attribute "X"|Cannot find implementation or library stub for module named "X"|Name "X" already defined \(possibly by an import\))', None, None,
     "imports rebuilt from __module__/__name__ of values: aliases, instances and nested classes become imports of names that do not exist", True),
    # ---- AST modes
    ("parse|default", "alias", "stubtest", r"runtime is not a type|is not a Union|is not a type alias for Callable", None, "^type statement",
     "stubtest does not understand the TypeAliasType object of a PEP 695 `type` statement", False),
    ("parse|default", "enum", "stubtest", r"^is inconsistent", "__new__", "str mixin",
     "str-mixin Enum: stubtest compares typeshed str.__new__ with the runtime Enum.__new__", False),
    ("parse|default", ".*", "stubtest", r"^is inconsistent", r"__class_getitem__", None,
     "generic NamedTuple: stubtest compares typeshed tuple.__class_getitem__ with Generic.__class_getitem__", True),
    ("parse|default", ".*", "stubtest", r"is not present in stub", r"__type_params__", None,
     "stubtest reports __type_params__ of a PEP 695 class as missing from the stub", True),
    ("parse|default", ".*", "stubtest", r"is not present at runtime", r"@base\d* is not present", None,
     "stubtest reports mypy's internal NamedTuple base class `N@base1`", True),
    ("parse|default", "dataclass", "stubtest", r"is not present at runtime", r"\._DT is not present", None,
     "stubtest reports the plugin-generated `_DT` of an order=True dataclass", False),
    ("parse", "enum|class", "typecheck", r"^(Detected enum|Parameter N of Literal|Variable \"X\" is not valid as a type)", None, None,
     "parse-only renders enum members as annotations (`A: int`), leaving the enum without members", True),
    ("parse", "cond|class", "typecheck", r"already defined on line N|Cannot assign multiple types to name", None, None,
     "parse-only emits the definitions of every if/else branch (duplicate class / method / alias)", True),
    ("parse", "cond", "stubtest", r"^is inconsistent", None, None,
     "parse-only keeps the first if/else branch of a function even when it is unreachable", False),
]
_CAUSES = [(re.compile(m), re.compile(f), o, re.compile(r), re.compile(w) if w else None, re.compile(lb) if lb else None, c, mg)
           for m, f, o, r, w, lb, c, mg in CAUSES]

# Disagreements that are not stubgen's (nor stubtest's) doing: the element is taken out of the module like
# any culprit, counted in coverage["exempt"], and not reported.
EXEMPT: list[tuple[str, str, str, str]] = [
    ("typecheck", r"module named \"X\" \[import-not-found\]", r"nonexistent_c19_mod",
     "the SOURCE imports a module that does not exist (optional-dependency pattern); mypy reports the same "
     "import-not-found on the source, the stub merely repeats the import"),
]
_EXEMPT = [(o, re.compile(r), re.compile(w), why) for o, r, w, why in EXEMPT]


def is_exempt(oracle: str, reason: str, raw: str) -> bool:
    return any(o == oracle and r.search(reason) and w.search(raw) for o, r, w, _ in _EXEMPT)


def signature(mode: str, family: str, oracle: str, reason: str, raw: str = "", label: str = "") -> str:
    for m, f, o, r, w, lb, cause, merge in _CAUSES:
        if o == oracle and m.fullmatch(mode) and f.fullmatch(family) and r.search(reason) \
                and (w is None or w.search(raw)) and (lb is None or lb.search(label)):
            return f"{mode}|{'*' if merge else family}|{oracle}|{cause}"
    return f"{mode}|{family}|{oracle}|{reason}"


def _sig(mode: str, f: dict) -> str:
    return signature(mode, f["family"], f["oracle"], f["reason"], f["raw"], f["label"])


def _singleton(plan: G.Plan, elem: G.Defn) -> G.Plan:
    if plan.kind == "batch":
        return G.Plan(plan.name, plan.family, "batch", [elem])
    return G.Plan(plan.name, plan.family, plan.kind, [elem], plan.fixed)


def _confirm(job: dict) -> dict:
    """Re-run one element alone; report which signatures it shows and the stub text."""
    plan = G.Plan.from_json(job["plan"])
    ev = _Eval(plan, job["mode"], job["warm"], job.get("tag", "c"))
    # keep the stubs of this single run for the report
    ev.run()
    sigs = sorted({_sig(job["mode"], f) for f in ev.findings})
    raws = {_sig(job["mode"], f): f["raw"] for f in reversed(ev.findings)}
    return {"sigs": sigs, "raws": raws, "stub": next(iter(ev.stub_samples.values()), ""), "harness": ev.harness}


# ----------------------------------------------------------------------------- run / replay


def run(ctx: Ctx) -> Result:
    t0 = time.time()
    warm = _warm_cache()
    log(f"C19 warm stdlib cache ready ({time.time() - t0:.1f}s)")
    plans = G.plans(ctx.tier)
    plan_by_name = {p.name: p for p in plans}
    jobs = [{"plan": p.to_json(), "mode": m, "warm": warm, "tag": "b"} for p in plans for m in G.MODES]
    # largest first so the pool drains evenly; the seed only permutes the order of equal-sized jobs
    jobs = seeded_order(jobs, ctx.seed)
    jobs.sort(key=lambda j: -len(j["plan"]["elems"]))
    n_elems = sum(len(p.elems) for p in plans)

    findings: list[dict] = []
    harness: list[str] = []
    passed = Counter()
    blocked = Counter()
    evaluated = Counter()
    runs = 0
    stub_samples: dict[str, str] = {}
    exempt: list[str] = []
    canon = {e.id: re.sub(r"\d+", "N", e.src) for p in plans for e in p.elems}
    distinct: set[tuple[str, str]] = set()
    per_family = Counter()
    for p in plans:
        per_family[p.family] += len(p.elems)
    for _i, job, st, val in pmap(_run_plan_mode, jobs, fresh=False, timeout=3600):
        if st != "ok":
            harness.append(f"{job['plan']['name']} {job['mode']}: {val[0]}: {str(val[1])[-300:]}")
            continue
        runs += val["runs"]
        harness += val["harness"]
        exempt += val["exempt"]
        distinct.update((val["mode"], canon[i]) for i in val["emitted"] if i in canon)
        passed[val["mode"]] += len(val["passed"])
        blocked[val["mode"]] += len(set(val["blocked"]))
        evaluated[val["mode"]] += len(set(val["passed"])) + len({f["elem"] for f in val["findings"] if f["elem"]} | set(val["blocked"]))
        for f in val["findings"]:
            f["plan"] = val["plan"]
            f["mode"] = val["mode"]
            findings.append(f)
        if val["mode"] == "default":
            stub_samples.update(val["stub_samples"])
    log(f"C19 batch phase: {runs} stubgen runs, {len(findings)} raw findings, {time.time() - t0:.1f}s")
    if os.environ.get("C19_DUMP"):
        import json

        with open(os.environ["C19_DUMP"], "w") as fh:
            json.dump(findings, fh, indent=1)

    # group by signature; simplest (lowest element id) first
    by_sig: dict[str, list[dict]] = {}
    for f in findings:
        by_sig.setdefault(_sig(f["mode"], f), []).append(f)
    for fl in by_sig.values():
        fl.sort(key=lambda f: (f["elem"] or "~", f["plan"]))

    # isolate: the first element of every signature alone in its own module
    conf_jobs = []
    for sig, fl in sorted(by_sig.items()):
        f = fl[0]
        plan = plan_by_name[f["plan"]]
        el = next((e for e in plan.elems if e.id == f["elem"]), None)
        if el is None:
            continue
        conf_jobs.append({"sig": sig, "plan": _singleton(plan, el).to_json(), "mode": f["mode"], "warm": warm, "tag": "c"})
    # one confirm run per (element, mode) even when it carries several signatures
    uniq: dict[tuple[str, str], dict] = {}
    for cj in conf_jobs:
        uniq.setdefault((cj["plan"]["elems"][0]["id"], cj["mode"]), cj)
    confirmed: dict[tuple[str, str], dict] = {}
    for _i, job, st, val in pmap(_confirm, list(uniq.values()), fresh=False, timeout=3600):
        key = (job["plan"]["elems"][0]["id"], job["mode"])
        if st != "ok":
            harness.append(f"confirm {key}: {val[0]}")
            continue
        runs += 1
        harness += val["harness"]
        confirmed[key] = val
    log(f"C19 isolation phase: {len(uniq)} single-element runs, {time.time() - t0:.1f}s")

    violations: list[Violation] = []
    isolated_ok = 0
    for sig, fl in sorted(by_sig.items()):
        f = fl[0]
        plan = plan_by_name[f["plan"]]
        el = next((e for e in plan.elems if e.id == f["elem"]), None)
        conf = confirmed.get((f["elem"], f["mode"])) if el else None
        n_el = len({(x["plan"], x["elem"]) for x in fl})
        if conf and sig in conf["sigs"]:
            isolated_ok += 1
            single = _singleton(plan, el)
            detail = {
                "mode": f["mode"], "plan": single.to_json(), "isolated": True, "element": el.label,
                "source": single.files(), "stub": conf["stub"], "observed": conf["raws"].get(sig, f["raw"]),
                "elements_affected": n_el, "other_elements": sorted({x["label"] for x in fl[1:]})[:8],
            }
        else:
            detail = {
                "mode": f["mode"], "plan": plan.to_json(), "isolated": False, "element": f["label"],
                "observed": f["raw"], "elements_affected": n_el,
                "other_elements": sorted({x["label"] for x in fl[1:]})[:8],
            }
        what = f"stubgen {G.MODE_FLAGS[f['mode']] or ['(default)']} on `{f['label']}`: {f['oracle']}: {f['raw'][:200]}"
        violations.append(Violation(sig, what, detail))

    total_pairs = n_elems * len(G.MODES)
    n_eval = sum(evaluated.values())
    distinct_failing = len({(f["plan"], f["elem"], f["mode"]) for f in findings})
    coverage: dict[str, Any] = {
        "evaluations": n_eval,
        "distinct_nontrivial": len(distinct),
        "rule": "evaluation = one (grammar element, stubgen mode) pair whose generated stub went through the oracles; "
                "distinct = pairs whose element source differs after the unique numeric suffixes are removed; "
                "non-trivial = stubgen emitted at least one stub statement owned by the element in that mode",
        "exhaustive": n_eval == total_pairs and not harness,
        "elements": n_elems,
        "modes": list(G.MODES),
        "element_mode_pairs_in_space": total_pairs,
        "modules_generated": len(plans),
        "per_family_elements": dict(per_family),
        "stubgen_runs": runs,
        "pairs_passing_all_oracles": dict(passed),
        "pairs_with_findings": distinct_failing,
        "pairs_not_reaching_stubtest": dict(blocked),
        "raw_findings": len(findings),
        "exempt": len(exempt),
        "exempt_rules": [f"{o}: /{r}/ & /{w}/ -- {why}" for o, r, w, why in EXEMPT],
        "exempt_samples": exempt[:4],
        "distinct_signatures": len(by_sig),
        "signatures_reproduced_in_isolation": isolated_ok,
        "findings_per_oracle": dict(Counter(f["oracle"] for f in findings)),
        "findings_per_mode": dict(Counter(f["mode"] for f in findings)),
        "samples": [
            {"module": p.name, "source_head": p.files()[next(iter(p.files()))][:600], "default_mode_stub_head": stub_samples.get(p.name, "")[:600]}
            for p in plans[:1] + plans[len(plans) // 2: len(plans) // 2 + 1]
        ],
    }
    if n_eval < 0.9 * total_pairs:
        raise RuntimeError(f"vacuous/incomplete exploration: {n_eval} of {total_pairs} pairs evaluated; harness={harness[:3]}")
    if len(distinct) < 2:
        raise RuntimeError("vacuous: fewer than 2 distinct non-trivial (element, mode) pairs")
    if sum(passed.values()) == 0:
        raise RuntimeError("no (element, mode) pair passed all four oracles: the harness is broken")
    assumptions = [
        "Python 3.12 runtime, bundled typeshed, stubgen defaults except the mode flag; the generated modules import cleanly in CPython (checked)",
        "elements are batched ~30 per module: an import or helper name one element needs may be supplied by a neighbour in the batch; "
        "every signature is re-run with its element alone, but a defect that is MASKED by batching is not seen",
        "oracle (2) uses a stdlib cache warmed once per run; oracle (3) is stubtest with no allowlist and default flags",
        "stubtest cannot judge a stub that does not type-check: such elements are reported by oracle (2) and counted in pairs_not_reaching_stubtest",
    ]
    return Result(PROPERTY, LEVEL, coverage, violations, assumptions, harness)


def replay(ctx: Ctx, rec: dict) -> Result:
    d = rec["detail"]
    warm = _warm_cache()
    plan = G.Plan.from_json(d["plan"])
    ev = _Eval(plan, d["mode"], warm, "r")
    ev.run()
    for rel, text in plan.files().items():
        print(f"--- {rel}\n{text}")
    print(f"--- stubgen {' '.join(G.MODE_FLAGS[d['mode']])} -> stub\n{next(iter(ev.stub_samples.values()), '')}")
    viol = []
    for f in ev.findings:
        sig = _sig(d["mode"], f)
        print(f"[{f['oracle']}] {f['raw']}")
        if sig == rec["signature"]:
            viol.append(Violation(sig, f["raw"], d))
    return Result(PROPERTY, LEVEL, {}, viol[:1])
