"""C07 — a parallel build gives the sequential result under every schedule.

S2 (stateless, deviation-bounded): the REAL coordinator (mypy.build.build, num_workers=N) runs in
a forked harness child with real `python -m mypy.build_worker` subprocesses; mc/c07_ctl.py owns
every scheduling decision (which gated worker advances, which responses are delivered together,
which free worker receives a batch).  All schedules with at most `bound` deviations from the
default schedule are executed; after each, messages/status are compared with the sequential
build and the cache left behind is validated by a sequential warm run (T: also after each edit).
"""

from __future__ import annotations

import os
import shutil
from collections import Counter
from typing import Any

from mc import drivers, universes
from mc.common import VERIF, Ctx, Result, Violation, same_diagnostics, scratch, seeded_order
from mc.drivers import BASE_TIME, StorePlan, build_inproc
from mc.kernel import ExecError, pmap, run_isolated

PROPERTY = "C07"
LEVEL = "model_checking"

PAR_OVERRIDES = {"native_parser": True, "local_partial_types": True}

# extra programs (besides universes): wide and deep import graphs with errors in several modules
WIDE = universes.Universe(
    name="W6-wide",
    files={
        "tmp/r.py": ["import l1, l2, l3, l4\nx: int = l1.f() + l2.f() + l3.f() + l4.f()\n"],
        "tmp/l1.py": ["import base\ndef f() -> int:\n    return base.k\n", "import base\ndef f() -> str:\n    return base.k\n"],
        "tmp/l2.py": ["import base\ndef f() -> int:\n    return ''\n"],
        "tmp/l3.py": ["import base\ndef f() -> int:\n    return base.k\n"],
        "tmp/l4.py": ["def f() -> int:\n    return 1\n1 + ''\n"],
        "tmp/base.py": ["k: int = 0\n", "k: str = ''\n"],
    },
    sources=[[("tmp/r.py", "r")]],
)
DEEP = universes.Universe(
    name="D6-deep",
    files={
        "tmp/m0.py": ["import m1\nx: int = m1.f()\n"],
        "tmp/m1.py": ["import m2\ndef f() -> int:\n    return m2.f()\n"],
        "tmp/m2.py": ["import m3\ndef f() -> int:\n    return m3.f()\n"],
        "tmp/m3.py": ["import m4\ndef f() -> int:\n    return m4.f()\n", "import m4\ndef f() -> str:\n    return m4.f()\n"],
        "tmp/m4.py": ["import m5\ndef f() -> int:\n    return m5.k\n"],
        "tmp/m5.py": ["k: int = 0\n", "k: str = ''\n"],
    },
    sources=[[("tmp/m0.py", "m0")]],
)
# several INDEPENDENT stale leaves with otherwise-fresh dependents (more ready SCCs than workers, so the
# coordinator's queue is non-empty while responses arrive)
PAIRS = universes.Universe(
    name="P7-pairs",
    files={
        "tmp/r.py": ["import s0, s1, s2\nx: int = s0.f() + s1.f() + s2.f()\n"],
        **{f"tmp/s{i}.py": [f"import d{i}\ndef f() -> int:\n    return d{i}.g()\n"] for i in range(3)},
        **{f"tmp/d{i}.py": ["def g() -> int:\n    return 1\n", "def g() -> str:\n    return ''\n"] for i in range(3)},
    },
    sources=[[("tmp/r.py", "r")]],
)
# INFERRED interfaces: b's interface hash changes although b's source does not (x = a.f()), and b's several
# dependents are re-checked by whichever workers are free (a worker's copy of b's hash must be refreshed)
INFER = universes.Universe(
    name="I7-inferred",
    files={
        "tmp/r.py": ["import c0, c1, c2, c3\nx: int = c0.g() + c1.g() + c2.g() + c3.g()\n"],
        **{f"tmp/c{i}.py": ["import b\ndef g() -> int:\n    return b.x + 1\n"] for i in range(4)},
        "tmp/b.py": ["import a\nx = a.f()\n"],
        "tmp/a.py": ["def f() -> int:\n    return 0\n", "def f() -> str:\n    return ''\n"],
    },
    sources=[[("tmp/r.py", "r")]],
)
PROGRAMS = {"U1": universes.ALL["U1"], "U3": universes.ALL["U3"], "W6": WIDE, "D6": DEEP, "P7": PAIRS, "I7": INFER}


def file_map(u, vm: dict[str, int]) -> dict:
    # owned clock, "preserving" discipline: a file's mtime is a function of (path, variant), so an edit always
    # changes the mtime (same-second same-size edits are a documented mypy limitation, out of scope)
    return {p: (None if u.files[p][v] is None else (u.files[p][v], BASE_TIME + 3 + 10 * v)) for p, v in vm.items()}


def base_spec(root: str, u, cache: str | None, n_workers: int) -> dict:
    ov = dict(u.overrides)
    ov.update(PAR_OVERRIDES)
    ov["num_workers"] = n_workers
    spec = {"root": root, "sources": [list(s) for s in u.sources[0]], "cache_dir": cache, "store": "fs", "fmt": "ff",
            "overrides": ov, "per_module": u.per_module, "plan": StorePlan("content")}
    return spec


def worker_env(ctl_path: str) -> dict[str, str]:
    env = dict(os.environ)
    env["PYTHONPATH"] = os.pathsep.join([os.path.join(VERIF, "mc", "shim"), drivers.REPO])
    env["MYPY_TEST_PREFIX"] = drivers.REPO
    env["MYPY_ALT_LIB_PATH"] = "tmp"
    env["PYTHON_MYPY_VERIF"] = "1"
    env["VERIF_CTL"] = ctl_path
    env["VERIF_STORE_CLOCK"] = "content"
    env["PYTHONHASHSEED"] = "0"
    return env


def parallel_exec(args: tuple) -> dict:
    """One controlled parallel build (runs in an isolated child)."""
    root, pname, vm, store, n_workers, prefix, expect = args
    from mc import c07_ctl

    u = PROGRAMS[pname]
    ctl_path = os.path.join(root, "ctl.sock")
    ctl = c07_ctl.Controller(ctl_path, prefix, expect)
    c07_ctl.install(ctl)
    spec = base_spec(root, u, "cache", n_workers)
    spec["store"] = store
    spec["worker_env"] = worker_env(ctl_path)
    err = None
    try:
        r = build_inproc(spec)
    except c07_ctl.Deadlock as e:
        r = {"messages": [f"<deadlock: {e}>"], "blocker": None, "crashed": f"deadlock: {e}", "stderr": ""}
        err = "deadlock"
    except c07_ctl.Divergence as e:
        r = {"messages": [f"<divergence: {e}>"], "blocker": None, "crashed": None, "stderr": ""}
        err = "divergence"
    finally:
        ctl.close()
    return {"messages": r["messages"], "blocker": r["blocker"], "crashed": r.get("crashed"), "err": err,
            "points": [(p["n"], p["kind"]) for p in ctl.points], "trace": ctl.trace, "overlap": ctl.overlap,
            "stderr": (r.get("stderr") or "")[-1500:]}


def explore_program(job: dict) -> dict:
    """All schedules with <= bound deviations for one (program, state, N, cache scenario)."""
    pname, n_workers, bound, store = job["program"], job["n"], job["bound"], job["store"]
    u = PROGRAMS[pname]
    work = scratch("c07", f"{pname}-{n_workers}-{job['scenario']}-{store}-{os.getpid()}")
    root = os.path.join(work, "w")
    os.makedirs(root, exist_ok=True)
    vm0 = {p: 0 for p in u.paths()}
    vm = dict(vm0)
    vm.update(job.get("edit") or {})
    out = {"executions": 0, "violations": [], "samples": [], "herr": [], "traces": set(), "overlap_execs": 0,
           "complete": True, "warm_checks": 0, "max_points": 0}

    def seq(vmx: dict, cache: str | None, nw: int = 0) -> dict:
        drivers.write_tree(root, file_map(u, vmx))
        drivers.install_fixture(root, u.fixture)
        sp = base_spec(root, u, cache, nw)
        sp["store"] = store
        return run_isolated(build_inproc, sp, timeout=600)

    try:
        # scenario caches (sequential builds)
        shutil.rmtree(os.path.join(root, "cache"), ignore_errors=True)
        if job["scenario"] == "cold":
            # only library stubs cached: build an empty program first
            os.makedirs(os.path.join(root, "tmp"), exist_ok=True)
            drivers.write_tree(root, {"tmp/empty.py": ("", BASE_TIME)})
            sp = base_spec(root, u, "cache", 0)
            sp["store"] = store
            sp["sources"] = [["tmp/empty.py", "empty"]]
            run_isolated(build_inproc, sp, timeout=600)
        else:
            seq(vm0, "cache")
        snap = os.path.join(work, "snap")
        shutil.rmtree(snap, ignore_errors=True)
        if os.path.isdir(os.path.join(root, "cache")):
            shutil.copytree(os.path.join(root, "cache"), snap)
        expected = seq(vm, None)  # sequential cold oracle, same options (native parser)
    except ExecError as e:
        out["herr"].append(f"setup failed {job}: {e.kind} {e.info[-300:]}")
        shutil.rmtree(work, ignore_errors=True)
        out["traces"] = 0
        return out
    drivers.write_tree(root, file_map(u, vm))
    drivers.install_fixture(root, u.fixture)

    stack: list[tuple[list[int], list[int] | None]] = [(list(p_), (list(e_) if e_ is not None else None))
                                                        for p_, e_ in (job.get("start") or [([], None)])]
    out["root_alternatives"] = []
    while stack:
        prefix, expect = stack.pop()
        if out["executions"] >= job["max_exec"]:
            out["complete"] = False
            break
        shutil.rmtree(os.path.join(root, "cache"), ignore_errors=True)
        if os.path.isdir(snap):
            shutil.copytree(snap, os.path.join(root, "cache"))
        try:
            r = run_isolated(parallel_exec, (root, pname, vm, store, n_workers, prefix, expect), timeout=600)
        except ExecError as e:
            if e.kind == "timeout":
                out["herr"].append(f"timeout {job} prefix={prefix}")
                continue
            r = {"messages": [f"<{e.kind}>"], "blocker": None, "crashed": e.info[-2000:], "err": "crash", "points": [],
                 "trace": [], "overlap": 0, "stderr": ""}
        out["executions"] += 1
        if r["err"] == "divergence":
            out["herr"].append(f"REPLAY DIVERGENCE {job} prefix={prefix}: {r['messages']}")
            continue
        out["traces"].add(tuple(r["trace"]))
        out["max_points"] = max(out["max_points"], len(r["points"]))
        if r["overlap"]:
            out["overlap_execs"] += 1
        sched = {"program": pname, "n": n_workers, "scenario": job["scenario"], "edit": job.get("edit"), "store": store,
                 "choices": prefix, "trace": r["trace"]}
        eq, _ = same_diagnostics(r["messages"], expected["messages"])
        if r["err"] == "deadlock" or r["crashed"] or not eq or r["blocker"] != expected["blocker"]:
            kind = "deadlock" if r["err"] == "deadlock" else ("crash" if r["crashed"] else "output")
            cg, ce = Counter(r["messages"]), Counter(expected["messages"])
            diff = sorted({("+" + (x.split(": ", 1)[1] if ": " in x else x)) for x in (cg - ce)} |
                          {("-" + (x.split(": ", 1)[1] if ": " in x else x)) for x in (ce - cg)})[:3]
            out["violations"].append({
                "signature": f"{pname}|{kind}|" + "|".join(diff if kind == "output" else [str(r['crashed'] or r['messages'])[-120:]]),
                "what": f"{pname} N={n_workers} {job['scenario']} schedule {r['trace']}: parallel={r['messages'][:3]} "
                        f"sequential={expected['messages'][:3]} {r['stderr'][-300:]}",
                "detail": {"schedule": sched, "parallel": r["messages"], "sequential": expected["messages"],
                           "crashed": r["crashed"], "stderr": r["stderr"]}})
        else:
            # the cache this schedule left behind must be as good as a sequential one
            follow = [("same", vm)]
            if job.get("followups"):
                for p in u.paths():
                    for v in range(len(u.files[p])):
                        if v != vm[p] and u.files[p][v] is not None:
                            vm2 = dict(vm)
                            vm2[p] = v
                            follow.append((f"then {p}={v}", vm2))
            cache_after = os.path.join(work, "after")
            shutil.rmtree(cache_after, ignore_errors=True)
            shutil.copytree(os.path.join(root, "cache"), cache_after)
            for flabel, vm2 in follow:
                shutil.rmtree(os.path.join(root, "cache"), ignore_errors=True)
                shutil.copytree(cache_after, os.path.join(root, "cache"))
                try:
                    warm = seq(vm2, "cache")
                    cold2 = expected if vm2 == vm else seq(vm2, None)
                except ExecError as e:
                    out["herr"].append(f"warm check failed: {e.kind}")
                    continue
                out["warm_checks"] += 1
                eqw, _ = same_diagnostics(warm["messages"], cold2["messages"])
                if not eqw or warm["blocker"] != cold2["blocker"] or warm.get("crashed"):
                    out["violations"].append({
                        "signature": f"{pname}|cache-left-behind|{flabel.split('=')[0] if flabel != 'same' else 'same'}",
                        "what": f"{pname} N={n_workers} schedule {r['trace']}: warm run [{flabel}] on the cache the parallel "
                                f"build left gives {warm['messages'][:3]} but cold gives {cold2['messages'][:3]}",
                        "detail": {"schedule": sched, "followup": flabel, "warm": warm["messages"], "cold": cold2["messages"]}})
            drivers.write_tree(root, file_map(u, vm))
            drivers.install_fixture(root, u.fixture)
        if len(out["samples"]) < 2 and len(prefix) > 0:
            out["samples"].append(sched)
        # branch: every alternative at every later point whose cumulative cost stays within the bound
        spent = sum(1 for c in prefix if c != 0)
        sizes = [n for n, _k in r["points"]]
        choices = prefix + [0] * (len(sizes) - len(prefix))
        for i in range(len(prefix), len(sizes)):
            for alt in range(1, sizes[i]):
                if job.get("collect_root") and not prefix:
                    out["root_alternatives"].append((choices[:i] + [alt], sizes[: i + 1]))
                elif spent + 1 <= bound:
                    stack.append((choices[:i] + [alt], sizes[: i + 1]))
    out["traces"] = len(out["traces"])
    shutil.rmtree(work, ignore_errors=True)
    return out


def make_jobs(ctx: Ctx) -> list[dict]:
    """(program, N, scenario, deviation bound) instances.  Warm scenarios edit an interface in the deepest
    dependency (its dependents are otherwise fresh) and always validate the cache the schedule leaves behind
    against every follow-up edit."""
    primary = {"U1": {"tmp/d.py": 1}, "U3": {"tmp/b.py": 2}, "W6": {"tmp/base.py": 1}, "D6": {"tmp/m5.py": 1},
               "P7": {f"tmp/d{i}.py": 1 for i in range(3)},  # P7: all leaves at once (several ready stale SCCs)
               "I7": {"tmp/a.py": 1}}
    jobs: list[dict] = []

    def add(p: str, n: int, scenario: str, bound: int, store: str = "fs", edit: dict | None = None,
            followups: bool | None = None) -> None:
        jobs.append({"program": p, "n": n, "bound": bound, "scenario": scenario, "store": store,
                     "edit": (edit if edit is not None else primary[p]) if scenario == "warm" else None,
                     "max_exec": 600 if ctx.quick else 3000,
                     "followups": (scenario == "warm") if followups is None else followups})

    if ctx.quick:
        add("U1", 2, "cold", 1)
        add("U1", 2, "warm", 1)
        add("U1", 2, "cold", 1, store="sqlite")
        add("U1", 3, "warm", 1)
        add("U3", 2, "cold", 1)
        add("U3", 2, "warm", 1)
        add("W6", 2, "warm", 1)
        add("P7", 2, "warm", 1)
        add("I7", 2, "warm", 1)
    else:
        add("U1", 2, "cold", 2, followups=True)
        add("U1", 2, "warm", 2)
        for n in (1, 3, 4):
            add("U1", n, "cold", 1)
            add("U1", n, "warm", 1)
        for e in ({"tmp/a.py": 1}, {"tmp/b.py": 1}, {"tmp/c.py": 1}):
            add("U1", 2, "warm", 1, edit=e)
        add("U3", 2, "cold", 2)
        add("U3", 3, "cold", 1)
        add("U3", 2, "warm", 1)
        add("U3", 3, "warm", 1)
        for p in ("W6", "D6", "P7", "I7"):
            for n in (2, 3):
                add(p, n, "cold", 1)
                add(p, n, "warm", 1)
        add("U1", 2, "cold", 1, store="sqlite", followups=True)
        add("U1", 2, "warm", 1, store="sqlite")
        add("P7", 2, "warm", 1, store="sqlite")
        add("W6", 8, "cold", 0)
    return seeded_order(jobs, ctx.seed)


def run(ctx: Ctx, jobs: list[dict] | None = None) -> Result:
    jobs = jobs if jobs is not None else make_jobs(ctx)
    tot: Counter = Counter()
    violations: list[Violation] = []
    samples: list[Any] = []
    herr: list[str] = []
    per = []
    # Stage 1: the default schedule of every instance (also yields its choice points).  Stage 2: one work item per
    # first deviation, exploring the subtree below it within the remaining bound.  (Workers are gated, so one
    # execution keeps about one core busy whatever N is.)
    stage1 = [dict(j, collect_root=True) for j in jobs]
    stage2: list[dict] = []
    results: list[tuple[dict, dict]] = []
    for _i, job, st, val in pmap(explore_program, stage1, fresh=False, timeout=7200):
        if st != "ok":
            herr.append(f"job {job} failed: {val}")
            continue
        results.append((job, val))
        if job["bound"] >= 1:
            for alt in val.get("root_alternatives", []):
                stage2.append(dict({k: v for k, v in job.items() if k != "collect_root"}, start=[alt]))
    for _i, job, st, val in pmap(explore_program, stage2, fresh=False, timeout=7200):
        if st != "ok":
            herr.append(f"job {job} failed: {val}")
            continue
        results.append((job, val))
    merged: dict[str, dict] = {}
    for job, val in results:
        key = repr({k: job.get(k) for k in ("program", "n", "bound", "scenario", "store", "edit")})
        m = merged.setdefault(key, {"job": job, "executions": 0, "traces": 0, "overlap_execs": 0, "warm_checks": 0,
                                    "complete": True, "max_points": 0, "violations": [], "samples": [], "herr": []})
        for k in ("executions", "traces", "overlap_execs", "warm_checks"):
            m[k] += val[k]
        m["complete"] = m["complete"] and val["complete"]
        m["max_points"] = max(m["max_points"], val["max_points"])
        m["violations"] += val["violations"]
        m["samples"] += val["samples"]
        m["herr"] += val["herr"]
    for m in merged.values():
        job, val = m["job"], m
        tot["executions"] += val["executions"]
        tot["distinct_traces"] += val["traces"]
        tot["overlap"] += val["overlap_execs"]
        tot["warm_checks"] += val["warm_checks"]
        per.append({"job": {k: job[k] for k in ("program", "n", "bound", "scenario", "store")} | {"edit": job.get("edit")},
                    "executions": val["executions"], "distinct_traces": val["traces"], "complete": val["complete"],
                    "choice_points_max": val["max_points"], "overlapping": val["overlap_execs"]})
        for v in val["violations"]:
            violations.append(Violation(v["signature"], v["what"], v["detail"]))
        samples.extend(val["samples"][:1])
        herr.extend(val["herr"])
    if any("REPLAY DIVERGENCE" in h for h in herr):
        raise RuntimeError("replay divergence: scheduling nondeterminism is not owned: " +
                           next(h for h in herr if "REPLAY DIVERGENCE" in h))
    if tot["executions"] < 20 or tot["overlap"] < 5 or tot["distinct_traces"] < 10:
        raise RuntimeError(f"vacuous exploration: {dict(tot)} {herr[:2]}")
    cov = {
        "states": tot["distinct_traces"], "transitions": tot["executions"],
        "traces_validated_against_impl": tot["executions"],
        "evaluations": tot["executions"] + tot["warm_checks"], "distinct_nontrivial": tot["overlap"],
        "rule": "one execution = one complete schedule (choice list) of the real coordinator + real worker processes; "
                "non-trivial iff at least two workers were busy at the same coordinator poll; all schedules within the "
                "deviation bound are executed (default = lowest worker index first, one response per poll)",
        "instances": per, "exhaustive_within_bound": all(p["complete"] for p in per),
        "exhaustive": all(p["complete"] for p in per), "warm_cache_checks": tot["warm_checks"],
        "samples": samples[:5],
        "bounds": "deviation bound and N per instance as listed; atomic step = worker phase (interface compute, "
                  "interface send, implementation compute, implementation send)",
    }
    return Result(PROPERTY, LEVEL, cov, violations, assumptions=[
        "atomic step = worker phase; races between two workers' individual store calls inside a phase are out of reach",
        "fixture stubs, native parser and binary cache on both sides (as the repository's own parallel tests)",
        "sequential oracle = same options with num_workers=0",
    ], harness_errors=herr)


def replay(ctx: Ctx, rec: dict) -> Result:
    s = rec["detail"]["schedule"]
    job = {"program": s["program"], "n": s["n"], "bound": 0, "scenario": s["scenario"], "edit": s.get("edit"),
           "store": s["store"], "max_exec": 1, "followups": False}
    # bound 0 + forced prefix: run exactly that schedule
    out = _replay_one(job, s["choices"])
    return Result(PROPERTY, LEVEL, {}, [Violation(v["signature"], v["what"], {}) for v in out["violations"]])


def _replay_one(job: dict, choices: list[int]) -> dict:
    # explore_program always starts from the empty prefix; emulate by a one-off variant
    orig = explore_program.__globals__["parallel_exec"]

    def forced(args: tuple) -> dict:
        root, pname, vm, store, n_workers, _prefix, _expect = args
        return orig((root, pname, vm, store, n_workers, choices, None))

    explore_program.__globals__["parallel_exec"] = forced
    try:
        return explore_program(job)
    finally:
        explore_program.__globals__["parallel_exec"] = orig
