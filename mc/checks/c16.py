"""C16 — the daemon survives client faults and its channel delivers intact messages.

See DESIGN.md section 4 / C16.  Two lanes, both bounded-exhaustive on the real code:

* frames (S3): every segmentation of the byte stream of small frame sequences through the real
  `mypy.ipc.IPCBase.read_bytes/frame_from_buffer` (helpers: mc/c16_frames.py);
* daemon (S2): every sequence of client behaviours up to a depth against the real
  `mypy.dmypy_server.Server.serve()` loop in a forked child, over its real AF_UNIX socket
  (helpers: mc/c16_daemon.py).
"""

from __future__ import annotations

import itertools
import os
import shutil
from collections import Counter
from typing import Any

from mc import c16_daemon as D
from mc import c16_frames as F
from mc.common import Ctx, Result, Violation, log, scratch, scratch_root, seeded_order
from mc.kernel import pmap

PROPERTY = "C16"
LEVEL = "model_checking"

MASK_CHUNK = 1 << 17
SEQS_PER_BATCH = 48


# ----------------------------------------------------------------------------- frames lane


def frame_items(ctx: Ctx) -> tuple[list[dict[str, Any]], dict[str, Any]]:
    small = [t for t in F.length_tuples(2, 4)] + [t for t in F.length_tuples(3, 2) if len(t) == 3]
    big = list(F.length_tuples(3, 4))
    plan = {"distinct": big if ctx.thorough else small, "headerlike": small}
    items: list[dict[str, Any]] = []
    for fam, tuples in plan.items():
        for lens in tuples:
            L = sum(4 + n for n in lens)
            total = 1 << (L - 1)
            for lo in range(0, total, MASK_CHUNK):
                items.append({"kind": "full", "family": fam, "lens": lens, "lo": lo, "hi": min(total, lo + MASK_CHUNK)})
    eof_tuples = small if ctx.thorough else list(F.length_tuples(2, 4))
    for fam in ("distinct", "headerlike"):
        for lens in eof_tuples:
            items.append({"kind": "eof", "family": fam, "lens": lens})
    for lens in [(), (1,), (2,), (1, 1)]:
        items.append({"kind": "over", "family": "distinct", "lens": lens})
    bounds = {
        "full_streams": {fam: f"{len(t)} length tuples" for fam, t in plan.items()},
        "quick": "frame sequences of 1-2 payloads of length 1-4 plus 3 payloads of length 1-2, x 2 payload "
                 "families (distinct bytes / header-like bytes), x ALL 2^(L-1) segmentations, then EOF",
        "thorough": "distinct family: 1-3 payloads of length 1-4 (all 84 length tuples, stream <= 24 bytes) x ALL "
                    "segmentations; header-like family as in quick",
        "eof": "EOF after c bytes for EVERY c in 0..L-1 x ALL segmentations of the prefix",
        "oversized": "0-2 complete frames followed by a header announcing L+1000 / 2^31-1 / 2^32-1 bytes and 0-3 "
                     "body bytes x ALL segmentations, then EOF",
    }
    return items, bounds


def run_frames(ctx: Ctx) -> tuple[dict[str, Any], list[Violation], list[str]]:
    items, bounds = frame_items(ctx)
    items = seeded_order(items, ctx.seed)
    tot: Counter[str] = Counter()
    viols: list[Violation] = []
    herr: list[str] = []
    framing_ok = True
    for _i, item, st, val in pmap(F.run_item, items, fresh=False, timeout=3600):
        if st != "ok":
            herr.append(f"frames item {item}: {val}")
            continue
        tot["segmentations"] += val["n"]
        tot[f"segmentations_{item['kind']}"] += val["n"]
        for k in ("multi", "split_header", "cuts", "mid_header_cuts", "mid_body_cuts"):
            tot[k] += val[k]
        tot["streams"] += 1 if item["kind"] != "full" or item["lo"] == 0 else 0
        framing_ok = framing_ok and val["framing_matches_doc"]
        for b in val["bad"]:
            viols.append(Violation(
                f"frames|{b['case']}",
                f"read_bytes delivered {b.get('got')} instead of {b.get('expected')} for chunks {b.get('chunks')}"
                + (f" (EOF after {b['cut']} bytes)" if "cut" in b else ""),
                {"lane": "frames", **b},
            ))
    sp = F.socketpair_lane([(1,), (4,), (1, 1), (4, 4), (1, 2, 3), (4, 4, 4)], 600_000)
    for b in sp["bad"]:
        viols.append(Violation(f"frames|{b['case']}", f"socketpair: {b}", {"lane": "socketpair", **b}))
    if not framing_ok:
        viols.append(Violation("frames|write-format", "write_bytes does not produce the documented !L length prefix", {"lane": "frames"}))
    cov = {
        "segmentations": tot["segmentations"], "segmentations_complete_streams": tot["segmentations_full"],
        "segmentations_eof_truncated": tot["segmentations_eof"], "segmentations_oversized_header": tot["segmentations_over"],
        "streams": tot["streams"], "with_two_frames_in_one_read": tot["multi"], "with_split_header": tot["split_header"],
        "eof_cut_points": tot["cuts"], "eof_mid_header": tot["mid_header_cuts"], "eof_mid_body": tot["mid_body_cuts"],
        "socketpair_runs": sp["n"], "socketpair_ready_to_read_checks": sp["ready_checks"],
        "socketpair_large_payload_recv_calls": sp["large_recvs"], "bounds": bounds,
    }
    vac = []
    if tot["segmentations_full"] < 1000:
        vac.append("too few segmentations")
    if tot["multi"] == 0:
        vac.append("no read carried two frames")
    if tot["split_header"] == 0:
        vac.append("no segmentation split a header")
    if tot["mid_header_cuts"] == 0 or tot["mid_body_cuts"] == 0:
        vac.append("no EOF mid-header/mid-body")
    if sp["large_recvs"] < 2:
        vac.append("large payload arrived in one recv")
    if vac and not herr:
        raise RuntimeError("vacuous frames exploration: " + "; ".join(vac))
    return cov, viols, herr


# ----------------------------------------------------------------------------- daemon lane


def daemon_sequences(ctx: Ctx) -> tuple[list[tuple[str, ...]], dict[str, Any]]:
    full = D.full_alphabet()
    red = D.reduced_alphabet()
    seqs: list[tuple[str, ...]] = [()]
    for n in (1, 2):
        seqs.extend(itertools.product(full, repeat=n))
    if ctx.thorough:
        seqs.extend(itertools.product(red, repeat=3))
    bounds = {
        "alphabet_full": full, "alphabet_full_size": len(full),
        "alphabet_reduced": red, "alphabet_reduced_size": len(red),
        "partial_request": f"close@k sends the first k bytes of the {len(D.PARTIAL_OF)}-byte framed status request "
                           f"the real client sends, for EVERY k in 1..{len(D.PARTIAL_OF) - 1} (k=0 is connect-close, "
                           "k=all is status-noread)",
        "depth": "quick: ALL sequences of length <= 2 over the full alphabet; thorough: those plus ALL sequences of "
                 "length 3 over the reduced alphabet (representative k = 1, 3, 4, 5, middle, last-1; one variant per "
                 "malformed-request kind)",
        "probe": "after every sequence: status -> edit b.py -> check (compared with a cold build) -> stop",
    }
    return seqs, bounds


def run_daemon(ctx: Ctx) -> tuple[dict[str, Any], list[Violation], list[str]]:
    seqs, bounds = daemon_sequences(ctx)
    root = scratch("c16", "d")
    memo = scratch("c16", "memo")
    # round-robin so that every batch mixes cheap and expensive sequences; simplest-first inside
    nb = max(1, (len(seqs) + SEQS_PER_BATCH - 1) // SEQS_PER_BATCH)
    batches = [{"seqs": seqs[i::nb], "root": root, "memo": memo, "tag": f"b{i}"} for i in range(nb)]
    batches = seeded_order(batches, ctx.seed)
    results: list[dict[str, Any]] = []
    herr: list[str] = []
    try:
        for _i, item, st, val in pmap(D.run_batch, batches, fresh=True, timeout=3600):
            if st != "ok":
                herr.append(f"daemon batch {item['tag']} ({len(item['seqs'])} sequences): {val}")
                continue
            results.extend(val["results"])
    finally:
        killed = D.kill_leftovers(scratch_root())
        if killed:
            herr.append(f"{killed} leftover daemon processes had to be killed")
        shutil.rmtree(root, ignore_errors=True)
    order = {s: i for i, s in enumerate(seqs)}
    results.sort(key=lambda r: order[tuple(r["seq"])])
    states: set = set()
    tot: Counter[str] = Counter()
    outcomes: Counter[str] = Counter()
    causes: dict[str, str] = {}
    by_sig: Counter[str] = Counter()
    survived_kinds: Counter[str] = Counter()
    viols: list[Violation] = []
    samples: list[Any] = []
    check_outputs: set = set()
    # behaviours that kill the daemon on their own, as measured by the length-1 sequences
    intrinsic = {(r["seq"][0], r.get("killer_exc")) for r in results
                 if len(r["seq"]) == 1 and r["died"] and r.get("killer") == r["seq"][0]}
    for r in results:
        for v in r["violations"]:
            if "sig_parts" in v:
                v["signature"] = D.exit_signature(v["sig_parts"], intrinsic)
    for r in results:
        tot["sequences"] += 1
        tot["transitions"] += r["served"]
        tot["checks_compared"] += r["checks_compared"]
        states.update(tuple(s) for s in r["states"])
        for o in r["outcomes"]:
            outcomes[o] += 1
        herr.extend(r["harness_errors"])
        if r["died"]:
            tot["sequences_daemon_died"] += 1
            for v in r["violations"]:
                if v["signature"].startswith("daemon-exits|"):
                    causes.setdefault(v["signature"], r.get("cause", ""))
        elif not r["harness_errors"] and not r.get("blocked"):
            tot["sequences_completed_probe_and_stop"] += 1
            for lab in r["seq"]:
                if lab not in D.WELL_FORMED:
                    survived_kinds[D.kind_of(lab)] += 1
        check_outputs.update(r["check_outputs"])
        if r.get("blocked"):
            tot["sequences_daemon_blocked"] += 1
        for v in r["violations"]:
            by_sig[v["signature"]] += 1
            viols.append(Violation(v["signature"], v["what"], {"lane": "daemon", **v["detail"]}))
        if len(samples) < 4 and len(r["seq"]) == 2 and not r["died"] and any(x not in D.WELL_FORMED for x in r["seq"]):
            samples.append({"sequence": r["seq"], "client_saw": r["outcomes"], "checks_compared_with_cold": r["checks_compared"]})
    if len(results) != len(seqs) and not herr:
        raise RuntimeError(f"executed {len(results)} of {len(seqs)} sequences")
    died_sample = next((r for r in results if r["died"]), None)
    if died_sample is not None:
        samples.append({"sequence": died_sample["seq"], "client_saw": died_sample["outcomes"],
                        "daemon": died_sample.get("cause")})
    cov = {
        "sequences": tot["sequences"], "sequences_expected": len(seqs),
        "sequences_completed_probe_and_stop": tot["sequences_completed_probe_and_stop"],
        "sequences_daemon_died": tot["sequences_daemon_died"],
        "sequences_daemon_blocked": tot["sequences_daemon_blocked"],
        "violating_sequences_by_signature": dict(sorted(by_sig.items())),
        "client_steps_served": tot["transitions"], "conversation_states": len(states),
        "check_replies_compared_with_cold": tot["checks_compared"], "distinct_check_outputs": len(check_outputs),
        "distinct_step_outcomes": len(outcomes), "step_outcomes": dict(sorted(outcomes.items())),
        "daemon_exit_cause_by_signature": dict(sorted(causes.items())),
        "fault_kinds_survived": dict(sorted(survived_kinds.items())), "bounds": bounds, "samples": samples,
    }
    vac = []
    if tot["sequences_completed_probe_and_stop"] < 10:
        vac.append("fewer than 10 sequences ran through probe and stop")
    if len(check_outputs) < 3:
        vac.append("fewer than 3 distinct check outputs")
    if tot["checks_compared"] < 10:
        vac.append("hardly any check reply compared")
    if len(outcomes) < 8:
        vac.append("fewer than 8 distinct step outcomes")
    if vac and not herr:
        raise RuntimeError("vacuous daemon exploration: " + "; ".join(vac))
    return cov, viols, herr


# ----------------------------------------------------------------------------- entry points


def run(ctx: Ctx, lanes: tuple[str, ...] = ("frames", "daemon")) -> Result:
    viols: list[Violation] = []
    herr: list[str] = []
    fcov: dict[str, Any] = {}
    dcov: dict[str, Any] = {}
    if "frames" in lanes:
        fcov, v, h = run_frames(ctx)
        viols += v
        herr += h
        log(f"C16 frames: {fcov['segmentations']} segmentations, {len(v)} violations ({ctx.elapsed():.0f}s)")
    if "daemon" in lanes:
        dcov, v, h = run_daemon(ctx)
        viols += v
        herr += h
        log(f"C16 daemon: {dcov['sequences']} sequences, {dcov['sequences_daemon_died']} daemon deaths ({ctx.elapsed():.0f}s)")
    # simplest-first: shorter sequences before longer ones (results are already in enumeration order)
    viols.sort(key=lambda x: len(x.detail.get("seq", [])))
    samples = list(dcov.get("samples", []))
    cov = {
        "states": dcov.get("conversation_states", 0),
        "transitions": dcov.get("client_steps_served", 0),
        "traces_validated_against_impl": dcov.get("sequences", 0),
        "explanation_traces": "there is no separate model: every sequence is executed against the real "
                              "mypy.dmypy_server.Server.serve() over its real socket; states = distinct "
                              "(liveness, initialised, source tree) conversation states visited, transitions = "
                              "client connections the daemon accepted and served",
        "evaluations": fcov.get("segmentations", 0) + dcov.get("sequences", 0),
        "distinct_nontrivial": dcov.get("sequences", 0) - 1 + fcov.get("with_split_header", 0),
        "rule": "daemon: a sequence is non-trivial iff it contains at least one client behaviour before the probe; "
                "frames: a segmentation is non-trivial iff it cuts inside a length header",
        "exhaustive": not herr,
        "frames": fcov, "daemon": {k: v for k, v in dcov.items() if k != "samples"},
        "violating_cases": len(viols), "samples": samples,
    }
    return Result(PROPERTY, LEVEL, cov, viols, assumptions=[
        "daemon lane uses fixture stubs (use_builtins_fixtures) on both sides of every comparison; the cold "
        "reference is mypy.build.build with local_partial_types=True as the server forces",
        "Linux AF_UNIX transport only (the win32 named-pipe branches of mypy/ipc.py are not executed)",
        "source mtimes are owned by the harness (every edit gets a fresh deterministic mtime)",
        "one client at a time (the serve loop is sequential; concurrent clients are out of scope)",
        "clients that wait for a reply half-close (SHUT_WR) after sending their complete request, so that a daemon "
        "waiting for bytes that will never come sees EOF instead of dead-locking with the harness (the real dmypy "
        "client would hang there); a daemon that reads the frame it was sent is unaffected",
        "the forked daemon counts accepted connections via a wrapper around IPCServer.__enter__ installed in the "
        "harness child only (pure observation, used to attribute an exit to the client step being served)",
    ], harness_errors=herr)


def replay(ctx: Ctx, rec: dict) -> Result:
    d = rec["detail"]
    viols: list[Violation] = []
    if d.get("lane") == "daemon" or "seq" in d:
        work = scratch("c16-replay", "w")
        shutil.rmtree(work)
        os.makedirs(work)
        memo = scratch("c16-replay", "memo")
        r = D.run_sequence(tuple(d["seq"]), work, memo)
        print(f"sequence {d['seq']}: client saw {r['outcomes']}; daemon died={r['died']} cause={r.get('cause')}")
        intrinsic = set()
        if r["died"] and r.get("killer") and tuple(d["seq"]) != (r["killer"],):
            shutil.rmtree(work, ignore_errors=True)
            os.makedirs(work)
            r1 = D.run_sequence((r["killer"],), work, memo)
            if r1["died"] and r1.get("killer") == r["killer"]:
                intrinsic.add((r["killer"], r1.get("killer_exc")))
        elif r["died"]:
            intrinsic.add((r.get("killer"), r.get("killer_exc")))
        for v in r["violations"]:
            if "sig_parts" in v:
                v["signature"] = D.exit_signature(v["sig_parts"], intrinsic)
        for v in r["violations"]:
            print(f"  {v['signature']} :: {v['what']}")
            if v["signature"] == rec["signature"]:
                viols.append(Violation(v["signature"], v["what"], v["detail"]))
        D.kill_leftovers(scratch_root())
    elif d.get("lane") == "frames" and "chunks" in d:
        chunks = [bytes.fromhex(c) for c in d["chunks"]]
        got, _c, _r = F.read_all(chunks, len(d["expected"]) + 2)
        print(f"chunks {d['chunks']}: got {[g.hex() for g in got]} expected {d['expected']}")
        if [g.hex() for g in got] != d["expected"]:
            viols.append(Violation(rec["signature"], "reproduced", d))
    else:
        res = run(ctx, lanes=("frames",))
        viols = [v for v in res.violations if v.signature == rec["signature"]]
    return Result(PROPERTY, LEVEL, {}, viols)
