"""C10 — results are deterministic and independent of irrelevant context.

(a) hash seeds: every program of the slice is built in subprocesses that differ ONLY in
    PYTHONHASHSEED (listed seed set; 2^32 seeds cannot be enumerated): messages identical in text
    and order, every cache record byte-identical (owned store clock).
(b) file order: every permutation of the file arguments of every acyclic universe state gives the
    same diagnostic set.
(c) history inside one process: for every ordered pair (Q) / triple (T) of builds from a 12-build
    alphabet, the last build run after the others in ONE interpreter gives the same messages and
    cache bytes as the same build in a fresh process.
"""

from __future__ import annotations

import itertools
import json
import os
import shutil
import subprocess
import sys
from collections import Counter
from typing import Any

from mc import corpus, drivers, universes
from mc.common import VERIF, Ctx, Result, Violation, scratch, seeded_order, sha
from mc.drivers import BASE_TIME, StorePlan, build_inproc, cache_listing
from mc.kernel import ExecError, chunked, pmap, run_isolated

PROPERTY = "C10"
LEVEL = "exploration"


# --------------------------------------------------------------------------- program material


def universe_states(uname: str) -> list[tuple[str, dict[str, int]]]:
    u = universes.ALL[uname]
    paths = u.paths()
    roots = {p for p, _m in u.sources[0]}
    out = []
    for combo in itertools.product(*[range(len(u.files[p])) for p in paths]):
        vm = dict(zip(paths, combo))
        if any(u.files[p][vm[p]] is None for p in roots):
            continue
        out.append((uname + ":" + ",".join(map(str, combo)), vm))
    return out


def materialize_universe(root: str, uname: str, vm: dict[str, int]) -> dict:
    u = universes.ALL[uname]
    fm = {p: (None if u.files[p][v] is None else (u.files[p][v], BASE_TIME + 7)) for p, v in vm.items()}
    drivers.write_tree(root, fm)
    drivers.install_fixture(root, u.fixture)
    return {"root": root, "sources": [list(s) for s in u.sources[0]], "overrides": dict(u.overrides),
            "per_module": u.per_module}


def materialize_case(root: str, c: corpus.Case) -> dict:
    tmp = os.path.join(root, "tmp")
    os.makedirs(tmp, exist_ok=True)
    corpus.materialize(c, tmp, main_name="main.py")
    for d, _s, fs in os.walk(tmp):
        for f in fs:
            os.utime(os.path.join(d, f), (BASE_TIME + 7, BASE_TIME + 7))
    drivers.fix_dir_mtimes(tmp)
    ov: dict[str, Any] = {}
    pv = corpus.pyversion_for(c.file)
    if pv:
        ov["python_version"] = list(pv)
    return {"root": root, "sources": [["tmp/main.py", "__main__"]], "overrides": ov}


# --------------------------------------------------------------------------- generated inference family

GI_PRELUDE = """from typing import Callable, List, TypeVar
T = TypeVar('T')
S = TypeVar('S')
R = TypeVar('R')
V = TypeVar('V')
W = TypeVar('W')
class A: ...
class B(A): ...
class C(B): ...
def takes_a(x: A) -> None: ...
def takes_c(x: C) -> None: ...
def ret_b() -> B: ...
def ident(x: V) -> V: ...
def two(x: V, y: V) -> List[V]: ...
def pair(x: V, y: W) -> List[W]: ...
def first(x: List[V]) -> V: ...
a: A
b: B
lc: List[C]
"""
GI_PARAMS = ["Callable[[T], None]", "Callable[[T, S], R]", "Callable[[T], S]", "Callable[[], T]", "Callable[[S], T]",
             "Callable[[S, T], List[R]]", "T", "List[T]", "S"]
GI_RETS = ["R", "T", "S", "List[T]"]
GI_ARGS = ["takes_a", "takes_c", "ret_b", "ident", "two", "pair", "first", "a", "b", "lc", "lambda x: x",
           "lambda x, y: [x, y]"]


def generic_inference_programs(quick: bool) -> list[tuple[str, str]]:
    """Every higher-order generic function `hof(p1: P_i, p2: P_j) -> Ret` over a pool of parameter shapes, called
    with every ordered pair of a pool of (generic) functions / values: the constraint solver meets several type
    variables whose bounds come from different arguments.  One module per first-parameter shape."""
    out = []
    rets = GI_RETS[:2] if quick else GI_RETS
    for i, p1 in enumerate(GI_PARAMS):
        lines = [GI_PRELUDE]
        k = 0
        for j, p2 in enumerate(GI_PARAMS):
            for r in rets:
                name = f"hof_{i}_{j}_{k}"
                k += 1
                lines.append(f"def {name}(f: {p1}, g: {p2}) -> {r}: ...")
                n = 0
                for a1 in GI_ARGS:
                    for a2 in GI_ARGS:
                        # one function per call: a call inferred as Never makes what follows unreachable
                        lines.append(f"def c_{name}_{n}() -> None:\n    reveal_type({name}({a1}, {a2}))")
                        n += 1
        out.append((f"gi{i}", "\n".join(lines) + "\n"))
    return out


def materialize_text(root: str, text: str, fixture: str = "list.pyi") -> dict:
    drivers.write_tree(root, {"tmp/main.py": (text, BASE_TIME + 7)})
    drivers.install_fixture(root, fixture)
    return {"root": root, "sources": [["tmp/main.py", "__main__"]], "overrides": {"many_errors_threshold": -1}}


# --------------------------------------------------------------------------- (a) hash seeds


def seed_batch(item: tuple) -> dict:
    bid, specs, seeds, fmts = item
    out = {"n": 0, "violations": [], "samples": [], "herr": [], "records": 0, "nonempty": 0}
    work = scratch("c10", f"seed-{bid}")
    results: dict[tuple, list] = {}
    for fmt in fmts:
        for seed in seeds:
            sp = []
            for s in specs:
                t = dict(s)
                t["cache_dir"] = f"cache-{fmt}-{seed}"
                t["fmt"] = fmt
                if t.get("fine_grained_cache"):
                    t["overrides"] = dict(t.get("overrides") or {}, cache_fine_grained=True)
                t.pop("fine_grained_cache", None)
                t["store"] = "fs"
                t.pop("pid", None)
                if "python_version" in t.get("overrides", {}):
                    t["overrides"] = dict(t["overrides"])
                    t["overrides"]["python_version"] = tuple(t["overrides"]["python_version"])
                sp.append(t)
            fn = os.path.join(work, f"specs-{fmt}-{seed}.json")
            with open(fn, "w") as f:
                json.dump(sp, f)
            env = dict(os.environ, PYTHONHASHSEED=str(seed), PYTHONPATH=f"{VERIF}:{drivers.REPO}")
            p = subprocess.run([sys.executable, "-m", "mc.c10_runner", fn], env=env, capture_output=True, text=True,
                               timeout=1800, cwd=VERIF)
            if p.returncode != 0:
                out["herr"].append(f"runner failed seed={seed}: {p.stderr[-500:]}")
                continue
            results[(fmt, seed)] = json.loads(p.stdout)
    for fmt in fmts:
        base = results.get((fmt, seeds[0]))
        if base is None:
            continue
        for seed in seeds[1:]:
            cur = results.get((fmt, seed))
            if cur is None:
                continue
            for i, s in enumerate(specs):
                a, b = base[i], cur[i]
                out["n"] += 1
                out["records"] += len(a["cache"])
                if a["messages"]:
                    out["nonempty"] += 1
                if a["messages"] != b["messages"] or a["blocker"] != b["blocker"]:
                    out["violations"].append({
                        "signature": f"hashseed|messages|{s['pid'].split(':')[0]}",
                        "what": f"{s['pid']} fmt={fmt}: output differs between PYTHONHASHSEED={seeds[0]} and {seed}: "
                                f"{a['messages'][:3]} vs {b['messages'][:3]}",
                        "detail": {"pid": s["pid"], "fmt": fmt, "seeds": [seeds[0], seed], "a": a["messages"],
                                   "b": b["messages"]}})
                elif a["cache"] != b["cache"]:
                    da = {n: h for n, h, _m in a["cache"]}
                    db = {n: h for n, h, _m in b["cache"]}
                    diff = sorted(n for n in set(da) | set(db) if da.get(n) != db.get(n))
                    kinds = sorted({n.split(".")[-2] if n.count(".") >= 2 else n for n in diff})
                    out["violations"].append({
                        "signature": f"hashseed|cache-bytes|{fmt}|{'+'.join(kinds)}",
                        "what": f"{s['pid']} fmt={fmt}: cache records differ between PYTHONHASHSEED={seeds[0]} and {seed}: "
                                f"{diff[:5]}",
                        "detail": {"pid": s["pid"], "fmt": fmt, "seeds": [seeds[0], seed], "records": diff}})
        if base and len(out["samples"]) < 1:
            out["samples"].append({"lane": "hashseed", "program": specs[0]["pid"], "seeds": list(seeds), "fmt": fmt,
                                   "messages": base[0]["messages"][:3], "cache_records": len(base[0]["cache"])})
    shutil.rmtree(work, ignore_errors=True)
    return out


# --------------------------------------------------------------------------- (b) file order


def order_item(item: tuple) -> dict:
    uname, sid, vm = item
    u = universes.ALL[uname]
    root = scratch("c10", f"order-{os.getpid()}")
    shutil.rmtree(root, ignore_errors=True)
    spec = materialize_universe(root, uname, vm)
    mods = []
    for p, v in sorted(vm.items()):
        if u.files[p][v] is None or p in UNLISTED.get(uname, ()):
            continue
        m = p[len("tmp/"):].rsplit(".", 1)[0].replace("/", ".")
        if m.endswith(".__init__"):
            m = m[: -len(".__init__")]
        mods.append((p, m))
    byname: dict[str, str] = {}
    for p, m in mods:
        if m not in byname or p.endswith(".pyi"):
            byname[m] = p
    srcs = sorted((p, m) for m, p in byname.items())
    out = {"n": 0, "violations": [], "perms": 0, "distinct": 0, "herr": []}
    ref = None
    seen = set()
    for perm in itertools.permutations(srcs):
        sp = dict(spec)
        sp["sources"] = [list(x) for x in perm]
        sp["cache_dir"] = None
        try:
            r = run_isolated(build_inproc, sp, timeout=300)
        except ExecError as e:
            out["herr"].append(f"{sid} {perm}: {e.kind}")
            continue
        out["perms"] += 1
        key = (tuple(sorted(r["messages"])), r["blocker"])
        seen.add(key)
        if ref is None:
            ref = (key, perm, r)
        elif key != ref[0]:
            extra = sorted(set(key[0]) ^ set(ref[0][0]))
            texts = sorted({x.split(": ", 1)[1] if ": " in x else x for x in extra})[:2]
            out["violations"].append({
                "signature": f"fileorder|{uname}|" + "|".join(texts),
                "what": f"{sid}: diagnostics depend on the order of file arguments: {[p for p, _ in ref[1]]} -> "
                        f"{list(ref[0][0])[:3]} but {[p for p, _ in perm]} -> {list(key[0])[:3]}",
                "detail": {"state": sid, "vm": vm, "order_a": [list(x) for x in ref[1]], "order_b": [list(x) for x in perm],
                           "a": list(ref[0][0]), "b": list(key[0])}})
    out["n"] = 1
    out["distinct"] = len(seen)
    shutil.rmtree(root, ignore_errors=True)
    return out


# --------------------------------------------------------------------------- (c) history in one process

BUILD_ALPHABET = [
    ("U1:0", "U1", None, {}), ("U1:d1", "U1", {"tmp/d.py": 1}, {}), ("U2:a1", "U2", {"tmp/a.py": 1}, {}),
    ("U3:cycle", "U3", {"tmp/b.py": 2, "tmp/m.py": 1}, {}), ("U8:syntax", "U8", {"tmp/b.py": 1}, {}),
    ("U9:0", "U9", None, {}), ("U9:b3", "U9", {"tmp/b.py": 3}, {}), ("U5:stub", "U5", {"tmp/b.pyi": 1}, {}),
    ("U6:missing", "U6", None, {}), ("U4:ns", "U4", {"tmp/p/__init__.py": 1}, {}),
    ("U1:strict", "U1", {"tmp/a.py": 1}, {"disallow_untyped_defs": True, "warn_unreachable": True, "strict_equality": True}),
    ("U9:daemon", "U9", {"tmp/a.py": 1}, {"__daemon__": True}),
    # builds whose diagnostics depend on per-version data that mypy memoises in module-level state
    ("V:310", "VMISS", None, {"python_version": (3, 10)}),
    ("V:312", "VMISS", None, {"python_version": (3, 12)}),
    ("V:314w", "VMISS", None, {"python_version": (3, 14), "platform": "win32"}),
]

UPKG = universes.Universe(  # package with submodules, every file listed, follow_imports=error
    name="UPKG-pkg-followerror",
    files={"tmp/pkg/__init__.py": ["", "v: int = ''\n"], "tmp/pkg/a.py": ["import pkg.b\nx: int = pkg.b.y\n"],
           "tmp/pkg/b.py": ["y: str = ''\n", None], "tmp/m.py": ["import pkg.a\n"]},
    sources=[[("tmp/m.py", "m")]],
    overrides={"follow_imports": "error"},
)
universes.ALL["UPKG"] = UPKG
UPKG2 = universes.Universe(  # same, but the ancestor package's __init__ exists and is NOT on the command line
    name="UPKG2-ancestor-unlisted", files=dict(UPKG.files), sources=UPKG.sources, overrides=dict(UPKG.overrides))
universes.ALL["UPKG2"] = UPKG2
UNLISTED = {"UPKG2": {"tmp/pkg/__init__.py"}}

VMISS = universes.Universe(
    name="VMISS-misspelled-stdlib",
    fixture="tuple.pyi",
    files={"tmp/a.py": ["import tomlib\nimport distutil\nimport asynchat2\nimport sys\n"
                        "if sys.version_info >= (3, 12):\n    x: int = ''\nif sys.platform == 'win32':\n    y: int = ''\n"]},
    sources=[[("tmp/a.py", "a")]],
)
universes.ALL["VMISS"] = VMISS


def _materialize_alpha(base: str) -> dict[str, dict]:
    specs = {}
    for name, uname, delta, ov in BUILD_ALPHABET:
        u = universes.ALL[uname]
        vm = {p: 0 for p in u.paths()}
        vm.update(delta or {})
        root = os.path.join(base, name.replace(":", "_"))
        sp = materialize_universe(root, uname, vm)
        sp["overrides"].update({k: v for k, v in ov.items() if not k.startswith("__")})
        sp["daemon"] = bool(ov.get("__daemon__"))
        sp["name"] = name
        specs[name] = sp
    return specs


def _run_one(sp: dict, cache_abs: str) -> dict:
    if sp.get("daemon"):
        # a daemon-style (fine-grained) build in this process: initial check through the real Server
        from mypy.dmypy_server import Server
        from mypy.modulefinder import BuildSource

        from mc.drivers import make_options

        os.chdir(os.path.join(sp["root"], "tmp"))
        o = make_options(cache_dir=None, overrides=sp["overrides"])
        o.local_partial_types = True
        srv = Server(o, os.path.join(cache_abs + ".status"))
        r = srv.check([BuildSource(p[len("tmp/"):], m, None) for p, m in sp["sources"]], False, False, -1)
        return {"messages": ((r.get("out") or "") + (r.get("err") or "")).splitlines(), "blocker": r.get("status") == 2,
                "cache": []}
    s = {k: v for k, v in sp.items() if k not in ("daemon", "name")}
    s["cache_dir"] = cache_abs
    s["plan"] = StorePlan("content")
    r = build_inproc(s)
    return {"messages": r["messages"], "blocker": r["blocker"], "crashed": r["crashed"],
            "cache": cache_listing(sp["root"], cache_abs, "fs", "ff")}


def _seq_exec(args: tuple) -> dict:
    specs, seq, cache_abs = args
    last = None
    for i, name in enumerate(seq):
        cd = f"{cache_abs}-{i}"
        last = _run_one(specs[name], cd)
        shutil.rmtree(cd, ignore_errors=True)
    return last  # type: ignore[return-value]


def seq_batch(item: tuple) -> dict:
    base, seqs = item
    specs = ALPHA_SPECS
    out = {"n": 0, "violations": [], "samples": [], "herr": []}
    fresh: dict[str, dict] = {}
    work = scratch("c10", f"seq-{os.getpid()}")
    for seq in seqs:
        y = seq[-1]
        try:
            if y not in fresh:
                fresh[y] = run_isolated(_seq_exec, (specs, (y,), os.path.join(work, "c")), timeout=600)
            got = run_isolated(_seq_exec, (specs, seq, os.path.join(work, "c")), timeout=600)
        except ExecError as e:
            if e.kind == "timeout":
                out["herr"].append(f"{seq}: timeout")
                continue
            out["n"] += 1
            out["violations"].append({"signature": f"inprocess-history|crash|{seq[-1]}",
                                      "what": f"builds {list(seq)} in one process: {e.info.strip().splitlines()[-1][:200]}",
                                      "detail": {"seq": list(seq), "error": e.info[-3000:]}})
            continue
        out["n"] += 1
        exp = fresh[y]
        if got["messages"] != exp["messages"] or got["blocker"] != exp["blocker"]:
            out["violations"].append({
                "signature": f"inprocess-history|messages|{seq[-1]}|after:{seq[-2]}",
                "what": f"build {y} after {list(seq[:-1])} in one process: {got['messages'][:3]} but fresh process: {exp['messages'][:3]}",
                "detail": {"seq": list(seq), "got": got["messages"], "fresh": exp["messages"]}})
        elif got["cache"] != exp["cache"]:
            da = {n: h for n, h, _m in got["cache"]}
            db = {n: h for n, h, _m in exp["cache"]}
            diff = sorted(n for n in set(da) | set(db) if da.get(n) != db.get(n))
            out["violations"].append({
                "signature": f"inprocess-history|cache-bytes|{seq[-1]}|after:{seq[-2]}",
                "what": f"build {y} after {list(seq[:-1])} in one process writes different cache records: {diff[:5]}",
                "detail": {"seq": list(seq), "records": diff}})
        if len(out["samples"]) < 1 and len(seq) > 1:
            out["samples"].append({"lane": "inprocess-history", "sequence": list(seq), "last_messages": got["messages"][:3],
                                   "cache_records": len(got["cache"])})
    shutil.rmtree(work, ignore_errors=True)
    return out


ALPHA_SPECS: dict[str, dict] = {}


# --------------------------------------------------------------------------- driver


def run(ctx: Ctx) -> Result:
    global ALPHA_SPECS
    base = scratch("c10", "material")
    tot: Counter = Counter()
    violations: list[Violation] = []
    samples: list[Any] = []
    herr: list[str] = []

    # ---- (a) programs: all states of U1..U5 + corpus slice
    progs: list[dict] = []
    for uname in (["U1", "U3", "U4b", "U6"] if ctx.quick else ["U1", "U2", "U3", "U4", "U4b", "U5", "U6", "U8", "U9"]):
        for sid, vm in universe_states(uname):
            root = os.path.join(base, "u", sid.replace(":", "_").replace(",", ""))
            sp = materialize_universe(root, uname, vm)
            sp["pid"] = sid
            progs.append(sp)
    # option values that are sets/lists inside mypy (error-code sets, always_true/false, per-module sections): their
    # iteration order must never reach the output or the cache records
    SETTY = [
        {"enable_error_code": ["truthy-bool", "redundant-expr", "possibly-undefined", "ignore-without-code"],
         "disable_error_code": ["attr-defined", "operator", "return-value"]},
        {"always_true": ["ZZ", "AA", "MM", "BB"], "always_false": ["QQ", "CC", "XX"],
         "enable_error_code": ["unused-awaitable", "mutable-override"]},
    ]
    for uname in ("U1", "U9"):
        for oi, ov in enumerate(SETTY):
            for sid, vm in universe_states(uname)[:: (4 if ctx.quick else 1)]:
                root = os.path.join(base, "o", f"{oi}", sid.replace(":", "_").replace(",", ""))
                sp = materialize_universe(root, uname, vm)
                sp["overrides"] = dict(sp["overrides"], **ov)
                sp["per_module"] = {"b": {"disable_error_code": ["misc", "assignment", "arg-type"]},
                                    "a": {"enable_error_code": ["redundant-self", "explicit-override"]}}
                sp["pid"] = f"{sid}+optset{oi}"
                progs.append(sp)
    # fine-grained dependency cache records (*.deps.json, written with --cache-fine-grained) are cache records too
    for uname in ("U1", "U9", "U3"):
        for sid, vm in universe_states(uname)[:: (8 if ctx.quick else 1)]:
            root = os.path.join(base, "fg", sid.replace(":", "_").replace(",", ""))
            sp = materialize_universe(root, uname, vm)
            sp["fine_grained_cache"] = True
            sp["pid"] = f"{sid}+deps-cache"
            progs.append(sp)
    files = seeded_order(corpus.files_matching("check-*.test"), ctx.seed)
    n_cases = 64 if ctx.quick else 1500
    picked = []
    for f in files:
        for c in corpus.load_file(f):
            if c.multi_step or c.has_cmd or c.flags or c.tags or not c.files:
                continue  # multi-file single-step cases without flags
            picked.append(c)
        if len(picked) >= n_cases:
            break
    for i, c in enumerate(picked[:n_cases]):
        root = os.path.join(base, "c", f"{i}")
        sp = materialize_case(root, c)
        sp["pid"] = "corpus:" + c.id
        progs.append(sp)
    for gid, text in generic_inference_programs(ctx.quick):
        sp = materialize_text(os.path.join(base, "gi", gid), text)
        sp["pid"] = "generated-inference:" + gid
        progs.append(sp)
    seeds = list(range(4)) if ctx.quick else list(range(32))
    fmts = ["ff", "json"]
    items = [(i, list(ch), seeds, fmts) for i, ch in enumerate(chunked(progs, max(4, len(progs) // 32)))]
    for _i, _it, st, val in pmap(seed_batch, items, fresh=False, timeout=3600):
        if st != "ok":
            herr.append(f"seed batch failed: {val}")
            continue
        tot["seed_comparisons"] += val["n"]
        tot["cache_records_compared"] += val["records"]
        tot["seed_nonempty"] += val["nonempty"]
        for v in val["violations"]:
            violations.append(Violation(v["signature"], v["what"], v["detail"]))
        if len(samples) < 2:
            samples.extend(val["samples"][:1])
        herr.extend(val["herr"])

    # ---- (b) file order
    oitems = []
    for uname in ["U1", "U2", "U4", "U5", "U6", "U8"] if ctx.thorough else ["U1", "U2", "U5", "U6"]:
        u = universes.ALL[uname]
        if not u.acyclic:
            continue
        for sid, vm in universe_states(uname):
            oitems.append((uname, sid, vm))
    if ctx.quick:
        oitems = [x for i, x in enumerate(oitems) if i % 2 == 0 or x[0] != "U1"]
    for un in ("UPKG", "UPKG2"):
        for sid, vm in universe_states(un):
            oitems.append((un, sid, vm))
    for _i, it, st, val in pmap(order_item, oitems, fresh=False, timeout=3600):
        if st != "ok":
            herr.append(f"order item failed: {val}")
            continue
        tot["order_states"] += val["n"]
        tot["order_permutations"] += val["perms"]
        for v in val["violations"]:
            violations.append(Violation(v["signature"], v["what"], v["detail"]))
        herr.extend(val["herr"])
    samples.append({"lane": "fileorder", "states": tot["order_states"], "permutations_run": tot["order_permutations"]})

    # ---- (c) sequences in one process
    ALPHA_SPECS = _materialize_alpha(os.path.join(base, "alpha"))
    names = [n for n, *_ in BUILD_ALPHABET]
    seqs = [tuple(p) for p in itertools.product(names, repeat=2)]
    if ctx.thorough:
        seqs += [tuple(p) for p in itertools.product(names, repeat=3)]
    sitems = [(base, list(ch)) for ch in chunked(seqs, 9 if ctx.quick else 36)]
    for _i, _it, st, val in pmap(seq_batch, sitems, fresh=False, timeout=3600):
        if st != "ok":
            herr.append(f"seq batch failed: {val}")
            continue
        tot["sequences"] += val["n"]
        for v in val["violations"]:
            violations.append(Violation(v["signature"], v["what"], v["detail"]))
        if len(samples) < 5:
            samples.extend(val["samples"][:1])
        herr.extend(val["herr"])
    shutil.rmtree(base, ignore_errors=True)
    if tot["seed_comparisons"] < 50 or tot["seed_nonempty"] < 10 or tot["sequences"] < 100:
        raise RuntimeError(f"vacuous: {dict(tot)}")
    cov = {
        "evaluations": tot["seed_comparisons"] + tot["order_permutations"] + tot["sequences"],
        "distinct_nontrivial": tot["seed_nonempty"] + tot["sequences"],
        "rule": "(a) one evaluation = program x format x (seed vs seed0) comparison of messages and of every cache record's "
                "bytes; non-trivial iff the program has diagnostics; (b) one evaluation = one permutation of the file "
                "arguments; (c) one evaluation = one build sequence in a single interpreter vs the last build alone",
        "hash_seeds": seeds, "programs": len(progs), "seed_comparisons": tot["seed_comparisons"],
        "cache_records_compared": tot["cache_records_compared"], "fileorder_states": tot["order_states"],
        "fileorder_permutations": tot["order_permutations"], "inprocess_sequences": tot["sequences"],
        "build_alphabet": names, "sequence_length": 2 if ctx.quick else 3,
        "exhaustive": True, "samples": samples[:5],
        "bounds": "seed set listed (2^32 seeds are not enumerable); all permutations of <=5 file arguments; all ordered "
                  "pairs (Q) / triples (T) over the 12-build alphabet",
    }
    return Result(PROPERTY, LEVEL, cov, violations, assumptions=[
        "fixture stubs; cache-record clock owned (content-derived mtimes) so byte comparison is meaningful",
        "the hash seed lane varies ONLY PYTHONHASHSEED between subprocesses",
    ], harness_errors=herr)


def replay(ctx: Ctx, rec: dict) -> Result:
    print(json.dumps(rec["detail"], indent=1)[:3000])
    return Result(PROPERTY, LEVEL, {}, [])
