"""C04 — a killed run or failed cache-store operation never makes later runs wrong.

For every base transition (warm, partially stale cache K + edited files F') of universes
U1/U2/U3/U6/U8, the faulty run is enumerated exhaustively:
  * kill (real os._exit, no finally/commit) immediately before and after EVERY store operation,
    plus, for the file store, in the middle of every write (temp file on disk, no rename);
  * every subset of failed writes up to the stated size (all subsets when the run has few writes);
  * both clock answers for the faulty run and its recovery ("content": every record gets its own
    mtime; "same-second": every cache write lands in the same second, so data_mtime cannot tell
    versions apart);
then the recovery run (same files; T: also after each further edit) must equal a cold run.
"""

from __future__ import annotations

import os
import shutil
from collections import Counter
from itertools import combinations
from typing import Any

from mc import universes
from mc.common import Ctx, Result, Violation, same_diagnostics, scratch, seeded_order
from mc.drivers import BASE_TIME, StorePlan
from mc.kernel import pmap
from mc.s1 import Instance

PROPERTY = "C04"
LEVEL = "fault_enumeration"


def clock_fn(kind: str):
    if kind == "content":
        return "content"
    return lambda name, data, k: float(BASE_TIME + 77)  # every write in the same second


def rec_kind(name: str) -> str:
    base = os.path.basename(name)
    for k in ("meta_ex", "meta", "data", "deps"):
        if f".{k}." in base:
            return k
    return base.lstrip("@").split(".")[0] or "other"


def op_desc(op: tuple | None) -> str:
    if op is None:
        return "end"
    _k, kind, name = op
    return f"{kind}({rec_kind(name)})" if name else kind


class MidWritePlan(StorePlan):
    """Kill in the middle of write k of the file store: temp file written, rename not done."""


def explore_job(job: dict) -> dict:
    u = universes.ALL[job["universe"]]
    work = scratch("c04", f"{job['universe']}-{job['store']}-{job['fmt']}-{job['idx']}")
    inst = Instance(u, job["store"], job["fmt"], work)
    stats: Counter = Counter()
    violations: list[dict] = []
    samples: list[Any] = []
    herr: list[str] = []
    F0 = inst.initial_F()

    # reach the pre-state by clean runs
    inst.restore("EMPTY")
    inst.materialize(F0)
    inst.warm(F0)
    kh = inst.snapshot()
    F = F0
    for label in job["prefix"]:
        F = dict(inst.edits(F, 0))[label]
        inst.restore(kh)
        inst.materialize(F)
        inst.warm(F)
        kh = inst.snapshot()
    base_edits = inst.edits(F, 1)
    for label, nF in base_edits:
        if job.get("only_edit") is not None and label != job["only_edit"]:
            continue
        cold = inst.cold(nF)
        if cold.get("crashed") or cold.get("exec_error"):
            herr.append(f"cold crashed {job} {label}")
            continue
        followups: list[tuple[str, Any]] = [("same", nF)]
        if job["followup_edits"]:
            followups += [(f"then {l2}", F2) for l2, F2 in inst.edits(nF, 2)]
        for clock in job["clocks"]:
            # clean run to learn the op log of this transition under this clock
            inst.restore(kh)
            inst.materialize(nF)
            clean = inst.warm(nF, plan=StorePlan(clock_fn(clock)))
            oplog = clean["oplog"] or []
            um = inst.user_modules(nF)
            rech = set(clean["rechecked"] or [])
            nontrivial_base = bool(rech & um) and bool(um - rech)
            stats["base_transitions"] += 1
            stats["base_nontrivial"] += 1 if nontrivial_base else 0
            writes = [k for k, kind, _n in oplog if kind == "write"]
            n = len(oplog)
            faults: list[tuple[str, dict]] = []
            for k in range(n):
                faults.append((f"kill-before:{k}", {"kill_before": k}))
                faults.append((f"kill-after:{k}", {"kill_after": k}))
            if job["store"] == "fs":
                for k in writes:
                    faults.append((f"kill-mid:{k}", {"kill_mid": k}))
            max_sub = job["max_fail_subset"]
            if len(writes) <= job["all_subsets_upto_writes"]:
                max_sub = len(writes)
            for size in range(1, max_sub + 1):
                for sub in combinations(writes, size):
                    faults.append((f"fail:{','.join(map(str, sub))}", {"fail": sub}))
            failing_subsets: list[tuple[frozenset, str]] = []  # minimal failing write subsets seen so far
            for fname, fspec in faults:
                inst.restore(kh)
                inst.materialize(nF)
                plan = StorePlan(clock_fn(clock), fail=fspec.get("fail", ()),
                                 kill_before=fspec.get("kill_before"), kill_after=fspec.get("kill_after"))
                if "kill_mid" in fspec:
                    plan.kill_mid = fspec["kill_mid"]  # type: ignore[attr-defined]
                faulty = inst.warm(nF, plan=plan)
                stats["fault_runs"] += 1
                killed = "kill" in fname
                if killed and faulty.get("exec_error") != "exit":
                    # op log differs from the clean run? (nondeterminism not owned) -> hard harness error
                    herr.append(f"kill point not reached {job['universe']} {label} {fname}: {faulty.get('exec_error')}")
                    continue
                if not killed and (faulty.get("exec_error") or faulty.get("crashed")):
                    violations.append(_viol(job, label, clock, fname, "faulty-run-crash", oplog, faulty, cold,
                                            what_extra="run with failed writes crashed instead of continuing"))
                    continue
                fkh = inst.snapshot()
                for fu_label, fuF in followups:
                    inst.restore(fkh)
                    inst.materialize(fuF)
                    rec = inst.warm(fuF, plan=StorePlan(clock_fn(clock)))
                    exp = cold if fu_label == "same" else inst.cold(fuF)
                    stats["recovery_runs"] += 1
                    if rec.get("exec_error") == "timeout":
                        herr.append(f"timeout {job} {label} {fname}")
                        continue
                    eq, _oo = same_diagnostics(rec["messages"], exp["messages"])
                    if not (eq and rec["blocker"] == exp["blocker"]) or rec.get("crashed"):
                        # name failed ops by the faulty run's own log (a failed write changes what follows)
                        v = _viol(job, label, clock, fname, fu_label,
                                  (faulty.get("oplog") or oplog) if "fail" in fspec else oplog, rec, exp)
                        if "fail" in fspec:
                            # attribute a failing superset to the minimal failing subset found earlier
                            cur = frozenset(fspec["fail"])
                            for sub, sig in failing_subsets:
                                if sub < cur:
                                    v["signature"] = sig
                                    break
                            else:
                                failing_subsets.append((cur, v["signature"]))
                        violations.append(v)
                if len(samples) < 2 and nontrivial_base and killed:
                    samples.append({"universe": u.name, "store": job["store"], "pre": job["prefix"], "edit": label,
                                    "fault": fname, "oplog": [op_desc(o) for o in oplog], "clock": clock})
    shutil.rmtree(work, ignore_errors=True)
    return {"stats": dict(stats), "violations": violations, "samples": samples, "herr": herr}


def _fault_sig(fname: str, oplog: list) -> str:
    kind, _, pos = fname.partition(":")
    if kind == "fail":
        # (an index beyond the log: the planned failure was never reached because an earlier failed write changed
        # what the run did afterwards; it did not happen and is not part of the name)
        ks = [int(x) for x in pos.split(",") if int(x) < len(oplog)]
        return "fail:" + "+".join(sorted({op_desc(oplog[k]) for k in ks}))
    k = int(pos)
    if kind == "kill-before":
        prev = op_desc(oplog[k - 1]) if k > 0 else "start"
        return f"kill between {prev} and {op_desc(oplog[k])}"
    if kind == "kill-after":
        nxt = op_desc(oplog[k + 1]) if k + 1 < len(oplog) else "end"
        return f"kill between {op_desc(oplog[k])} and {nxt}"
    return f"kill inside {op_desc(oplog[k])}"


def _viol(job, label, clock, fname, fu, oplog, rec, exp, what_extra="") -> dict:
    sig = f"{job['store']}|{_fault_sig(fname, oplog)}"
    if rec.get("crashed"):
        sig += "|crash"
    return {
        "signature": sig,
        "what": f"{job['universe']} [{job['store']}/{job['fmt']}/{clock}] pre={job['prefix']} edit={label!r} fault={fname} "
                f"({_fault_sig(fname, oplog)}) recovery[{fu}]: got={rec['messages'][:2]} cold={exp['messages'][:2]} {what_extra}",
        "detail": {"job": {k: v for k, v in job.items()}, "edit": label, "clock": clock, "fault": fname, "followup": fu,
                   "oplog": [list(o) for o in oplog], "got": rec["messages"], "expected": exp["messages"],
                   "crashed": rec.get("crashed")},
    }


def make_jobs(ctx: Ctx) -> list[dict]:
    jobs = []
    unis = ["U1", "U2", "U3", "U6", "U8", "U17"]
    stores = [("fs", "ff"), ("sqlite", "ff")] + ([("fs", "json"), ("sqlite", "json")] if ctx.thorough else [])
    idx = 0
    for un in unis:
        u = universes.ALL[un]
        for store, fmt in stores:
            # level 1: faults on every edit from the initial warm state
            common = {"universe": un, "store": store, "fmt": fmt, "clocks": ["content", "same-second"],
                      "max_fail_subset": 2 if ctx.quick else 3, "all_subsets_upto_writes": 6 if ctx.quick else 10,
                      "followup_edits": ctx.thorough}
            # one job per level-1 edit so that the pool is balanced
            tmp_inst_edits = _initial_edits(u)
            for lab in tmp_inst_edits:
                idx += 1
                jobs.append({**common, "prefix": [], "only_edit": lab, "idx": idx})
            # level 2: faults on every edit after one clean edit+run
            lvl2 = tmp_inst_edits if ctx.thorough else tmp_inst_edits[:2] if un in ("U1", "U2") else []
            for lab in lvl2:
                idx += 1
                jobs.append({**common, "prefix": [lab], "only_edit": None, "idx": idx,
                             "clocks": ["content"] if ctx.quick else ["content", "same-second"]})
    return seeded_order(jobs, ctx.seed)


def _initial_edits(u) -> list[str]:
    class _Dummy(Instance):
        def __init__(self, u) -> None:  # no directories needed to list edits
            self.u = u
            self.paths = u.paths()
            self.clock = "preserving"

    d = _Dummy(u)
    return [l for l, _ in d.edits(d.initial_F(), 0)]


def run(ctx: Ctx, jobs: list[dict] | None = None) -> Result:
    _install_mid_write_kill()
    jobs_given = jobs
    jobs = jobs if jobs is not None else make_jobs(ctx)
    tot: Counter = Counter()
    violations: list[Violation] = []
    samples: list[Any] = []
    herr: list[str] = []
    for _i, job, st, val in pmap(explore_job, jobs, fresh=False, timeout=3600):
        if st != "ok":
            herr.append(f"job {job} failed: {val}")
            continue
        tot.update(val["stats"])
        for v in val["violations"]:
            violations.append(Violation(v["signature"], v["what"], v["detail"]))
        if len(samples) < 5:
            samples.extend(val["samples"][:1])
        herr.extend(val["herr"])
    # ---- parallel lane: coordinator + every worker of a controlled parallel build (mc/c04_parallel.py)
    from mc import c04_parallel

    par_tot: Counter = Counter()
    par_ops = []
    if jobs_given is None:
        pjobs = c04_parallel.make_jobs(ctx.quick)
        for _i, job, st, val in pmap(c04_parallel.explore_job, pjobs, fresh=False, jobs=6, timeout=7200):
            if st != "ok":
                herr.append(f"parallel job {job} failed: {val}")
                continue
            par_tot["fault_runs"] += val["fault_runs"]
            par_tot["recovery_runs"] += val["recovery_runs"]
            par_ops.append({"program": job["program"], "store": job["store"], "edit": job["edit"],
                            "store_ops_per_process": val["ops"], "fault_runs": val["fault_runs"]})
            for v in val["violations"]:
                violations.append(Violation(v["signature"], v["what"], v["detail"]))
            samples.extend(val["samples"][:1])
            herr.extend(val["herr"])
        if par_tot["fault_runs"] < 20:
            raise RuntimeError(f"parallel fault lane vacuous: {dict(par_tot)} {herr[:2]}")
    if tot["base_nontrivial"] < 5 or tot["fault_runs"] < 100:
        raise RuntimeError(f"vacuous: {dict(tot)}")
    cov = {
        "evaluations": tot["fault_runs"] + tot["recovery_runs"] + par_tot["fault_runs"] + par_tot["recovery_runs"],
        "parallel_lane": {"fault_runs": par_tot["fault_runs"], "recovery_runs": par_tot["recovery_runs"],
                          "instances": par_ops,
                          "rule": "controlled default schedule, N=2; kill before/after EVERY store op of the coordinator and "
                                  "of each worker, and every single failed write; then a sequential warm run vs cold"},
        "distinct_nontrivial": tot["base_nontrivial"],
        "rule": "one evaluation = one real build under one fault plan, or its recovery run; a base transition is "
                "non-trivial iff its clean run re-checked some but not all user modules (warm, partially stale cache); "
                "for each base transition ALL kill points (before/after every store op, mid-write for the file store) "
                "and all failed-write subsets up to the bound are enumerated under both clock answers",
        "base_transitions": tot["base_transitions"], "fault_runs": tot["fault_runs"],
        "recovery_runs": tot["recovery_runs"], "jobs": len(jobs),
        "bounds": {"failed_write_subset_size": 2 if ctx.quick else 3, "kill_points": "all",
                   "pre_state_depth": "1-2 clean runs", "followup_edit_after_fault": ctx.thorough,
                   "clocks": ["content", "same-second"]},
        "exhaustive": True, "samples": samples[:5], "violating_executions": len(violations),
    }
    return Result(PROPERTY, LEVEL, cov, violations, assumptions=[
        "parallel lane: default schedule only (schedule x fault products are not enumerated), single faults",
        "kill = os._exit at a store-operation boundary or between temp-file write and rename; page-cache loss "
        "(power failure) is not modelled",
        "fixture stubs on both sides",
    ], harness_errors=herr)


def _install_mid_write_kill() -> None:
    """Teach the proxy file store the mid-write kill point (temp file written, rename not done)."""
    import mc.drivers as d

    if getattr(d, "_mid_installed", False):
        return
    orig = d.make_proxy_store

    def make(options: Any, parallel_worker: bool, plan: StorePlan) -> Any:
        st = orig(options, parallel_worker, plan)
        k_mid = getattr(plan, "kill_mid", None)
        if k_mid is None or options.sqlite_cache:
            return st
        cls = type(st)
        real_write = cls.write

        def write(self: Any, name: str, data: bytes, mtime: float | None = None) -> bool:
            if plan.n == k_mid and self.cache_dir_prefix:
                path = os.path.join(self.cache_dir_prefix, name)
                os.makedirs(os.path.dirname(path), exist_ok=True)
                with open(path + ".deadbeefdeadbeef", "wb") as f:
                    f.write(data)
                os._exit(137)
            return real_write(self, name, data, mtime)

        cls.write = write
        return st

    d.make_proxy_store = make
    d._mid_installed = True


def replay(ctx: Ctx, rec: dict) -> Result:
    d = rec["detail"]
    job = dict(d["job"])
    job["only_edit"] = d["edit"]
    job["clocks"] = [d["clock"]]
    _install_mid_write_kill()
    out = explore_job(job)
    vs = [Violation(v["signature"], v["what"], {}) for v in out["violations"] if v["signature"] == rec["signature"]]
    return Result(PROPERTY, LEVEL, {}, vs)
