"""C12 — static models of Python's run-time rules agree exactly with CPython.

Four independent bounded-exhaustive enumerations (DESIGN section 4 / C12), reference = the
interpreter running the check; both directions are judged in each:

  calls  mc/c12_calls.py  signature x call shape: mypy diagnostic on the call line <=> TypeError
                          from really calling the function
  mro    mc/c12_mro.py    class hierarchies: TypeInfo.mro == type(...).__mro__, MRO/duplicate-base
                          diagnostic <=> class creation fails
  reach  mc/c12_reach.py  sys.version_info / sys.platform conditions x targets: a decided branch
                          must be the branch every consistent run time takes (both parsers)
  fold   mc/c12_fold.py   constant expressions: folded value/type == eval, no fold where eval raises
                          (mypy/constant_fold.py and mypyc/irbuild/constant_fold.py)

All work items of the four sub-enumerations share one process pool.  The first (smallest)
violation of every signature is additionally re-run through the real command line
(`python -m mypy` in a subprocess, cold, bundled typeshed) and through the real interpreter.
"""

from __future__ import annotations

import os
import shutil
import sys
from collections import Counter
from typing import Any

from mc import c12_calls, c12_fold, c12_mro, c12_reach
from mc.common import Ctx, Result, Violation, log, scratch, seeded_order
from mc.kernel import pmap, run_isolated

PROPERTY = "C12"
LEVEL = "exploration"

SUBS = ("calls", "mro", "reach", "fold")
ITEM_TIMEOUT = 3000.0
MAX_CLI_CONFIRMATIONS = 12


# --------------------------------------------------------------------------- pool plumbing


def _warm_cache(_: Any) -> str:
    """Build a tiny module once with the bundled typeshed so that builtins/typing are cached."""
    from mc.drivers import build_inproc

    root = scratch("c12", "warm")
    os.makedirs(os.path.join(root, "tmp"), exist_ok=True)
    text = "from typing import TypedDict, Final\nclass D(TypedDict):\n    a: int\nx: Final = 1\n"
    r = build_inproc({"root": root, "sources": [("c12warm.py", "c12warm", text)], "cache_dir": os.path.join(root, "cache"),
                      "fixtures": False})
    if r["messages"] or r["crashed"]:
        raise RuntimeError(f"warm-up build is not clean: {r['messages']} {r['crashed']}")
    return os.path.join(root, "cache")


def _work(item: dict) -> dict:
    """Pool worker entry (long-lived worker; every mypy execution happens in a fresh fork)."""
    kind = item["kind"]
    if kind == "calls":
        return c12_calls.run_item(item)  # forks per build itself
    fn = {"mro": c12_mro.run_item, "reach": c12_reach.run_item, "fold": c12_fold.run_item, "cli": _cli_confirm}[kind]
    if kind == "cli":
        return fn(item)
    return run_isolated(fn, item, timeout=ITEM_TIMEOUT)


def _all_items(ctx: Ctx, cache: str, only: tuple[str, ...]) -> tuple[list[dict], dict[str, Any]]:
    tier = ctx.tier
    items: list[dict] = []
    spaces: dict[str, Any] = {}
    if "calls" in only:
        its, spaces["calls"] = c12_calls.items(tier, 2500)
        items += its
    if "mro" in only:
        its, spaces["mro"] = c12_mro.items(tier, 350)
        items += its
    if "reach" in only:
        its, spaces["reach"] = c12_reach.items(tier, 4000)
        items += its
    if "fold" in only:
        its, spaces["fold"] = c12_fold.items(tier, 25000)
        items += its
    for it in items:
        it["cache"] = cache
    # seed only permutes ties; biggest first keeps the pool busy
    items = seeded_order(items, ctx.seed)
    items.sort(key=lambda it: -it["cost"])
    return items, spaces


# --------------------------------------------------------------------------- command-line confirmation


def _cli_confirm(job: dict) -> dict:
    """Re-run one violation through the real `python -m mypy` (cold subprocess) and the real interpreter."""
    import subprocess

    from mc.drivers import cli_subprocess

    d = job["detail"]
    work = scratch("c12", f"cli-{os.getpid()}-{job['n']}")
    out: dict[str, Any] = {"confirmed": False}
    try:
        path = os.path.join(work, "prog.py")
        args = ["--no-incremental", "--show-traceback", "prog.py"]
        if d["sub"] == "calls":
            text, first = c12_calls.module_text(d["sig_src"], d["names"], [d["call"]])
            open(path, "w").write(text)
            r = cli_subprocess(args, work)
            p = subprocess.run([sys.executable, "prog.py"], cwd=work, capture_output=True, text=True, timeout=120)
            rt_raises = p.returncode != 0 and "TypeError" in p.stderr
            out["mypy_status"] = r["status"]
            out["mypy_output"] = (r["stdout"] + r["stderr"])[-600:]
            out["python"] = p.stderr.strip().splitlines()[-1:] if p.stderr else []
            if "mypy_crash" in d:
                out["confirmed"] = r["status"] == 2 and "INTERNAL ERROR" in r["stderr"] + r["stdout"]
            elif d["runtime_error"] is not None:
                out["confirmed"] = r["status"] == 0 and rt_raises
            else:
                out["confirmed"] = r["status"] == 1 and f"prog.py:{first}:" in r["stdout"] and p.returncode == 0
        elif d["sub"] == "reach":
            ver = tuple(d["version"])
            if ver < (3, 10):
                return {"confirmed": None, "note": "the command line refuses targets below 3.10; not re-run"}
            text = (f"import sys\nif {d['cond']}:\n    print('BODY')\n    b: int = 'checked-body'\nelse:\n    print('ELSE')\n"
                    f"    e: int = 'checked-else'\n")
            open(path, "w").write(text)
            a = [f"--python-version={ver[0]}.{ver[1]}", f"--platform={d['platform']}"] + args
            if d["native"]:
                out["note"] = "violation seen with the native parser; CLI run uses the default parser"
            r = cli_subprocess(a, work)
            out["mypy_status"] = r["status"]
            out["mypy_output"] = (r["stdout"] + r["stderr"])[-600:]
            checked = {"BODY": "prog.py:4:" in r["stdout"], "ELSE": "prog.py:7:" in r["stdout"]}
            out["mypy_checks_branch"] = checked
            mypy_side = (d["mypy"] == "T" and checked == {"BODY": True, "ELSE": False}) or \
                        (d["mypy"] == "F" and checked == {"BODY": False, "ELSE": True})
            if ver == tuple(sys.version_info[:2]) and d["platform"] == sys.platform and "x" not in d["cond"].replace("version", ""):
                p = subprocess.run([sys.executable, "prog.py"], cwd=work, capture_output=True, text=True, timeout=120)
                taken = p.stdout.strip()
                out["python_takes_branch"] = taken
                out["confirmed"] = mypy_side and taken in checked and not checked[taken]
            else:
                out["note"] = "target differs from the running interpreter: only the mypy side is re-run via the CLI"
                out["confirmed"] = mypy_side
        elif d["sub"] == "fold":
            expr = d["blamed"]
            if d["kind"] == "crash":
                open(path, "w").write("from typing import Final\n" + c12_fold.PRELUDE.split("\n", 1)[1] + f"x = {expr}\n")
                if "mypy" in d["folders"]:
                    r = cli_subprocess(args, work)
                    out["mypy_status"] = r["status"]
                    out["mypy_output"] = (r["stdout"] + r["stderr"])[-600:]
                    out["confirmed"] = r["status"] == 2 and "INTERNAL ERROR" in r["stderr"] + r["stdout"]
                else:
                    # mypyc-only folder: run the mypyc front end in a subprocess (it dies before any C is produced)
                    code = ("import sys; sys.path.insert(0, '/repo'); from mypyc.build import mypycify; "
                            "mypycify(['prog.py'])")
                    env = dict(os.environ, PYTHONPATH="/repo")
                    p = subprocess.run([sys.executable, "-c", code], cwd=work, capture_output=True, text=True, timeout=600, env=env)
                    out["mypyc_status"] = p.returncode
                    out["mypyc_output"] = (p.stdout + p.stderr)[-600:]
                    exc = d["folded"][d["folders"][0]][1].split(":")[0].strip("'\"")
                    out["confirmed"] = p.returncode != 0 and exc in p.stdout + p.stderr
                    shutil.rmtree(os.path.join(work, "build"), ignore_errors=True)
            else:
                open(path, "w").write("from typing import Final\n" + c12_fold.PRELUDE.split("\n", 1)[1]
                                      + f"X: Final = {expr}\nreveal_type(X)\nprint(repr(X))\n")
                r = cli_subprocess(args, work)
                p = subprocess.run([sys.executable, "-c", "import builtins; builtins.reveal_type = lambda x: x; exec(open('prog.py').read())"],
                                   cwd=work, capture_output=True, text=True, timeout=120)
                out["mypy_status"] = r["status"]
                out["mypy_output"] = (r["stdout"] + r["stderr"])[-600:]
                out["python_prints"] = p.stdout.strip()
                revealed = [ln for ln in r["stdout"].splitlines() if "Revealed type" in ln]
                out["confirmed"] = bool(revealed) and f"Literal[{p.stdout.strip()}]" not in revealed[0]
        else:
            out["note"] = "no CLI procedure for this sub-enumeration"
    except Exception as e:  # noqa: BLE001
        out["error"] = f"{type(e).__name__}: {e}"
    finally:
        shutil.rmtree(work, ignore_errors=True)
    return out


# --------------------------------------------------------------------------- ordering / aggregation


def _size_key(v: dict) -> tuple:
    d = v["detail"]
    if d["sub"] == "calls":
        return (0, len(d["sig"]), len(d["shape"]), len(d["call"]), d["sig_src"], d["call"])
    if d["sub"] == "mro":
        return (1, len(d["hierarchy"]), sum(len(b) for b in d["hierarchy"]), str(d["hierarchy"]))
    if d["sub"] == "reach":
        here = tuple(d["version"]) == tuple(sys.version_info[:2]) and d["platform"] == sys.platform
        return (2, 0 if here else 1, 1 if d["native"] else 0, len(d["cond"]), d["cond"], d["version"], d["platform"])
    return (3, len(d["blamed"]), len(d["expr"]), d["expr"])


def _vacuity(sub: str, st: Counter, extra: dict[str, Counter]) -> list[str]:
    bad = []
    if sub == "calls":
        for k in ("rt_accept", "rt_reject", "mypy_accept", "mypy_reject", "agree_accept", "agree_reject"):
            if st[k] == 0:
                bad.append(f"calls: {k} == 0")
        if len(extra["mypy_kinds"]) < 5 or len(extra["rt_kinds"]) < 5:
            bad.append("calls: fewer than 5 distinct diagnostic kinds")
    elif sub == "mro":
        if st["rt_reject"] == 0 or st["multi_base_ok"] == 0 or len(extra["kinds"]) < 2:
            bad.append("mro: no rejected hierarchy / no accepted multiple inheritance / <2 diagnostic kinds")
    elif sub == "reach":
        if min(st["decided_T"], st["decided_F"], st["decided_U"]) == 0 or st["runtime_varies_or_raises"] == 0:
            bad.append("reach: some decision class never occurred")
    elif sub == "fold":
        if min(st["folded_and_equal"], st["ref_exc"], st["mypy_none"], st["mypyc_val"], st["wired_checked"]) == 0:
            bad.append("fold: nothing folded / nothing raised / nothing left unfolded / wired lane empty")
    return bad


def run(ctx: Ctx, only: tuple[str, ...] = SUBS, item_filter: Any = None) -> Result:
    """`only` / `item_filter` restrict the run (used by detection demos); a restricted run reports
    exhaustive=False for the sub-enumerations it cut."""
    scratch("c12")  # fix the scratch root in THIS process: every fork below inherits it, one sweep at exit
    cache = run_isolated(_warm_cache, 0, timeout=900)
    items, spaces = _all_items(ctx, cache, only)
    if item_filter is not None:
        items = [it for it in items if item_filter(it)]
    log(f"C12 {ctx.tier}: {len(items)} work items " + str({s: sum(1 for i in items if i['kind'] == s) for s in only}))
    stats: dict[str, Counter] = {s: Counter() for s in SUBS}
    extra: dict[str, dict[str, Counter]] = {s: {"mypy_kinds": Counter(), "rt_kinds": Counter(), "kinds": Counter()} for s in SUBS}
    samples: dict[str, list] = {s: [] for s in SUBS}
    raw: list[dict] = []
    herr: list[str] = []
    failed_items = Counter()
    for _i, item, status, val in pmap(_work, items, fresh=False, timeout=ITEM_TIMEOUT):
        sub = item["kind"]
        if status != "ok":
            failed_items[sub] += 1
            herr.append(f"{sub} item {({k: v for k, v in item.items() if k != 'cache'})} failed: {str(val)[:1500]}")
            continue
        stats[sub].update(val["stats"])
        stats[sub]["items"] += 1
        for k in ("mypy_kinds", "rt_kinds", "kinds"):
            extra[sub][k].update(val.get(k, {}))
        if val.get("sample") and len(samples[sub]) < 2:
            samples[sub].append(val["sample"])
        if sub in ("mro",):
            stats[sub]["nontrivial"] += val["nontrivial"]
        raw.extend(val["violations"])
        herr.extend(val.get("harness_errors", []))

    # simplest first, so the first violation of each signature is the minimal one
    raw.sort(key=_size_key)
    first_of: dict[str, dict] = {}
    per_sig: Counter[str] = Counter()
    for v in raw:
        per_sig[v["signature"]] += 1
        first_of.setdefault(v["signature"], v)

    # command-line confirmation of the minimal instance of every signature
    cli_jobs = [{"kind": "cli", "n": n, "signature": sig, "detail": v["detail"], "cost": 0}
                for n, (sig, v) in enumerate(sorted(first_of.items())) if v["detail"]["sub"] != "mro"][:MAX_CLI_CONFIRMATIONS]
    confirmations: dict[str, Any] = {}
    for _i, job, status, val in pmap(_work, cli_jobs, fresh=False, timeout=900):
        if status != "ok":
            herr.append(f"CLI confirmation of {job['signature']} failed: {str(val)[:500]}")
            continue
        confirmations[job["signature"]] = val
        first_of[job["signature"]]["detail"]["cli_confirmation"] = val
        if val.get("confirmed") is False:
            herr.append(f"CLI run did NOT confirm {job['signature']}: {val}")

    violations = [Violation(v["signature"], v["what"], v["detail"]) for v in raw]

    vac: list[str] = []
    for s in only:
        if failed_items[s] == 0:
            vac += _vacuity(s, stats[s], extra[s])
    if vac:
        raise RuntimeError("vacuous exploration: " + "; ".join(vac))

    def pick(st: Counter, keys: list[str]) -> dict[str, int]:
        return {k: st[k] for k in keys}

    cov_sub: dict[str, Any] = {}
    if "calls" in only:
        st = stats["calls"]
        cov_sub["calls"] = {
            "space": spaces["calls"], "call_lines_evaluated": st["calls"], "mypy_builds": st["builds"],
            **pick(st, ["rt_accept", "rt_reject", "mypy_accept", "mypy_reject", "agree_accept", "agree_reject",
                        "false-accept", "false-reject", "mypy_crash", "shim_divergences", "fallback", "nontrivial"]),
            "distinct_mypy_diagnostic_kinds": dict(extra["calls"]["mypy_kinds"].most_common()),
            "distinct_cpython_error_kinds": len(extra["calls"]["rt_kinds"]),
            "complete": failed_items["calls"] == 0 and st["calls"] == spaces["calls"]["call_lines"],
            "note": "mypy_crash lines are detected with a record-and-continue shim; all other verdicts of a module in "
                    "which it fired come from a second, unshimmed build without those lines",
        }
    if "mro" in only:
        st = stats["mro"]
        cov_sub["mro"] = {
            "space": spaces["mro"], **pick(st, ["hierarchies", "classes_compared", "classes_without_reference", "rt_accept",
                                                "rt_reject", "multi_base_ok", "false-accept", "false-reject", "mro-differs",
                                                "nontrivial"]),
            "diagnostic_kinds": dict(extra["mro"]["kinds"]),
            "complete": failed_items["mro"] == 0 and st["hierarchies"] == spaces["mro"]["hierarchies"],
        }
    if "reach" in only:
        st = stats["reach"]
        want = sum(v["evaluations"] for k, v in spaces["reach"].items() if isinstance(v, dict))
        cov_sub["reach"] = {
            "space": spaces["reach"], **pick(st, ["evaluations", "decided_T", "decided_F", "decided_U", "decided_BOTH-UNREACHABLE",
                                                  "runtime_constant", "runtime_varies_or_raises", "undecided_though_constant",
                                                  "wrong", "nontrivial"]),
            "complete": failed_items["reach"] == 0 and st["evaluations"] == want,
        }
    if "fold" in only:
        st = stats["fold"]
        want = sum(v["expressions"] for v in spaces["fold"].values())
        cov_sub["fold"] = {
            "space": spaces["fold"], **pick(st, ["expressions", "evaluations", "skipped_resource_guard", "ref_val", "ref_exc",
                                                 "mypy_val", "mypy_none", "mypy_crash", "mypyc_val", "mypyc_none", "mypyc_crash",
                                                 "folded_and_equal", "failing_expressions", "parser_differences",
                                                 "wired_checked", "wired_final_value_set"]),
            "nontrivial": st["nontrivial"],
            "complete": failed_items["fold"] == 0 and st["expressions"] == want,
        }

    evaluations = (stats["calls"]["calls"] + stats["mro"]["classes_compared"] + stats["reach"]["evaluations"]
                   + stats["fold"]["evaluations"])
    all_samples: list[Any] = []
    for s in only:
        all_samples += [{"sub": s, **x} for x in samples[s][:2]]
    cov = {
        "evaluations": evaluations,
        "distinct_nontrivial": sum(stats[s]["nontrivial"] for s in only),
        "rule": "calls: (signature, call) pairs with >=1 parameter and >=1 actual; mro: hierarchies whose last class has "
                ">=2 bases (and bases that exist at run time); reach: (condition, target, platform) triples that mypy "
                "decides statically (counted once, fastparse); fold: expressions that a folder folds or crashes on, or on "
                "which eval raises",
        "exhaustive": all(c["complete"] for c in cov_sub.values()),
        "sub_enumerations": cov_sub,
        "violating_cases_by_signature": dict(sorted(per_sig.items())),
        "cli_confirmations": {sig: {"confirmed": c.get("confirmed"), **{k: v for k, v in c.items() if k in ("note", "python", "python_takes_branch", "mypy_checks_branch", "python_prints", "mypy_status", "mypyc_status", "error")}}
                              for sig, c in sorted(confirmations.items())},
        "failed_items": dict(failed_items),
        "samples": all_samples or [{"note": "no agreeing sample collected"}],
        "bounds": {"tier": ctx.tier, "calls": c12_calls.BOUNDS_TEXT[ctx.tier]},
    }
    return Result(PROPERTY, LEVEL, cov, violations, assumptions=[
        "reference interpreter = the CPython running the check (%d.%d); call binding, C3 linearisation and constant "
        "arithmetic are taken from it" % sys.version_info[:2],
        "bundled typeshed (no fixture stubs); builtins/typing are loaded from a cache warmed once per run",
        "reach: the run-time sys.version_info for target (3, N) is any (3, N, micro, level, serial); a plain tuple stands "
        "in for the struct sequence; python_version is set through Options (the CLI refuses targets below 3.10)",
        "fold: mypyc's folder is called directly on real (parsed / semantically analysed) trees, not through a compiled "
        "extension; expressions whose evaluation would allocate 8e6..2^50 bits/items are excluded (counted)",
        "calls: all types are int, so every diagnostic on a call line is an arity/keyword diagnostic",
    ], harness_errors=herr)


# --------------------------------------------------------------------------- replay


def replay(ctx: Ctx, rec: dict) -> Result:
    d = rec["detail"]
    sub = d["sub"]
    viol: list[Violation] = []
    scratch("c12")
    if sub == "calls":
        cache = run_isolated(_warm_cache, 0, timeout=900)
        r = c12_calls.replay_one(d, cache)
        print(r["text"])
        print("CPython:", r["runtime_error"] or "binds", "| mypy:", r["mypy"])
        crashed = isinstance(r["mypy"], dict)
        if crashed and "mypy_crash" in d:
            viol.append(Violation(rec["signature"], f"INTERNAL ERROR again: {r['mypy']}", {}))
        elif not crashed and (r["runtime_error"] is None) != (not r["mypy"]):
            viol.append(Violation(rec["signature"], f"CPython {r['runtime_error'] or 'binds'}, mypy {r['mypy'] or 'silent'}", {}))
    elif sub == "mro":
        r = c12_mro.replay_one(d, None)
        print(r)
        rt = r["runtime"]
        bad = (isinstance(rt, tuple) != bool(r["mypy_messages"])) or (isinstance(rt, list) and rt != r["mypy_mro"])
        if bad:
            viol.append(Violation(rec["signature"], f"runtime {rt}, mypy mro {r['mypy_mro']} messages {r['mypy_messages']}", {}))
    elif sub == "reach":
        r = c12_reach.replay_one(d)
        print(r)
        want = {"T": "True", "F": "False"}.get(r["mypy"])
        if want is not None and any(v != want for v in r["runtime"]):
            viol.append(Violation(rec["signature"], f"`{d['cond']}` decided {r['mypy']}, run time gives {r['runtime']}", {}))
    elif sub == "fold":
        cache = run_isolated(_warm_cache, 0, timeout=900)
        r = c12_fold.replay_one(d, cache)
        print(r)
        if r["failing"]:
            viol.append(Violation(rec["signature"], f"`{c12_fold.short_src(d['expr'])}`: eval {r['reference']}, folded {r['folded']}", {}))
    else:
        raise ValueError(f"unknown sub-enumeration {sub!r}")
    return Result(PROPERTY, LEVEL, {}, viol)
