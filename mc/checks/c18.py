"""C18 -- files <-> module names are consistent (S3: exhaustive exploration of all small trees).

Space: every directory tree over the names {a, b} (node kinds X.py, X.pyi, directory with any subset
of {__init__.py, __init__.pyi}; a<->b mirror images once) up to a file-count / depth bound, times
namespace_packages x explicit_package_bases x MYPYPATH {unset, [sub]} x cwd {root, inside} times
the invocation forms {mypy DIR, mypy FILES... in every order, mypy -p PKG, mypy -m MOD, mypy FILE}.
Every file carries one error line of its own, a class that identifies the file, and
`from M import ID` + `reveal_type` for the module name M that mypy assigns to every other file,
so the diagnostics say which files were checked and which file every import resolved to.

Every invocation is the real command-line front end (`mypy.main.process_options`, which calls
`create_source_list` / `FindModuleCache.find_modules_recursive`) followed by the real
`mypy.build.build` on the real files.  Oracle = what the property states, nothing more:
 (a) per target directory, `mypy DIR`, `mypy FILES...` (every order) and `mypy -p PKG` report the
     same diagnostics unless one of them stops with the duplicate-module blocker;
 (b) in every finished build, for every file F of the tree whose module name M = module_of(F)
     (what mypy itself assigns when F is named on the command line) is unambiguous,
     graph[M].path is F or its sibling stub.
"""

from __future__ import annotations

import io
import itertools
import os
import re
import shutil
import time
from collections import Counter
from typing import Any

import mypy.build  # noqa: F401  (imported here so that forked children inherit the loaded modules)
import mypy.main  # noqa: F401

from mc import c18_trees as T
from mc.common import Ctx, Result, Violation, log, same_diagnostics, scratch, seeded_order
from mc.kernel import chunked, pmap

PROPERTY = "C18"
LEVEL = "exploration"

BASE_FLAGS = ["--no-incremental", "--cache-dir", os.devnull, "--no-site-packages", "--no-error-summary",
              "--config-file="]
OPTS: dict[str, list[str]] = {
    "ns0": ["--no-namespace-packages"],
    "ns1": ["--namespace-packages"],
    "ns1epb": ["--namespace-packages", "--explicit-package-bases"],
}
ERR_TEXT = "Incompatible types in assignment"
# mypy attaches this pointer to the first missing-import error of a *run* (only_once): which file carries it depends
# on processing order, which no property promises
ONCE_PER_RUN_NOTE = ": note: See https://mypy.readthedocs.io/en/stable/running_mypy.html#missing-imports"
_LINE_RE = re.compile(r"^(?P<file>[^:\n]+):(?P<rest>\d+(?::\d+)*: (?:error|note|warning): .*)$", re.S)


# ----------------------------------------------------------------------------- configs / plans


def all_configs() -> list[dict]:
    out = []
    for inside in (False, True):
        for mp in (False, True):
            for opt in OPTS:
                out.append({"opt": opt, "mp": mp, "inside": inside})
    return out


CORE_CONFIGS = [c for c in all_configs() if not c["mp"] and not c["inside"]]
EXTRA_CONFIGS = [c for c in all_configs() if c["mp"] or c["inside"]]


def cfg_name(c: dict) -> str:
    return f"{c['opt']}/{'mypypath' if c['mp'] else 'nopath'}/{'inside' if c['inside'] else 'root'}"


def orders(files: list[str], mode: str) -> list[tuple[str, ...]]:
    """The orders in which FILES are listed (<= 2 files: always both orders).  'all' = every permutation;
    'rot' = all rotations of the sorted order and of its reverse; 'rev' = sorted and reversed; 'one' = reversed."""
    n = len(files)
    if mode == "all" or n <= 2:
        return list(itertools.permutations(files))
    base = list(files)
    if mode == "rev":
        return [tuple(base), tuple(reversed(base))]
    if mode == "one":
        return [tuple(reversed(base))]
    out: list[tuple[str, ...]] = []
    for seq in (base, list(reversed(base))):
        for i in range(n):
            r = tuple(seq[i:] + seq[:i])
            if r not in out:
                out.append(r)
    return out


# ----------------------------------------------------------------------------- one (tree, config) case


class Case:
    """All invocations for one tree under one configuration, run in the current process."""

    def __init__(self, root: str, tree: T.Tree, cfg: dict, plan: dict) -> None:
        self.root = root
        self.tree = tree
        self.cfg = cfg
        self.plan = plan
        self.stats: Counter = Counter()
        self.violations: list[dict] = []
        self.herr: list[str] = []
        self.outcomes: Counter = Counter()
        self.memo_args: dict[tuple, dict] = {}
        self.memo_src: dict[tuple, dict] = {}
        self.nbuild = 0
        self.sample: dict | None = None
        tops = [d for d in T.dirs_of(tree) if "/" not in d]
        self.applicable = True
        self.cwd_rel = ""
        self.sub_rel: str | None = None
        if cfg["inside"]:
            if not tops:
                self.applicable = False
            else:
                self.cwd_rel = tops[0]
        if cfg["mp"]:
            if not tops:
                self.applicable = False
            else:
                self.sub_rel = tops[-1]
        self.cwd = os.path.join(root, self.cwd_rel) if self.cwd_rel else root
        self.flags = BASE_FLAGS + OPTS[cfg["opt"]]

    # -- environment ---------------------------------------------------------------------------

    def abs(self, p: str) -> str:
        return os.path.join(self.root, p) if p else self.root

    def rel(self, p: str) -> str:
        """root-relative path -> path as typed on the command line from cwd"""
        return os.path.relpath(os.path.join(self.root, p) if p else self.root, self.cwd)

    def enter(self) -> None:
        os.chdir(self.cwd)
        if self.sub_rel is not None:
            os.environ["MYPYPATH"] = self.rel(self.sub_rel)
        else:
            os.environ.pop("MYPYPATH", None)

    def materialise_skeleton(self) -> None:
        if os.path.isdir(self.root):
            shutil.rmtree(self.root)
        os.makedirs(self.root)
        for p in self.tree:
            fp = os.path.join(self.root, p)
            os.makedirs(os.path.dirname(fp), exist_ok=True)
            with open(fp, "w") as f:
                f.write("")

    def write_contents(self) -> None:
        for k, p in enumerate(self.tree):
            own = self.names.get(p)
            imports = [m for m in self.all_names if m != own]
            with open(os.path.join(self.root, p), "w") as f:
                f.write(file_text(k, p.endswith(".pyi"), imports))

    # -- running mypy --------------------------------------------------------------------------

    def norm_lines(self, msgs: list[str]) -> list[str]:
        out = []
        for ln in msgs:
            if ONCE_PER_RUN_NOTE in ln:
                continue
            m = _LINE_RE.match(ln)
            if m:
                fp = os.path.normpath(os.path.join(self.cwd, m.group("file")))
                if fp == self.root or fp.startswith(self.root + os.sep):
                    out.append(os.path.relpath(fp, self.root) + ":" + m.group("rest"))
                    continue
            out.append(ln)
        return out

    def invoke(self, args: list[str]) -> dict:
        key = tuple(args)
        r = self.memo_args.get(key)
        if r is not None:
            return r
        if self.plan.get("fresh_each"):
            # validation mode: every single invocation in its own freshly forked process (no sharing of builds)
            from mc.kernel import run_isolated

            r, st = run_isolated(self._invoke_fresh, args, timeout=600)
            self.stats.update(st)
            if r["bid"] > 0:
                self.nbuild += 1
                r["bid"] = self.nbuild
        else:
            r = self._invoke(args)
        r["args"] = list(args)
        self.memo_args[key] = r
        return r

    def _invoke_fresh(self, args: list[str]) -> tuple[dict, dict]:
        self.stats = Counter()
        self.memo_src = {}
        return self._invoke(args), dict(self.stats)

    def _invoke(self, args: list[str]) -> dict:
        import mypy.build as mb
        import mypy.main as mm
        from mypy.errors import CompileError
        from mypy.fscache import FileSystemCache

        self.stats["invocations"] += 1
        so, se = io.StringIO(), io.StringIO()
        fscache = FileSystemCache()
        try:
            sources, options = mm.process_options(self.flags + args, stdout=so, stderr=se, fscache=fscache)
        except SystemExit:
            msg = (se.getvalue() or so.getvalue()).strip().splitlines()
            return {"kind": "usage", "msgs": msg[-1:] if msg else [""], "sources": [], "graph": None,
                    "checked": frozenset(), "bid": -1, "usage_class": usage_class(msg[-1] if msg else "")}
        srcs = [(os.path.abspath(s.path) if s.path else None, s.module, s.base_dir) for s in sources]
        skey = tuple((os.path.normpath(s.path) if s.path else None, s.module, s.base_dir, s.text) for s in sources)
        hit = self.memo_src.get(skey)
        if hit is not None:
            self.stats["builds_shared_identical_sources"] += 1
            r = dict(hit)
            r["sources"] = srcs
            return r
        self.nbuild += 1
        self.stats["builds"] += 1
        out: dict[str, Any] = {"sources": srcs, "graph": None, "bid": self.nbuild}
        if self.plan.get("dry"):  # sizing aid only (never used by run()): count builds without building
            out.update({"kind": "crash", "msgs": ["dry"], "checked": frozenset()})
            self.memo_src[skey] = out
            return out
        try:
            res = mb.build(sources, options, None, None, fscache, so, se)
            out["kind"] = "ok"
            msgs = list(res.errors)
            out["graph"] = {i: (os.path.abspath(st.path) if st.path else None) for i, st in res.graph.items()}
        except CompileError as e:
            out["kind"] = "blocker"
            msgs = list(e.messages)
            out["bkind"] = blocker_kind(msgs)
        except SystemExit as e:
            out["kind"] = "crash"
            msgs = [f"SystemExit({e.code})"] + se.getvalue().strip().splitlines()[-6:]
        except Exception as e:  # noqa: BLE001 - an internal error of mypy: reported, not compared
            out["kind"] = "crash"
            msgs = [f"{type(e).__name__}: {e}"]
        if "INTERNAL ERROR" in se.getvalue() and out["kind"] != "crash":
            out["kind"] = "crash"
            msgs = se.getvalue().strip().splitlines()[-6:]
        out["msgs"] = self.norm_lines(msgs)
        out["checked"] = frozenset(ln.split(":", 1)[0] for ln in out["msgs"] if ERR_TEXT in ln and ": error: " in ln)
        self.memo_src[skey] = out
        return out

    # -- the exploration -----------------------------------------------------------------------

    def prepare(self) -> None:
        """Create the tree, enter the configuration, ask mypy for module_of(file), write the contents."""
        import mypy.main as mm
        from mypy.fscache import FileSystemCache

        self.materialise_skeleton()
        self.enter()
        # module_of(file) / base_dir(file): what mypy assigns to the file when it is named on the command line
        self.names: dict[str, str] = {}
        self.bases: dict[str, str | None] = {}
        for p in self.tree:
            so, se = io.StringIO(), io.StringIO()
            try:
                srcs, _ = mm.process_options(self.flags + [self.rel(p)], stdout=so, stderr=se, fscache=FileSystemCache())
                self.names[p] = srcs[0].module
                self.bases[p] = srcs[0].base_dir
            except SystemExit:
                self.stats["files_mypy_refuses_to_name"] += 1
        self.unnameable = [p for p in self.tree if self.names.get(p, "__main__") == "__main__"]
        self.all_names = sorted(set(self.names.values()) - {"__main__"})
        self.write_contents()
        by_name: dict[str, list[str]] = {}
        for p, m in self.names.items():
            by_name.setdefault(m, []).append(p)
        # a module name is unambiguous if all files carrying it are stub siblings of each other
        self.unambiguous = {m: ps for m, ps in by_name.items()
                            if m != "__main__" and all(set(ps) <= T.sibling_stub_set(self.tree, q) for q in ps)}

    def run(self) -> None:
        if not self.applicable:
            self.stats["config_not_applicable"] += 1
            return
        self.prepare()
        search_roots = {self.cwd}
        if self.sub_rel is not None:
            search_roots.add(self.abs(self.sub_rel))
        if self.unnameable:
            # Documented: with explicit package bases an __init__ file directly inside a base (cwd / MYPYPATH entry)
            # has no module name (mypy calls it "__main__").  The property presupposes that every file has a
            # name, so such a configuration is outside its scope; anywhere else a nameless file is a violation.
            expected = self.cfg["opt"] == "ns1epb" and all(
                os.path.basename(p).startswith("__init__.") and self.abs(os.path.dirname(p)) in search_roots
                for p in self.unnameable)
            if expected:
                self.stats["cases_skipped_init_file_directly_in_explicit_base"] += 1
                return
            for p in self.unnameable:
                self.violations.append({
                    "signature": f"n|file-gets-no-module-name|{T.local_shape(self.tree, p)}",
                    "what": f"tree {list(self.tree)} [{cfg_name(self.cfg)}]: `mypy {self.rel(p)}` names the file {self.names.get(p)!r}",
                    "detail": {"oracle": "n", "tree": list(self.tree), "config": self.cfg, "args_a": [self.rel(p)], "file": p},
                })
        groups = [""]
        for d in T.dirs_of(self.tree):
            if "/" not in d or self.abs(os.path.dirname(d)) in search_roots:
                groups.append(d)
        for d in groups:
            self.run_group(d, search_roots)
        if self.plan.get("modules"):
            for m in self.all_names:
                r = self.invoke(["-m", m])
                self.note_outcome(r)
                self.check_graph(r, "-m")
        if self.plan.get("singles"):
            for p in self.tree:
                r = self.invoke([self.rel(p)])
                self.note_outcome(r)
                self.check_graph(r, "FILE")
        self.stats["cases"] += 1
        if self.stats["nontrivial_comparisons"]:
            self.stats["cases_nontrivial"] += 1

    def note_outcome(self, r: dict) -> None:
        k = r["kind"] + (":" + r["bkind"] if r["kind"] == "blocker" else "") + (":" + r["usage_class"] if r["kind"] == "usage" else "")
        self.outcomes[k] += 1
        if r["kind"] == "crash":
            self.herr.append(f"mypy crashed: tree={list(self.tree)} cfg={cfg_name(self.cfg)} args={r.get('args')} :: {r['msgs'][-1:]}")

    def source_map(self, args: list[str]) -> dict[str, str] | str:
        """Stage 1 only (the real option processing / create_source_list / find_modules_recursive):
        {file path: module} of the build sources, or a string for a usage error / duplicate names."""
        import mypy.main as mm
        from mypy.fscache import FileSystemCache

        self.stats["source_list_evaluations"] += 1
        se = io.StringIO()
        try:
            sources, _ = mm.process_options(self.flags + args, stdout=io.StringIO(), stderr=se, fscache=FileSystemCache())
        except SystemExit:
            return "usage:" + usage_class(se.getvalue().strip().splitlines()[-1] if se.getvalue().strip() else "")
        out: dict[str, str] = {}
        mods = [s.module for s in sources]
        if len(set(mods)) != len(mods):
            return "duplicate-module-names"
        for s in sources:
            if s.path and not os.path.isdir(s.path):
                out[os.path.abspath(s.path)] = s.module
        return out

    def screened_equal(self, d: str, search_roots: set[str]) -> bool:
        files = T.files_under(self.tree, d)
        ref = self.source_map([self.rel(d)])
        maps = [ref]
        fm = self.source_map([self.rel(p) for p in T.stub_preferred(files, self.tree)])
        if fm != "duplicate-module-names":
            maps.append(fm)
        if d and self.abs(os.path.dirname(d)) in search_roots and self.package_question_differs(d, search_roots) is None:
            maps.append(self.source_map(["-p", os.path.basename(d)]))
        return not isinstance(ref, str) and all(m == ref for m in maps)

    def run_group(self, d: str, search_roots: set[str]) -> None:
        files = T.files_under(self.tree, d)
        if self.plan.get("screen"):
            if self.screened_equal(d, search_roots):
                self.stats["groups_equal_at_source_list_level_not_built"] += 1
                return
            self.stats["groups_differing_at_source_list_level_built"] += 1
        ref = self.invoke([self.rel(d)])
        self.note_outcome(ref)
        self.check_graph(ref, "DIR")
        mode = self.plan.get("orders", "all")
        variants = [("FILES", files)]
        pref = T.stub_preferred(files, self.tree)
        if pref != files and pref:
            variants.append(("FILES(stub-preferred)", pref))
        if d and not self.plan.get("dir_files", True):
            variants = []  # light plan: sub-directories are only compared with -p
        for label, fl in variants:
            for perm in orders(fl, mode):
                r = self.invoke([self.rel(p) for p in perm])
                self.note_outcome(r)
                self.check_graph(r, label)
                self.compare(d, "DIR", ref, label, r)
        if d and self.abs(os.path.dirname(d)) in search_roots:
            name = os.path.basename(d)
            r = self.invoke(["-p", name])
            self.note_outcome(r)
            self.check_graph(r, "-p")
            why = self.package_question_differs(d, search_roots)
            if why is None:
                self.stats["p_comparable"] += 1
                self.compare(d, "DIR", ref, "-p", r)
            else:
                self.stats["p_not_comparable_" + why] += 1

    def has_init(self, d: str) -> bool:
        pre = d + "/" if d else ""
        return (pre + "__init__.py") in self.tree or (pre + "__init__.pyi") in self.tree

    def package_question_differs(self, d: str, search_roots: set[str]) -> str | None:
        """Transcription of the documented rule for when directory D *is* the package basename(D) rooted at its
        parent (docs: 'Mapping file paths to modules'); None = `mypy D` and `mypy -p name` ask the same question.
        D's parent is the cwd or a MYPYPATH entry by construction."""
        name = os.path.basename(d)
        parent = os.path.dirname(d)
        if self.abs(d) in search_roots:
            return "directory_is_itself_a_search_root"
        for s_dir in search_roots:  # the same top-level name offered by another (overlapping) search root
            if s_dir != self.abs(parent):
                for cand in (name, name + ".py", name + ".pyi"):
                    if os.path.exists(os.path.join(s_dir, cand)):
                        return "name_also_offered_by_another_search_root"
        if self.cfg["opt"] == "ns1epb":
            return None  # cwd and MYPYPATH entries are explicit package bases: the crawl stops at D's parent
        if not self.has_init(d):
            return "directory_without_init_is_not_a_package_without_explicit_bases"
        if parent and self.has_init(parent):
            return "parent_directory_is_itself_a_package"
        if self.cfg["opt"] == "ns0":
            for sub in T.dirs_of(self.tree):
                if sub.startswith(d + "/") and not self.has_init(sub):
                    return "subdirectory_without_init_is_not_part_of_the_package_without_namespace_packages"
        return None

    # -- oracle (a) ----------------------------------------------------------------------------

    def compare(self, d: str, la: str, a: dict, lb: str, b: dict) -> None:
        self.stats["comparisons"] += 1
        if a["kind"] == "crash" or b["kind"] == "crash":
            self.stats["comparisons_skipped_crash"] += 1
            return
        if a is b or (a["bid"] == b["bid"] and a["bid"] > 0):
            self.stats["comparisons_same_build"] += 1
            return
        dup = [x for x in (a, b) if x["kind"] == "blocker" and x["bkind"] == "duplicate-module"]
        if dup:
            self.stats["comparisons_exempt_duplicate_module"] += 1
            return
        symptom = None
        shape: list[str] = []
        if a["kind"] == "usage" or b["kind"] == "usage":
            ca = a.get("usage_class") if a["kind"] == "usage" else a["kind"]
            cb = b.get("usage_class") if b["kind"] == "usage" else b["kind"]
            if ca == cb:
                self.stats["comparisons_both_usage_error"] += 1
                return
            symptom = f"{la}:{ca}~{lb}:{cb}"
            shape = T.tree_features(self.tree)
        elif a["kind"] == "blocker" or b["kind"] == "blocker":
            ka = a["bkind"] if a["kind"] == "blocker" else "completes"
            kb = b["bkind"] if b["kind"] == "blocker" else "completes"
            if ka == kb:
                self.stats["comparisons_both_same_blocker"] += 1
                return
            symptom = f"{la}:{ka}~{lb}:{kb}"
            shape = T.tree_features(self.tree)
        else:
            eq, order_only = same_diagnostics(a["msgs"], b["msgs"])
            if order_only:
                self.stats["order_only_differences"] += 1
            reveals = any('Revealed type is "' in ln and ".F" in ln for ln in a["msgs"])
            if eq:
                self.stats["comparisons_equal"] += 1
                if reveals:
                    self.stats["nontrivial_comparisons"] += 1
                    if self.sample is None:
                        self.sample = {"tree": list(self.tree), "config": cfg_name(self.cfg), "target": d or ".",
                                       la: a["args"], lb: b["args"], "sources_" + la: [(self.short(p), m) for p, m, _ in a["sources"]],
                                       "sources_" + lb: [(self.short(p), m) for p, m, _ in b["sources"]],
                                       "diagnostics": a["msgs"][:6]}
                return
            only_a = sorted(a["checked"] - b["checked"])
            only_b = sorted(b["checked"] - a["checked"])
            if only_a or only_b:
                parts = []
                if only_b:
                    parts.append(f"{la}-omits")
                    shape += [T.local_shape(self.tree, p) for p in only_b]
                if only_a:
                    parts.append(f"{lb}-omits")
                    shape += [T.local_shape(self.tree, p) for p in only_a]
                symptom = "+".join(parts)
                shape = sorted(set(shape))
                for dominant in ("module-beside-initless-dir", "module-beside-package-dir"):
                    if any(dominant in x for x in shape):
                        shape = [dominant]
                        break
            else:
                symptom = f"{la}~{lb}:same-files-different-diagnostics"
                shape = T.tree_features(self.tree)
        sig = f"a|{symptom}|{','.join(shape) or 'plain'}"
        if a["kind"] != "usage" and b["kind"] != "usage":
            # cause-level grouping: a file that one command takes as a source / checks and the other leaves out
            fa = {self.short(p) for p, _m, _b in a["sources"] if p} | set(a["checked"])
            fb = {self.short(p) for p, _m, _b in b["sources"] if p} | set(b["checked"])
            left_out = [f for f in fa ^ fb if f in self.tree]
            for dominant in ("module-beside-initless-dir", "module-beside-package-dir"):
                if any(dominant in T.local_shape(self.tree, f) for f in left_out):
                    sig = f"a|file-left-out|{dominant}"
                    break
        self.violations.append({
            "signature": sig,
            "what": f"tree {list(self.tree)} [{cfg_name(self.cfg)}] target {d or '.'}: `mypy {' '.join(a['args'])}` -> "
                    f"{self.brief(a)} but `mypy {' '.join(b['args'])}` -> {self.brief(b)}",
            "detail": {"oracle": "a", "tree": list(self.tree), "config": self.cfg, "target": d,
                       "label_a": la, "label_b": lb, "args_a": a["args"], "args_b": b["args"], "out_a": a["msgs"], "out_b": b["msgs"],
                       "kind_a": a["kind"], "kind_b": b["kind"]},
        })

    def brief(self, r: dict) -> str:
        if r["kind"] == "ok":
            return f"checks {sorted(r['checked'])}, {len(r['msgs'])} lines"
        if r["kind"] == "blocker":
            return f"blocker {r['bkind']}"
        return f"{r['kind']} {r['msgs'][-1:]}"

    def short(self, p: str | None) -> str | None:
        if p is None:
            return None
        return os.path.relpath(p, self.root) if p.startswith(self.root) else p

    # -- oracle (b) ----------------------------------------------------------------------------

    def claimants(self, m: str, search: set[str], own_bases: set, allowed: set[str]) -> set[str]:
        """Other files of the tree (through any searched root) and directories of the tree (through a root other
        than the file's own base directory) whose path spells the dotted name m relative to that root."""
        out = set()
        for s_dir in search:
            for p in self.tree:
                fp = self.abs(p)
                if fp not in allowed and dotted(fp, s_dir) == m:
                    out.add(fp)
            if s_dir not in own_bases:
                for d in T.dirs_of(self.tree):
                    if dotted(self.abs(d), s_dir) == m:
                        out.add(self.abs(d))
        return out

    def check_graph(self, r: dict, label: str) -> None:
        g = r.get("graph")
        if g is None or r.get("graph_checked"):
            return
        r["graph_checked"] = True
        src_paths = {p for p, _m, _b in r["sources"]}
        # directories this build searches for user modules: cwd, the base directories of its sources, MYPYPATH
        search = {self.cwd} | {b for _p, _m, b in r["sources"] if b}
        if self.sub_rel is not None:
            search.add(self.abs(self.sub_rel))
        for m, ps in self.unambiguous.items():
            if m not in g or g[m] is None:
                continue
            if not all(self.bases.get(q) in search for q in ps):
                # the name was assigned relative to a base directory this build does not search
                self.stats["graph_checks_skipped_base_dir_not_searched"] += 1
                continue
            self.stats["graph_checks"] += 1
            got = g[m]
            allowed = set()
            for q in ps:
                allowed |= {os.path.join(self.root, x) for x in T.sibling_stub_set(self.tree, q)}
            if got not in src_paths:
                self.stats["graph_checks_of_modules_found_by_import"] += 1
            if got in allowed:
                continue
            if got in self.claimants(m, search, {self.bases[q] for q in ps}, allowed):
                # overlapping search roots: the path mypy picked carries the name m relative to another root
                self.stats["graph_checks_name_also_provided_through_another_root"] += 1
                continue
            gk = self.short(got)
            if os.path.isdir(got):
                has_init = any(os.path.isfile(os.path.join(got, "__init__" + e)) for e in (".py", ".pyi"))
                res_kind = "package-dir" if has_init else "initless-dir"
            elif gk in self.tree:
                res_kind = "other-file:" + T.local_shape(self.tree, gk)
            else:
                res_kind = "outside-tree"
            sig = f"b|{'+'.join(sorted({T.local_shape(self.tree, q).split('/')[0] for q in ps}))}|resolved-to:{res_kind}"
            self.violations.append({
                "signature": sig,
                "what": f"tree {list(self.tree)} [{cfg_name(self.cfg)}]: mypy names {ps} module {m!r}, but in `mypy {' '.join(r['args'])}` "
                        f"graph[{m!r}].path is {gk!r}",
                "detail": {"oracle": "b", "tree": list(self.tree), "config": self.cfg, "args_a": r["args"],
                           "module": m, "files": ps, "graph_path": gk},
            })


def dotted(path: str, root_dir: str) -> str | None:
    """Path arithmetic only: the dotted name of a file/directory relative to a search root."""
    if not path.startswith(root_dir + os.sep):
        return None
    relp = path[len(root_dir) + 1:]
    for ext in (".pyi", ".py"):
        if relp.endswith(ext):
            relp = relp[: -len(ext)]
            break
    parts = relp.split(os.sep)
    if parts[-1] == "__init__":
        parts = parts[:-1]
    return ".".join(parts) if parts else None


def file_text(k: int, stub: bool, imports: list[str]) -> str:
    lines = [f"class F{k}: ...", f"ID: F{k}", "ERR: int = ''"]
    for i, m in enumerate(imports):
        lines.append(f"from {m} import ID as m{i}")
        lines.append(f"reveal_type(m{i})")
    return "\n".join(lines) + "\n"


def blocker_kind(msgs: list[str]) -> str:
    text = "\n".join(msgs)
    if "Duplicate module named" in text:
        return "duplicate-module"
    if "Source file found twice under different module names" in text:
        return "found-twice"
    if "Cannot find module" in text or "Can't find package" in text:
        return "cannot-find-module"
    if "is not a valid Python package name" in text:
        return "invalid-package-name"
    return "other:" + re.sub(r'"[^"]*"', '"_"', msgs[0] if msgs else "")[:80]


def usage_class(msg: str) -> str:
    if "There are no .py[i] files in directory" in msg:
        return "no-files-in-directory"
    if "Can't find package" in msg:
        return "cannot-find-package"
    if "is not a valid Python package name" in msg:
        return "invalid-package-name"
    return "usage:" + re.sub(r"'[^']*'", "'_'", msg)[:80]


# ----------------------------------------------------------------------------- batches (child side)


def _patch_fixtures() -> None:
    from mypy.options import Options

    if getattr(Options, "_c18_patched", False):
        return
    orig = Options.__init__

    def patched(self: Any, *a: Any, **k: Any) -> None:
        orig(self, *a, **k)
        self.use_builtins_fixtures = True

    Options.__init__ = patched  # type: ignore[method-assign]
    Options._c18_patched = True  # type: ignore[attr-defined]


def explore_batch(job: dict) -> dict:
    """Runs in a freshly forked child: every (tree, config) of the batch, sequentially.  Each
    `build.build` call resets mypy's global state itself (instance_cache, known modules,
    reset_global_state), exactly as the first and only build of a real process would see it."""
    _patch_fixtures()
    work = scratch("c18", f"w{job['id']}")
    root = os.path.join(work, "r")
    stats: Counter = Counter()
    outcomes: Counter = Counter()
    violations: list[dict] = []
    herr: list[str] = []
    samples: list[dict] = []
    t0 = time.time()
    for tree in job["trees"]:
        tree = tuple(tree)
        for cfg in job["configs"]:
            case = Case(root, tree, cfg, job["plan"])
            case.run()
            stats.update(case.stats)
            outcomes.update(case.outcomes)
            violations.extend(case.violations)
            herr.extend(case.herr)
            if case.sample is not None and len(samples) < 2:
                samples.append(case.sample)
    os.chdir("/")
    shutil.rmtree(work, ignore_errors=True)
    return {"stats": dict(stats), "outcomes": dict(outcomes), "violations": violations, "herr": herr[:20],
            "samples": samples, "cpu_s": round(time.time() - t0, 2)}


# ----------------------------------------------------------------------------- layers


EVERYTHING = {"orders": "all", "modules": True, "singles": True}
LIGHT = {"orders": "one", "modules": False, "singles": False, "dir_files": False}
SCREENED = {"orders": "one", "modules": False, "singles": False, "dir_files": False, "screen": True}
EPB_CORE = [c for c in CORE_CONFIGS if c["opt"] == "ns1epb"]
EPB_EXTRA = [c for c in EXTRA_CONFIGS if c["opt"] == "ns1epb"]


def layers_for(ctx: Ctx) -> list[dict]:
    """The stated finite space, as a list of layers; each layer is enumerated completely.
    (Sizes were chosen from measured costs: ~25 ms CPU per build; quick ~50 k builds, thorough ~500 k.)"""
    if ctx.quick:
        return [
            {"name": "Q1: <=2 files, depth<=2, full 12-configuration grid; DIR, FILES in every order, -p, -m, single files",
             "depth": 2, "sizes": [1, 2], "configs": all_configs(), "plan": EVERYTHING},
            {"name": "Q2: 3 files, depth<=1, cwd=root/MYPYPATH unset x 3 option sets; DIR, FILES in every order, -p, -m, single files",
             "depth": 1, "sizes": [3], "configs": CORE_CONFIGS, "plan": EVERYTHING},
            {"name": "Q3 (screened): 3 files, depth<=2, explicit_package_bases, cwd=root/MYPYPATH unset; the source lists (file -> module) "
                     "of DIR, FILES, -p are compared for every tree; builds are run only for targets whose source lists differ",
             "depth": 2, "sizes": [3], "configs": EPB_CORE, "plan": SCREENED},
        ]
    return [
        {"name": "T1: <=2 files, depth<=2, full 12-configuration grid; DIR, FILES in every order, -p, -m, single files",
         "depth": 2, "sizes": [1, 2], "configs": all_configs(), "plan": EVERYTHING},
        {"name": "T2: 3 files, depth<=2, cwd=root/MYPYPATH unset x 3 option sets; DIR, FILES in every order, -p",
         "depth": 2, "sizes": [3], "configs": CORE_CONFIGS, "plan": {"orders": "all", "modules": False, "singles": False}},
        {"name": "T3: 3 files, depth<=2, explicit_package_bases with MYPYPATH=[sub] and/or cwd inside; DIR, FILES sorted+reversed, -p",
         "depth": 2, "sizes": [3], "configs": EPB_EXTRA, "plan": {"orders": "rev", "modules": False, "singles": False}},
        {"name": "T4: 4 files, depth<=1, cwd=root/MYPYPATH unset x 3 option sets; DIR, FILES in 8 rotations, -p",
         "depth": 1, "sizes": [4], "configs": CORE_CONFIGS, "plan": {"orders": "rot", "modules": False, "singles": False}},
        {"name": "T5: <=2 files, depth exactly 3, cwd=root/MYPYPATH unset x 3 option sets; everything",
         "depth": 3, "min_depth": 3, "sizes": [1, 2], "configs": CORE_CONFIGS, "plan": EVERYTHING},
        {"name": "T6 (screened): 4 files, depth<=2, cwd=root/MYPYPATH unset, explicit_package_bases and namespace_packages off; source "
                 "lists of DIR, FILES, -p compared for every tree; builds (DIR, FILES reversed, -p) only for targets whose source lists differ",
         "depth": 2, "sizes": [4], "configs": [c for c in CORE_CONFIGS if c["opt"] != "ns1"], "plan": SCREENED},
    ]


def run(ctx: Ctx, layers: list[dict] | None = None, batch: int | None = None, stride: int = 1) -> Result:
    """`layers`, `batch`, `stride` are for development drivers only (a sub-space / every stride-th tree);
    the runner always calls run(ctx)."""
    layers = layers if layers is not None else layers_for(ctx)
    jobs: list[dict] = []
    layer_info = []
    for li, layer in enumerate(layers):
        trees: list[T.Tree] = []
        total_with_mirrors = 0
        for n in layer["sizes"]:
            ts = T.canonical_trees(layer["depth"], n)
            if layer.get("min_depth"):
                ts = [t for t in ts if T.tree_depth(t) >= layer["min_depth"]]
                total_with_mirrors += sum(1 for t in T.dir_contents(layer["depth"], n) if T.tree_depth(t) >= layer["min_depth"])
            else:
                total_with_mirrors += T.count_all(layer["depth"], n)
            trees.extend(ts[::stride])
        per = batch or max(2, min(60, 2400 // max(1, len(layer["configs"]) * (6 if layer["plan"]["orders"] == "all" else 3)),
                                  -(-len(trees) // 96)))
        for ch in chunked(trees, per):
            jobs.append({"id": len(jobs), "layer": li, "trees": [list(t) for t in ch], "configs": layer["configs"],
                         "plan": layer["plan"]})
        layer_info.append({"layer": layer["name"], "trees_canonical": len(trees), "trees_with_mirror_images": total_with_mirrors,
                           "configs": len(layer["configs"]), "orders": layer["plan"]["orders"]})
    scratch("c18")  # create the scratch root in THIS process: forked children inherit it and our atexit removes it
    order = seeded_order(list(range(len(jobs))), ctx.seed)
    jobs_run = [jobs[i] for i in order]
    tot: Counter = Counter()
    outcomes: Counter = Counter()
    per_layer: list[Counter] = [Counter() for _ in layers]
    raw_viol: list[dict] = []
    herr: list[str] = []
    samples: list[dict] = []
    cpu = 0.0
    done = 0
    for _i, job, st, val in pmap(explore_batch, jobs_run, fresh=True, timeout=3600):
        done += 1
        if st != "ok":
            herr.append(f"batch {job['id']} (layer {job['layer']}) failed: {str(val)[:400]}")
            per_layer[job["layer"]]["failed_batches"] += 1
            continue
        tot.update(val["stats"])
        per_layer[job["layer"]].update(val["stats"])
        outcomes.update(val["outcomes"])
        raw_viol.extend(val["violations"])
        herr.extend(val["herr"])
        cpu += val["cpu_s"]
        if val["samples"]:
            samples.append((job["id"], val["samples"][0]))  # type: ignore[arg-type]
        if done % 50 == 0:
            log(f"C18 {done}/{len(jobs_run)} batches, {tot['builds']} builds, {ctx.elapsed():.0f}s")
    # deterministic, simplest-first order of violations
    raw_viol.sort(key=lambda v: (len(v["detail"]["tree"]), T.tree_depth(tuple(v["detail"]["tree"])),
                                 v["detail"]["config"]["inside"], v["detail"]["config"]["mp"], v["detail"]["tree"],
                                 v["detail"]["config"]["opt"], v["signature"], v["detail"].get("args_a"), v["detail"].get("args_b", [])))
    violations = [Violation(v["signature"], v["what"], v["detail"]) for v in raw_viol]
    samples.sort(key=lambda s: s[0])  # type: ignore[index]
    for li, c in enumerate(per_layer):
        layer_info[li].update({"cases": c["cases"], "builds": c["builds"], "invocations": c["invocations"],
                               "comparisons": c["comparisons"], "nontrivial_cases": c["cases_nontrivial"],
                               "complete": c["failed_batches"] == 0})
    vac = []
    if tot["nontrivial_comparisons"] < 2:
        vac.append("no comparison between two different builds showed a resolved import")
    if tot["p_comparable"] == 0:
        vac.append("no -p invocation was comparable")
    if tot["graph_checks_of_modules_found_by_import"] == 0:
        vac.append("oracle (b) never saw a module located by the finder")
    if len(outcomes) < 3:
        vac.append("fewer than 3 distinct outcome kinds")
    if vac:
        raise RuntimeError("vacuous exploration: " + "; ".join(vac))
    sig_counts = Counter(v.signature for v in violations)
    cov = {
        "evaluations": tot["invocations"],
        "builds": tot["builds"],
        "distinct_nontrivial": tot["cases_nontrivial"],
        "rule": "case = (tree, configuration); non-trivial iff two invocations with different BuildSource lists (two separate "
                "build.build runs) both completed with identical diagnostics that include at least one import resolved to a "
                "file of the tree (a 'Revealed type is \"<module>.F<k>\"' line)",
        "cases": tot["cases"],
        "exhaustive": stride == 1 and all(li["complete"] for li in layer_info),
        "layers": layer_info,
        "bounds": "names {a,b}; node kinds X.py, X.pyi, dir with any subset of {__init__.py, __init__.pyi}; a<->b mirror images once; "
                  "options {ns off, ns on, ns on + explicit_package_bases}; MYPYPATH {unset, last top-level dir}; "
                  "cwd {root, first top-level dir}",
        "comparisons": tot["comparisons"],
        "comparison_breakdown": {k: v for k, v in sorted(tot.items()) if k.startswith(("comparisons_", "p_", "nontrivial", "order_only"))},
        "screening": {k: v for k, v in sorted(tot.items()) if k.startswith(("groups_", "source_list_"))},
        "scope_exclusions": {k: v for k, v in sorted(tot.items()) if k.startswith(("cases_skipped", "graph_checks_skipped", "graph_checks_name", "files_mypy"))},
        "graph_checks": tot["graph_checks"],
        "graph_checks_of_modules_found_by_import": tot["graph_checks_of_modules_found_by_import"],
        "builds_shared_identical_sources": tot["builds_shared_identical_sources"],
        "configs_not_applicable": tot["config_not_applicable"],
        "outcome_kinds": dict(sorted(outcomes.items())),
        "violating_observations": len(violations),
        "violations_by_signature": dict(sorted(sig_counts.items())),
        "child_cpu_s": round(cpu, 1),
        "samples": [s[1] for s in samples[:4]],  # type: ignore[index]
    }
    return Result(PROPERTY, LEVEL, cov, violations, assumptions=[
        "fixture stubs (test-data/unit/lib-stub) on both sides of every comparison; incremental off, cache_dir=os.devnull",
        "an invocation whose BuildSource list (path, module, base_dir) equals one already built for the same tree and "
        "configuration re-uses that build's result (mypy's output is a function of its inputs; determinism is C10's subject)",
        "several builds run sequentially in one freshly forked child; build.build resets mypy's global state itself",
        "-p PKG is compared with `mypy DIR` only where the documented rule makes DIR the package PKG rooted at a searched "
        "directory (explicit bases: always; otherwise DIR has __init__, its parent has none, and without namespace packages "
        "every sub-directory has __init__) and no other search root offers the same top-level name",
        "invocations that stop with the duplicate-module blocker are exempt (the property's own exception)",
        "the once-per-run note 'See https://mypy.readthedocs.io/...#missing-imports' is dropped before comparing (mypy attaches it to "
        "whichever missing-import error it reports first)",
        "screened layers compare the BuildSource lists (file -> module) of every tree and run builds only where they differ; "
        "for the other targets of those layers only the source-list level is claimed",
        "oracle (b) is evaluated only for names whose base directory the build searches and that no other file/directory "
        "provides through another (overlapping) search root",
    ], harness_errors=herr)


# ----------------------------------------------------------------------------- replay / CLI confirmation


def _replay_child(d: dict) -> dict:
    _patch_fixtures()
    work = scratch("c18-replay")
    case = Case(os.path.join(work, "r"), tuple(d["tree"]), d["config"], {"orders": "all"})
    case.prepare()
    out: dict[str, Any] = {"names": case.names}
    if d["oracle"] == "n":
        if case.names.get(d["file"], "__main__") == "__main__":
            case.violations.append({"signature": f"n|file-gets-no-module-name|{T.local_shape(case.tree, d['file'])}",
                                    "what": f"`mypy {case.rel(d['file'])}` names the file {case.names.get(d['file'])!r}", "detail": d})
    else:
        a = case.invoke(d["args_a"])
        out["a"] = {k: a[k] for k in ("kind", "msgs", "args")}
        if d["oracle"] == "a":
            b = case.invoke(d["args_b"])
            out["b"] = {k: b[k] for k in ("kind", "msgs", "args")}
            case.compare(d["target"], d.get("label_a", "A"), a, d.get("label_b", "B"), b)
        else:
            case.check_graph(a, "replay")
    out["violations"] = case.violations
    # the same two commands through the real CLI (real typeshed, separate processes)
    from mc.drivers import cli_subprocess

    env = {"MYPYPATH": case.rel(case.sub_rel)} if case.sub_rel is not None else {"MYPYPATH": ""}
    cache = os.path.join(work, "cache")
    cli = []
    for args in [d["args_a"]] + ([d["args_b"]] if d["oracle"] == "a" else []):
        flags = ["--cache-dir", cache, "--no-site-packages", "--no-error-summary", "--config-file="] + OPTS[d["config"]["opt"]]
        r = cli_subprocess(flags + args, case.cwd, env=env)
        cli.append({"args": args, "status": r["status"], "stdout": r["stdout"].splitlines(), "stderr": r["stderr"].splitlines()[-3:]})
    out["cli"] = cli
    os.chdir("/")
    shutil.rmtree(work, ignore_errors=True)
    return out


def replay(ctx: Ctx, rec: dict) -> Result:
    from mc.kernel import run_isolated

    d = rec["detail"]
    scratch("c18-replay")
    out = run_isolated(_replay_child, d, timeout=600)
    print(f"tree={d['tree']} config={cfg_name(d['config'])} module_of={out['names']}")
    for side in ("a", "b"):
        if side in out:
            print(f"in-process `mypy {' '.join(out[side]['args'])}` -> {out[side]['kind']}")
            for ln in out[side]["msgs"]:
                print("    " + ln)
    for c in out["cli"]:
        print(f"real CLI  `python -m mypy ... {' '.join(c['args'])}` -> exit {c['status']}")
        for ln in c["stdout"] + c["stderr"]:
            print("    " + ln)
    viol = [Violation(v["signature"], v["what"], v["detail"]) for v in out["violations"]]
    return Result(PROPERTY, LEVEL, {}, viol)
