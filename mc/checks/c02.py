"""C02 — warm run == cold run, for every edit history (S1: BFS of the (F, K) graph to closure).

See DESIGN.md section 4 / C02.  The deciding step is exhaustive enumeration: every reachable
(source tree, cache directory) state of each closed universe under the preserving clock, every
alphabet edit from every state, real `mypy.build.build` for every transition, oracle = an
independent cold run on the same files.
"""

from __future__ import annotations

import os
import shutil
import time
from collections import Counter
from typing import Any

from mc import universes
from mc.common import Ctx, Result, Violation, log, same_diagnostics, scratch, seeded_order
from mc.kernel import bfs, pmap
from mc.s1 import Instance

PROPERTY = "C02"
LEVEL = "model_checking"

CONFIGS = [("fs", "ff"), ("sqlite", "ff"), ("fs", "json"), ("sqlite", "json")]


def diff_signature(uname: str, warm: dict, cold: dict) -> str:
    cw, cc = Counter(warm["messages"]), Counter(cold["messages"])
    extra = sorted((cw - cc).elements())
    missing = sorted((cc - cw).elements())
    parts = [f"+{x}" for x in extra[:3]] + [f"-{x}" for x in missing[:3]]
    if warm.get("blocker") != cold.get("blocker"):
        parts.append(f"blocker:{warm.get('blocker')}!={cold.get('blocker')}")
    if warm.get("crashed") and not cold.get("crashed"):
        parts = ["warm-crash:" + str(warm["crashed"]).strip().splitlines()[-1][:120]]
    if not parts:
        parts = ["order"]
    return f"{uname}|" + "|".join(parts)


def explore_instance(job: dict) -> dict:
    u = universes.ALL[job["universe"]]
    work = scratch("c02", f"{job['universe']}-{job['store']}-{job['fmt']}-{job['clock']}")
    inst = Instance(u, job["store"], job["fmt"], work, clock=job["clock"], overrides=job.get("overrides"))
    stats = Counter()
    outcomes: set = set()
    violations: list[dict] = []
    samples: list[Any] = []
    herr: list[str] = []
    F0 = inst.initial_F()

    def successors(state: tuple, hist: tuple):
        F, kh = state
        cand = [("rerun", F)] + inst.edits(F, len(hist))
        for label, nF in cand:
            inst.restore(kh)
            inst.materialize(nF)
            warm = inst.warm(nF)
            nkh = inst.snapshot()
            cold = inst.cold(nF)
            stats["transitions"] += 1
            if warm.get("exec_error") == "timeout" or cold.get("exec_error") == "timeout":
                herr.append(f"timeout {u.name} {hist + (label,)}")
                continue
            if cold.get("crashed"):
                # the cold oracle itself failed: nothing to compare against (counted, reported)
                stats["cold_crashed"] += 1
                herr.append(f"cold run crashed {u.name} {hist + (label,)}: {str(cold['crashed'])[-300:]}")
                continue
            eq, order_only = same_diagnostics(warm["messages"], cold["messages"])
            if order_only:
                stats["order_only_differences"] += 1
            ok = eq and warm["blocker"] == cold["blocker"] and not warm.get("crashed")
            outcomes.add(tuple(cold["messages"]))
            um = inst.user_modules(nF)
            rech = set(warm["rechecked"] or [])
            reused = warm["rechecked"] is not None and bool(um - rech) and kh != "EMPTY"
            if reused:
                stats["fresh_reuse_transitions"] += 1
                if rech & um:
                    stats["partial_recheck_transitions"] += 1
            if len(samples) < 3 and reused and label != "rerun":
                samples.append({"universe": u.name, "history": list(hist + (label,)), "rechecked": sorted(rech & um),
                                "reused": sorted(um - rech), "output": warm["messages"][:4]})
            if not ok:
                violations.append({
                    "signature": diff_signature(u.name.split("-")[0], warm, cold),
                    "what": f"{u.name} [{job['store']}/{job['fmt']}/{job['clock']}] after {list(hist + (label,))}: "
                            f"warm={warm['messages'][:3]} cold={cold['messages'][:3]}",
                    "detail": {"job": job, "history": list(hist + (label,)), "warm": warm["messages"],
                               "cold": cold["messages"], "warm_blocker": warm["blocker"],
                               "cold_blocker": cold["blocker"], "warm_crashed": warm.get("crashed"),
                               "reused_cache": reused},
                })
            yield label, (nF, nkh)

    r = bfs((F0, "EMPTY"), lambda s: s, successors, max_states=job["max_states"],
            max_depth=job.get("max_depth"), deadline=job.get("deadline"))
    fkeys = {inst.F_key(s[0]) for s in r.states}
    out = {
        "job": job, "states": len(r.states), "transitions": stats["transitions"], "closed": r.closed,
        "cap": r.cap_hit, "max_depth": r.max_depth, "distinct_F": len(fkeys),
        "cache_history_dependent_states": len(r.states) - len({s[0] for s in r.states}),
        "distinct_outcomes": len(outcomes), "stats": dict(stats), "violations": violations,
        "samples": samples, "harness_errors": herr, "builds": inst.n_builds,
    }
    shutil.rmtree(work, ignore_errors=True)
    return out


def jobs_for(ctx: Ctx) -> list[dict]:
    names = ["U1", "U2", "U3", "U4", "U4b", "U5", "U6", "U7", "U8", "U10", "U11", "U12", "U13", "U14", "U15", "U16", "U17"]
    jobs = []
    budget = 1200 if ctx.quick else 3000  # safety net only; bounds are the state caps
    deadline = time.time() + budget
    for n in names:
        for store, fmt in CONFIGS:
            jobs.append({"universe": n, "store": store, "fmt": fmt, "clock": "preserving",
                         "max_states": 1500 if ctx.quick else 20000, "deadline": deadline})
    # monotone clock (no convergence by construction): bounded depth
    mono_depth = 2 if ctx.quick else 4
    for n in names:
        cfgs = [CONFIGS[0]] if ctx.quick else CONFIGS
        for store, fmt in cfgs:
            jobs.append({"universe": n, "store": store, "fmt": fmt, "clock": "monotone",
                         "max_states": 1500 if ctx.quick else 20000, "max_depth": mono_depth + 1,
                         "deadline": deadline})
    if ctx.thorough:
        for n in names:
            jobs.append({"universe": n, "store": "fs", "fmt": "ff", "clock": "preserving",
                         "max_states": 20000, "deadline": deadline, "overrides": {"native_parser": True}})
    jobs = seeded_order(jobs, ctx.seed)
    big = {"U2": 0, "U4": 1, "U1": 2, "U8": 3}
    jobs.sort(key=lambda j: (j["clock"] != "preserving", big.get(j["universe"], 9)))  # long instances first
    return jobs


def run(ctx: Ctx, only: list[str] | None = None) -> Result:
    jobs = jobs_for(ctx)
    if only:
        jobs = [j for j in jobs if j["universe"] in only]
    tot = Counter()
    violations: list[Violation] = []
    samples: list[Any] = []
    herr: list[str] = []
    per_instance = []
    # biggest universes first so the pool stays busy
    for _i, job, st, val in pmap(explore_instance, jobs, fresh=False, timeout=3600):
        if st != "ok":
            herr.append(f"instance {job} failed: {val}")
            continue
        tot["states"] += val["states"]
        tot["transitions"] += val["transitions"]
        tot["builds"] += val["builds"]
        tot["closed_instances"] += 1 if val["closed"] else 0
        tot["instances"] += 1
        for k, v in val["stats"].items():
            tot[k] += v
        tot["cache_history_dependent_states"] += val["cache_history_dependent_states"]
        per_instance.append({"instance": f"{job['universe']}/{job['store']}/{job['fmt']}/{job['clock']}"
                                         + ("/native" if job.get("overrides") else ""),
                             "states": val["states"], "transitions": val["transitions"], "closed": val["closed"],
                             "cap": val["cap"], "distinct_F": val["distinct_F"], "max_depth": val["max_depth"],
                             "distinct_outcomes": val["distinct_outcomes"],
                             "fresh_reuse": val["stats"].get("fresh_reuse_transitions", 0),
                             "violating_transitions": len(val["violations"])})
        for v in val["violations"]:
            violations.append(Violation(v["signature"], v["what"], v["detail"]))
        samples.extend(val["samples"][:1])
        herr.extend(val["harness_errors"])
    per_instance.sort(key=lambda d: d["instance"])
    # vacuity gate (DESIGN 3.4): refuse to claim anything if the exploration never exercised reuse
    vac = []
    if tot["fresh_reuse_transitions"] == 0:
        vac.append("no transition re-used a cache entry")
    if tot["partial_recheck_transitions"] == 0:
        vac.append("no transition re-checked only part of the program")
    if max((p["distinct_outcomes"] for p in per_instance), default=0) < 3:
        vac.append("fewer than 3 distinct outputs")
    if vac:
        raise RuntimeError("vacuous exploration: " + "; ".join(vac))
    all_closed = all(p["closed"] for p in per_instance if "/preserving" in p["instance"])
    cov = {
        "states": tot["states"], "transitions": tot["transitions"],
        "traces_validated_against_impl": tot["transitions"],
        "explanation_traces": "there is no separate model: every transition IS an execution of the real "
                              "mypy.build.build on real files and a real cache directory",
        "evaluations": tot["builds"], "distinct_nontrivial": tot["fresh_reuse_transitions"],
        "rule": "transition = (state, edit) executed on the real build; non-trivial iff the warm run re-used "
                "at least one user-module cache entry (rechecked_modules does not contain all user modules)",
        "instances": per_instance, "instances_closed": tot["closed_instances"], "instances_total": tot["instances"],
        "exhaustive": bool(all_closed), "order_only_differences": tot["order_only_differences"],
        "fresh_reuse_transitions": tot["fresh_reuse_transitions"],
        "partial_recheck_transitions": tot["partial_recheck_transitions"],
        "cache_history_dependent_states": tot["cache_history_dependent_states"],
        "violating_transitions": len(violations), "samples": samples[:5],
        "bounds": "preserving clock: BFS to closure (state cap / deadline reported per instance); "
                  "monotone clock: all histories to the depth reported per instance",
    }
    return Result(PROPERTY, LEVEL, cov, violations, assumptions=[
        "fixture stubs (test-data/unit/lib-stub) on both sides of every comparison",
        "source mtimes and cache-record mtimes are owned by the harness (os.utime / store API mtime=)",
        "edits within one second that keep the file size are out of scope (documented mypy limitation)",
    ], harness_errors=herr)


def replay(ctx: Ctx, rec: dict) -> Result:
    d = rec["detail"]
    job = dict(d["job"])
    job.pop("deadline", None)
    u = universes.ALL[job["universe"]]
    work = scratch("c02-replay")
    inst = Instance(u, job["store"], job["fmt"], work, clock=job["clock"], overrides=job.get("overrides"))
    F = inst.initial_F()
    kh = "EMPTY"
    viol: list[Violation] = []
    for depth, label in enumerate(d["history"]):
        cand = dict([("rerun", F)] + inst.edits(F, depth))
        nF = cand[label]
        inst.restore(kh)
        inst.materialize(nF)
        warm = inst.warm(nF)
        kh = inst.snapshot()
        cold = inst.cold(nF)
        eq, _ = same_diagnostics(warm["messages"], cold["messages"])
        print(f"step {depth} {label}: warm={warm['messages']} cold={cold['messages']} rechecked={warm['rechecked']}")
        if not (eq and warm["blocker"] == cold["blocker"] and not warm.get("crashed")):
            viol.append(Violation(diff_signature(job["universe"], warm, cold), f"after {d['history'][:depth+1]}", {}))
        F = nF
    return Result(PROPERTY, LEVEL, {}, viol)
