"""C03 — the daemon's fine-grained update equals a full check after every edit.

S2: the whole tree of edit histories up to a depth bound, on the real `mypy.dmypy_server.Server`
(check / cmd_recheck), explored by fork-cloning the live daemon at every node (each node runs
exactly once; the parent's memory is untouched by its children and it restores the one file a
child changed, content and mtime).  Every *checked* node's response is compared with a
non-incremental `mypy.build.build` of that node's files.

Alphabet per step: set one file to one variant (incl. delete / create), either followed by a check or
NOT (so that the next check sees several files changed at once).  Histories start from EVERY
file state at distance <= 1 from the universe's default state (the daemon's initial check fixes its
dependency map, so the initial state matters — "start from non-initial states too").
Modes: follow_imports=error with all files passed (the suite's default), follow_imports=normal
with only the root passed, and start from a fine-grained cache written by a batch build.
"""

from __future__ import annotations

import itertools
import json
import os
import shutil
from collections import Counter
from typing import Any

from mc import drivers, universes
from mc.common import Ctx, Result, Violation, same_diagnostics, scratch, seeded_order
from mc.drivers import BASE_TIME
from mc.kernel import ExecError, pmap, run_isolated

PROPERTY = "C03"
LEVEL = "model_checking"

MODES = ["error-all", "normal-root", "cache-start"]

# ---------------------------------------------------------------------------------------------
# daemon-specific universes (besides mc.universes)

U2D = universes.Universe(  # U2 + a second user of c.C.attr, so triggers already have a dependent
    name="U2D-indirect2",
    files={
        "tmp/a.py": ["import b, u\nx: int = b.f().attr\n"],
        "tmp/b.py": [
            "import c\nclass L:\n    attr: int = 0\ndef f() -> L:\n    return L()\n",
            "import c\nclass L:\n    attr: int = 0\ndef f() -> c.C:\n    return c.C()\n",
        ],
        "tmp/c.py": ["class C:\n    attr: int = 0\n", "class C:\n    attr: str = ''\n"],
        "tmp/u.py": ["import c\ndef g() -> int:\n    return c.C().attr\n"],
    },
    sources=[[("tmp/a.py", "a")]],
)
UCH = universes.Universe(  # chain reached only through imports: several files edited between two checks
    name="UCH-chain",
    files={
        "tmp/r.py": ["import a\nx: int = a.fa()\n"],
        "tmp/a.py": ["import b\ndef fa() -> int:\n    return b.fb()\n", "import b\ndef fa() -> int:\n    return b.fb() + 0\n"],
        "tmp/b.py": ["import c\ndef fb() -> int:\n    return c.fc()\n", "import c\ndef fb() -> int:\n    return c.fc() + 0\n"],
        "tmp/c.py": ["def fc() -> int:\n    return 1\n", "def fc() -> str:\n    return ''\n"],
    },
    sources=[[("tmp/r.py", "r")]],
)
_G = ("from typing_extensions import TypeGuard, TypeIs\nclass A:\n    a: int = 0\nclass B:\n    b: int = 0\n"
      "def is_a(x: object) -> {ret}:\n    return True\n")
_APP = ("from typing import Union\nfrom guards import A, B, is_a\ndef describe(x: Union[A, B]) -> int:\n"
        "    if is_a(x):\n        return x.a\n    else:\n        return x.b\n")
UTG = universes.Universe(  # a callee's signature changes only in the KIND of its return annotation (TypeIs / TypeGuard /
    # bool): callers in another module narrow differently, in both branches
    name="UTG-typeguard",
    files={
        "tmp/guards.py": [_G.format(ret="TypeIs[A]"), _G.format(ret="TypeGuard[A]"), _G.format(ret="bool")],
        "tmp/app.py": [_APP, _APP + "# touched\n"],
    },
    sources=[[("tmp/app.py", "app")]],
    fixture="tuple.pyi",
)
UPR = universes.Universe(  # protocol conformance across modules: the multi-line "Expected:/Got:" notes are re-produced
    # from merged ASTs after an update
    name="UPR-protocol",
    files={
        "tmp/proto.py": ["from typing import Protocol\nclass P(Protocol):\n    def size(self) -> int: ...\n",
                         "from typing import Protocol\nclass P(Protocol):\n    def size(self) -> str: ...\n",
                         "from typing import Protocol\nclass P(Protocol):\n    def size(self, n: int = 0) -> int: ...\n"],
        "tmp/impl.py": ["class C:\n    def size(self) -> int:\n        return 0\n",
                        "class C:\n    def size(self) -> str:\n        return ''\n"],
        "tmp/use.py": ["from proto import P\nfrom impl import C\ndef take(p: P) -> None: ...\ntake(C())\n"
                       "def inner() -> None:\n    take(C())\n"],
    },
    sources=[[("tmp/use.py", "use")]],
    fixture="tuple.pyi",
)
LOCAL = {"U2D": U2D, "UCH": UCH, "UTG": UTG, "UPR": UPR}


def U(name: str):
    return LOCAL.get(name) or universes.ALL[name]


def _paths(u) -> list[str]:
    return u.paths()


def _strip(p: str) -> str:
    return p[len("tmp/"):]


def initial_vm(u, init: tuple) -> dict[str, int]:
    vm = {p: 0 for p in _paths(u)}
    vm.update(dict(init))
    return vm


def alphabet(u) -> list[tuple[str, int]]:
    return [(p, v) for p in _paths(u) for v in range(len(u.files[p]))]


def legal_step(u, vm: dict[str, int], p: str, v: int) -> bool:
    if vm[p] == v:
        return False
    roots = {q for q, _m in u.sources[0]}
    return not (p in roots and u.files[p][v] is None)


def states_after(u, init: tuple, hist: tuple) -> list[dict[str, int]]:
    cur = initial_vm(u, init)
    out = [dict(cur)]
    for p, v, _c in hist:
        cur = dict(cur)
        cur[p] = v
        out.append(cur)
    return out


def init_states(u, radius: int) -> list[tuple]:
    """Initial file states at distance <= radius from the default state (as override tuples)."""
    outs: list[tuple] = [()]
    if radius >= 1:
        vm0 = initial_vm(u, ())
        for p, v in alphabet(u):
            if legal_step(u, vm0, p, v):
                outs.append(((p, v),))
    return outs


def sources_for(u, vm: dict[str, int], mode: str) -> list[tuple[str, str]]:
    if mode == "normal-root":
        return [(_strip(p), m) for p, m in u.sources[0]]
    out = []
    for p in _paths(u):
        if u.files[p][vm[p]] is not None:
            m = _strip(p).rsplit(".", 1)[0].replace("/", ".")
            if m.endswith(".__init__"):
                m = m[: -len(".__init__")]
            out.append((_strip(p), m))
    # a .py shadowed by a .pyi of the same module: pass only the stub (mypy would reject duplicates)
    mods: dict[str, str] = {}
    for path, m in out:
        if m not in mods or path.endswith(".pyi"):
            mods[m] = path
    return sorted((path, m) for m, path in mods.items())


def base_options(u, mode: str):
    from mypy.options import Options

    o = Options()
    o.use_builtins_fixtures = True
    o.show_traceback = True
    o.error_summary = False
    o.hide_error_codes = False
    o.python_executable = None
    o.local_partial_types = True
    o.follow_imports = "normal" if mode == "normal-root" else "error"
    for k, v in u.overrides.items():
        if k != "follow_imports":
            setattr(o, k, v)
    return o


def _set_file(root: str, u, p: str, v: int, mt: int) -> None:
    dst = os.path.join(root, _strip(p))
    text = u.files[p][v]
    if text is None:
        if os.path.exists(dst):
            os.remove(dst)
            # a state is exactly its set of files: no empty directory stays behind (mypy would take it for a
            # namespace package, which the cold oracle's fresh tree does not have)
            d = os.path.dirname(dst)
            while os.path.abspath(d) != os.path.abspath(root) and os.path.isdir(d) and not os.listdir(d):
                os.rmdir(d)
                d = os.path.dirname(d)
        return
    os.makedirs(os.path.dirname(dst) or root, exist_ok=True)
    with open(dst, "w") as f:
        f.write(text)
    os.utime(dst, (mt, mt))


def _fixture(root: str, u) -> None:
    if u.fixture:
        dst = os.path.join(root, "builtins.pyi")
        if not os.path.exists(dst):
            shutil.copyfile(os.path.join(drivers.FIXTURES, u.fixture), dst)
            os.utime(dst, (BASE_TIME, BASE_TIME))


# ---------------------------------------------------------------------------------------------
# cold oracle


def cold_run(args: tuple) -> dict:
    root, uname, vm, mode, srcs_ = args
    from mypy import build as mb
    from mypy.errors import CompileError
    from mypy.modulefinder import BuildSource

    u = U(uname)
    os.makedirs(root, exist_ok=True)
    for p, v in vm.items():
        _set_file(root, u, p, v, BASE_TIME)
    _fixture(root, u)
    os.chdir(root)
    o = base_options(u, mode)
    o.incremental = False
    o.cache_dir = os.devnull
    o.fine_grained_incremental = False
    srcs = [BuildSource(p, m, None) for p, m in (srcs_ or sources_for(u, vm, mode))]
    try:
        res = mb.build(srcs, o)
        return {"out": list(res.errors), "blocker": False}
    except CompileError as e:
        return {"out": list(e.messages), "blocker": True}


COLD_TABLE: dict[tuple, dict] = {}  # (uname, mode, sorted vm items) -> cold result; filled by run() before forking


def all_states(u) -> list[dict[str, int]]:
    paths = _paths(u)
    roots = {p for p, _m in u.sources[0]}
    out = []
    for combo in itertools.product(*[range(len(u.files[p])) for p in paths]):
        vm = dict(zip(paths, combo))
        if any(u.files[p][vm[p]] is None for p in roots):
            continue
        out.append(vm)
    return out


def _cold_item(args: tuple) -> dict:
    uname, mode, vm_items = args
    root = scratch("c03", f"cold{os.getpid()}", "tmp")
    shutil.rmtree(root, ignore_errors=True)
    return cold_run((root, uname, dict(vm_items), mode, None))


# ---------------------------------------------------------------------------------------------
# the daemon, explored as a tree


class Daemon:
    """One real Server plus the harness' view of the files it watches."""

    def __init__(self, root: str, uname: str, mode: str, use_recheck: bool, init: tuple, emit) -> None:
        from mypy.dmypy_server import Server
        from mypy.modulefinder import BuildSource

        self.BuildSource = BuildSource
        self.root, self.u, self.mode, self.use_recheck, self.emit = root, U(uname), mode, use_recheck, emit
        u = self.u
        shutil.rmtree(root, ignore_errors=True)
        os.makedirs(root)
        os.chdir(root)
        self.vm = initial_vm(u, init)
        self.mts = {p: BASE_TIME for p in self.vm}
        for p, v in self.vm.items():
            _set_file(root, u, p, v, BASE_TIME)
        _fixture(root, u)
        self.checked_vm: dict[str, int] | None = None  # files as of the last check
        self.pending: list[str] = []  # files changed since the last check
        o = base_options(u, mode)
        self.cache_start = mode == "cache-start"
        if self.cache_start:
            from mypy import build as mb
            from mypy.errors import CompileError

            bo = base_options(u, mode)
            bo.incremental = True
            bo.cache_fine_grained = True
            bo.cache_dir = os.path.join(root, ".cache")
            try:
                r0 = mb.build([BuildSource(p, m, None) for p, m in sources_for(u, self.vm, mode)], bo)
                r0.manager.metastore.close()
            except CompileError:
                pass
            o.use_fine_grained_cache = True
            o.cache_fine_grained = True
            o.cache_dir = os.path.join(root, ".cache")
            self.checked_vm = dict(self.vm)  # the batch build plays the role of the first check
        self.server = Server(o, os.path.join(root, ".status"))

    def edit(self, p: str, v: int, step: int) -> tuple[int, int]:
        old = (self.vm[p], self.mts[p])
        self.vm[p] = v
        self.mts[p] = BASE_TIME + 10 * step
        _set_file(self.root, self.u, p, v, self.mts[p])
        self.pending.append(p)
        return old

    def restore(self, p: str, old: tuple[int, int], pending_len: int) -> None:
        self.vm[p], self.mts[p] = old
        _set_file(self.root, self.u, p, old[0], old[1])
        del self.pending[pending_len:]

    def check(self, hist: tuple, record: bool = True) -> bool:
        """One real daemon request for the current files; False if the daemon raised."""
        u, server = self.u, self.server
        srcs = [self.BuildSource(p, m, None) for p, m in sources_for(u, self.vm, self.mode)]
        try:
            if (self.use_recheck and self.checked_vm is not None and server.fine_grained_manager
                    and self.mode != "normal-root"):
                prev = {p for p, _ in sources_for(u, self.checked_vm, self.mode)}
                cur = {p for p, _ in sources_for(u, self.vm, self.mode)}
                upd = sorted((cur - prev) | ({_strip(p) for p in self.pending} & cur))
                rem = sorted(prev - cur)
                r = server.cmd_recheck(False, -1, False, remove=rem or None, update=upd or None)
            else:
                r = server.check(srcs, False, False, -1)
        except BaseException as e:  # noqa: BLE001
            import traceback

            if record:
                self.emit({"hist": [list(h) for h in hist],
                           "crash": f"{type(e).__name__}: {e}\n{traceback.format_exc()}"})
            return False
        self.checked_vm = dict(self.vm)
        self.pending = []
        if record:
            out = (r.get("out") or "") + (r.get("err") or "")
            fgm = server.fine_grained_manager
            info = {}
            if fgm is not None:
                info = {"updated": len(getattr(fgm, "updated_modules", []) or []),
                        "targets": len(getattr(fgm, "processed_targets", []) or []),
                        "triggered": len(getattr(fgm, "triggered", []) or [])}
            self.emit({"hist": [list(h) for h in hist], "vm": sorted(self.vm.items()),
                       "resp": {"out": out.splitlines(), "status": r.get("status"), "error": r.get("error")},
                       "info": info})
        return True


def daemon_tree(args: tuple) -> list[dict]:
    """Explore the history subtree below `prefix` (see module docstring).  Returns one record per
    CHECKED node at or below the prefix: {hist, vm, resp, info} or {hist, crash}."""
    root, uname, mode, use_recheck, init, prefix, depth, nocheck = args
    u = U(uname)
    al = alphabet(u)
    resfile = os.path.join(os.path.dirname(root), f"results-{os.getpid()}.jsonl")
    rfd = os.open(resfile, os.O_WRONLY | os.O_CREAT | os.O_APPEND | os.O_TRUNC, 0o644)

    def emit(rec: dict) -> None:
        os.write(rfd, (json.dumps(rec) + "\n").encode())

    d = Daemon(root, uname, mode, use_recheck, tuple(init), emit)
    prefix = tuple(tuple(e) for e in prefix)
    ok = True
    if not d.cache_start:
        ok = d.check((), record=not prefix)  # the daemon's first check happens on the initial files
    for i, (p, v, c) in enumerate(prefix):
        if not ok:
            break
        d.edit(p, v, i + 1)
        if c:
            ok = d.check(prefix[: i + 1], record=(i == len(prefix) - 1))

    def explore(hist: tuple, left: int) -> None:
        if left <= 0:
            return
        for p, v in al:
            if not legal_step(u, d.vm, p, v):
                continue
            for c in ((1, 0) if nocheck else (1,)):
                if c == 0 and left == 1:
                    continue  # a history must end with a check
                h2 = hist + ((p, v, c),)
                pid = os.fork()
                if pid == 0:
                    code = 0
                    try:
                        d.edit(p, v, len(h2))
                        if c == 0 or d.check(h2):
                            explore(h2, left - 1)
                    except BaseException:  # noqa: BLE001
                        code = 3
                    finally:
                        os._exit(code)
                _, status = os.waitpid(pid, 0)
                if status != 0:
                    emit({"hist": [list(h) for h in h2], "crash": f"explorer child exited with status {status}"})
                # restore the one file the child's subtree changed (content and mtime)
                _set_file(root, u, p, d.vm[p], d.mts[p])

    if ok and (not prefix or prefix[-1][2] == 1 or depth > len(prefix)):
        explore(prefix, depth - len(prefix))
    os.close(rfd)
    with open(resfile) as f:
        recs = [json.loads(line) for line in f if line.strip()]
    os.remove(resfile)
    return recs


def daemon_chain(args: tuple) -> list[dict]:
    """Straight-line replay of ONE history on a fresh daemon (self-test / replay)."""
    root, uname, mode, use_recheck, init, hist = args
    recs: list[dict] = []
    d = Daemon(root, uname, mode, use_recheck, tuple(init), recs.append)
    ok = True
    if not d.cache_start:
        ok = d.check(())
    for i, (p, v, c) in enumerate(hist):
        if not ok:
            break
        d.edit(p, v, i + 1)
        if c:
            ok = d.check(tuple(hist[: i + 1]))
    return recs


# ---------------------------------------------------------------------------------------------
# comparison


def fmt_hist(init: tuple, hist: tuple) -> list[str]:
    out = [f"init:{_strip(p)}={v}" for p, v in init]
    return out + [f"{_strip(p)}={v}" + ("" if c else "(no check)") for p, v, c in hist]


def history_signature(u, uname: str, init: tuple, hist: tuple, fallback: str, got_status: int = 0,
                      exp_status: int = 0) -> str:
    """Cause-level grouping: a history in which some file appears or disappears is attributed to
    that presence change (which module file came/went), otherwise to the message difference."""
    if fallback.split("|", 1)[1] == '-error: Unused "type: ignore" comment  [unused-ignore]':
        return fallback  # one recognisable cause whatever the edit that triggered the re-check
    cur = initial_vm(u, init)
    changed = set()
    last_changed = False
    for p, v, _c in hist:
        last_changed = (u.files[p][cur[p]] is None) != (u.files[p][v] is None)
        if last_changed:
            changed.add(_strip(p))
        cur[p] = v
    if changed:
        sig = f"{uname}|file-appears-or-disappears:{'+'.join(sorted(changed))}"
        # where a blocking error is involved, the finding is further identified by the direction of the wrong
        # answer and by whether the presence change is part of the last request or lies further back
        if got_status == 2 and exp_status != 2:
            sig += "|stale-blocker" + ("|on-presence-change" if last_changed else "|after-later-edit")
        elif exp_status == 2 and got_status != 2:
            sig += "|missed-blocker" + ("|on-presence-change" if last_changed else "|after-later-edit")
        return sig
    return fallback


def _crash_sig(info: str) -> str:
    lines = [l for l in info.strip().splitlines() if l.strip()]
    exc = lines[0][:80] if lines else "?"
    loc = ""
    for l in reversed(lines):
        s = l.strip()
        if s.startswith('File "') and "/mypy/" in s:
            loc = "mypy/" + s.split("/mypy/", 1)[1].split('"')[0] + ":" + s.split(" in ")[-1]
            break
    return f"{exc.split(':')[0]}@{loc}"


def run_subtree(item: tuple) -> dict:
    """item = (uname, mode, use_recheck, init, prefix, depth, nocheck)."""
    uname, mode, use_recheck, init, prefix, depth, nocheck = item
    u = U(uname)
    out = {"n": 0, "nontrivial": 0, "violations": [], "samples": [], "herr": [], "outcomes": set(), "order_only": 0,
           "steps": 0, "multi_blocker_accepted": 0, "multi_file_checks": 0}
    root = scratch("c03", f"w{os.getpid()}", "tmp")
    try:
        recs = run_isolated(daemon_tree, (root, uname, mode, use_recheck, init, prefix, depth, nocheck), timeout=3000)
    except ExecError as e:
        out["herr"].append(f"subtree {item} failed: {e.kind} {e.info[-400:]}")
        return _fin(out)
    cold_memo: dict[tuple, dict] = {}
    seen_h = set()
    omode = "normal-root" if mode == "normal-root" else "error-all"
    for rec in recs:
        hist = tuple((p, v, c) for p, v, c in rec["hist"])
        if hist in seen_h or len(hist) < len(prefix):
            continue
        seen_h.add(hist)
        out["steps"] += 1
        detail_base = {"universe": uname, "init": [list(x) for x in init], "history": [list(h) for h in hist],
                       "mode": mode, "recheck": use_recheck}
        if "crash" in rec:
            out["n"] += 1
            info = rec["crash"]
            out["violations"].append({
                "signature": f"{uname}|daemon-crash:{_crash_sig(info)}",
                "what": f"{uname} {mode} history {fmt_hist(init, hist)}: daemon raised: {info.strip().splitlines()[0][:160]}",
                "detail": dict(detail_base, error=info[-3000:])})
            continue
        final = dict((p, v) for p, v in rec["vm"])
        fkey = tuple(sorted(final.items()))
        cold = COLD_TABLE.get((uname, omode, fkey)) or cold_memo.get(fkey)
        if cold is None:
            try:
                cold = cold_memo[fkey] = run_isolated(cold_run, (root, uname, final, mode, None), timeout=300)
            except ExecError as e:
                out["herr"].append(f"cold failed {uname} {hist} {mode}: {e.kind} {e.info[-300:]}")
                continue
        got = rec["resp"]
        out["n"] += 1
        if got.get("error"):
            out["herr"].append(f"daemon error response {uname} {hist}: {got['error']}")
            continue
        if sum(1 for i, h in enumerate(hist) if h[2] == 0) and hist[-1][2] == 1:
            out["multi_file_checks"] += 1
        exp_status = 0
        if cold["out"]:
            exp_status = 2 if cold["blocker"] else (1 if any(": error:" in l for l in cold["out"]) else 0)
        eq, oo = same_diagnostics(got["out"], cold["out"])
        if not eq and cold["blocker"] and got["status"] == 2 and got["out"]:
            # Several files carry a blocking error at once: WHICH one a fresh run reports depends on the order it
            # meets the files in, which the property does not fix.  Accept the daemon's answer iff every line is a
            # blocker line some fresh run reports (all orders of all present files).
            akey = ("blocker-lines", fkey)
            if akey not in cold_memo:
                allsrc = sources_for(u, final, "error-all")
                lines: set[str] = set()
                for perm in itertools.permutations(allsrc):
                    try:
                        r = run_isolated(cold_run, (root, uname, final, "error-all", list(perm)), timeout=300)
                    except ExecError:
                        continue
                    if r["blocker"]:
                        lines.update(r["out"])
                cold_memo[akey] = {"lines": lines}
            if set(got["out"]) <= cold_memo[akey]["lines"]:
                eq = True
                out["multi_blocker_accepted"] += 1
        if oo:
            out["order_only"] += 1
        out["outcomes"].add(tuple(cold["out"]))
        inf = rec.get("info") or {}
        n_mod = sum(1 for p in final if u.files[p][final[p]] is not None)
        if bool(hist) and inf.get("updated", 99) < n_mod + 3 and inf.get("targets", 0) > 0:
            out["nontrivial"] += 1
        if len(out["samples"]) < 2 and len(hist) >= 2 and cold["out"]:
            out["samples"].append({"universe": uname, "mode": mode, "history": fmt_hist(init, hist),
                                   "response": got["out"][:3], "info": inf})
        if not eq or (got["status"] != exp_status):
            cg, cc = Counter(got["out"]), Counter(cold["out"])

            def texts(lines_: list[str], sign: str) -> list[str]:
                out_ = set()
                for ln in lines_:
                    t = ln.split(": ", 1)[1] if ": " in ln else ln
                    if t.startswith("note: See https://"):
                        continue
                    out_.add(sign + t)
                return sorted(out_)

            extra = texts(sorted((cg - cc).elements()), "+")
            missing = texts(sorted((cc - cg).elements()), "-")
            sig = f"{uname}|" + "|".join((extra + missing)[:3])
            if eq:
                sig = f"{uname}|status:{got['status']}!={exp_status}"
            elif not extra and not missing:
                sig = f"{uname}|order-within-file"
            sig = history_signature(u, uname, init, hist, sig, got["status"], exp_status)
            if mode == "cache-start" and not eq and not extra and missing:
                # A daemon started from a fine-grained cache does not report the errors of modules it loaded from
                # the cache and never re-processed (the repository's own fine-grained-cache tests skip cases whose
                # initial state has errors).  One recognisable cause: nothing extra, and every missing line
                # belongs to a file that no edit of the history touched.
                vm_init = initial_vm(u, init)  # what the cache was written for
                edited = {_strip(p) for p in vm_init if final.get(p) != vm_init[p]}  # net change only
                miss_lines = sorted((cc - cg).elements())
                real = [ln for ln in miss_lines if not ln.split(": ", 1)[-1].startswith("note: See https://")]
                rest = [ln for ln in real if ln.split(":", 1)[0] in edited]
                if not rest:
                    sig = f"{uname}|cache-start|errors-of-cached-unedited-modules-not-reported"
                elif len(rest) < len(real):
                    # two causes at once: name the finding after what the cache-start limitation does NOT explain
                    sig = history_signature(u, uname, init, hist, f"{uname}|" + "|".join(texts(rest, "-")[:3]),
                                            got["status"], exp_status)
            out["violations"].append({
                "signature": sig,
                "what": f"{uname} {mode}{' recheck' if use_recheck else ''} history {fmt_hist(init, hist)}: "
                        f"daemon={got['out'][:3]} status={got['status']} full={cold['out'][:3]} status={exp_status}",
                "detail": dict(detail_base, daemon=got, cold=cold)})
    return _fin(out)


def _fin(out: dict) -> dict:
    out["outcomes"] = len(out["outcomes"])
    return out


def selftest_tree_vs_chain(items: list[tuple]) -> int:
    """Replay self-test: the fork-cloned tree must observe exactly what a straight-line replay of the
    same history on a fresh daemon observes (else nondeterminism / harness state is not owned)."""
    picked = [it for it in items if it[4] and it[1] != "cache-start" and not it[2]][:2]
    picked += [it for it in items if it[4] and it[6]][:1]
    checked = 0
    for uname, mode, use_recheck, init, prefix, _d, nocheck in picked:
        root = scratch("c03", "selftest", "tmp")
        recs = run_isolated(daemon_tree, (root, uname, mode, use_recheck, init, prefix, len(prefix) + 1, nocheck),
                            timeout=900)
        n = 0
        for rec in recs:
            hist = tuple((p, v, c) for p, v, c in rec["hist"])
            if len(hist) != len(prefix) + 1 or "resp" not in rec:
                continue
            d = run_isolated(daemon_chain, (root, uname, mode, use_recheck, init, hist), timeout=900)
            last = d[-1]
            if "resp" not in last or last["resp"]["out"] != rec["resp"]["out"] or \
                    last["resp"]["status"] != rec["resp"]["status"]:
                raise RuntimeError(f"self-test failed: tree and chain replay differ for {uname} {mode} {hist}: "
                                   f"{rec['resp']} vs {last}")
            n += 1
            if n >= 4:
                break
        checked += n
    if not checked:
        raise RuntimeError("self-test vacuous")
    return checked


def run(ctx: Ctx, only: list[str] | None = None) -> Result:
    # (universe, depth, modes, init radius, allow unchecked edits)
    if ctx.quick:
        plan = [("U1", 2, MODES[:2], 1, False), ("U2", 2, MODES[:2], 1, False), ("U2D", 3, MODES[:2], 1, False),
                ("U3", 2, MODES[:2], 1, False), ("U4b", 3, MODES[:2], 0, False), ("U5", 2, MODES[:2], 1, False),
                ("U6", 3, MODES[:2], 0, False), ("U8", 2, MODES[:2], 1, False), ("U9", 2, MODES[:2], 1, False),
                ("UCH", 3, MODES[:2], 0, True), ("UTG", 3, MODES[:2], 1, False),
                ("UPR", 3, MODES[:2], 1, False),
                ("U2", 2, MODES[2:], 0, False), ("U9", 2, MODES[2:], 0, False), ("U6", 2, MODES[2:], 0, False)]
    else:
        plan = [("U1", 3, MODES, 1, False), ("U2", 4, MODES, 1, False), ("U2D", 4, MODES, 1, True),
                ("U3", 4, MODES, 1, False), ("U4", 3, MODES, 1, False), ("U4b", 4, MODES, 1, True),
                ("U5", 3, MODES, 1, True), ("U6", 4, MODES, 1, False), ("U8", 3, MODES, 1, False),
                ("U9", 3, MODES, 1, False), ("UCH", 4, MODES, 1, True), ("U10", 3, MODES, 1, True),
                ("UTG", 4, MODES, 1, True), ("UPR", 4, MODES, 1, True)]
    if only:
        plan = [p for p in plan if p[0] in only]
    items: list[tuple] = []
    bounds: dict[str, Any] = {}
    for uname, depth, modes, radius, nocheck in plan:
        u = U(uname)
        for mode in modes:
            variants = [False] + ([True] if mode == "error-all" else [])
            for use_recheck in variants:
                d = depth if not use_recheck or ctx.thorough else min(depth, 2)
                bounds[f"{uname}/{mode}{'+recheck' if use_recheck else ''}"] = {
                    "depth": d, "initial_states_radius": radius, "unchecked_edits": nocheck}
                for init in init_states(u, radius):
                    vm0 = initial_vm(u, init)
                    if mode != "cache-start":
                        items.append((uname, mode, use_recheck, init, (), 0, False))  # the root node alone
                    for p, v in alphabet(u):
                        if not legal_step(u, vm0, p, v):
                            continue
                        for c in ((1, 0) if nocheck and d >= 2 else (1,)):
                            items.append((uname, mode, use_recheck, init, ((p, v, c),), d, nocheck))
    items = seeded_order(items, ctx.seed)
    tot: Counter = Counter()
    violations: list[Violation] = []
    samples: list[Any] = []
    herr: list[str] = []
    per: Counter = Counter()
    # cold oracle for every file state of every universe, computed once (memo shared by all subtrees)
    cold_jobs = []
    for uname in sorted({it[0] for it in items}):
        for omode in ("error-all", "normal-root"):
            if any(it[0] == uname and ((it[1] == "normal-root") == (omode == "normal-root")) for it in items):
                for vm in all_states(U(uname)):
                    cold_jobs.append((uname, omode, tuple(sorted(vm.items()))))
    for _i, job, st, val in pmap(_cold_item, cold_jobs, fresh=True, timeout=600):
        if st == "ok":
            COLD_TABLE[job] = val
        else:
            herr.append(f"cold oracle failed for {job}: {val}")
    tot["cold_oracle_runs"] = len(COLD_TABLE)
    tot["selftest_nodes"] = selftest_tree_vs_chain(items)
    for _i, item, st, val in pmap(run_subtree, items, fresh=False, timeout=3600):
        if st != "ok":
            herr.append(f"item {item} failed: {val}")
            continue
        for k in ("n", "nontrivial", "order_only", "steps", "multi_blocker_accepted", "multi_file_checks"):
            tot[k] += val[k]
        per[f"{item[0]}/{item[1]}{'+recheck' if item[2] else ''}"] += val["n"]
        tot["outcomes"] = max(tot["outcomes"], val["outcomes"])
        for v in val["violations"]:
            violations.append(Violation(v["signature"], v["what"], v["detail"]))
        if len(samples) < 5:
            samples.extend(val["samples"][:1])
        herr.extend(val["herr"])
    if not only and (tot["n"] < 100 or tot["nontrivial"] < 20):
        raise RuntimeError(f"vacuous exploration: {dict(tot)}")
    cov = {
        "states": tot["n"], "transitions": tot["steps"], "traces_validated_against_impl": tot["n"],
        "evaluations": tot["n"], "distinct_nontrivial": tot["nontrivial"],
        "rule": "node = (initial file state, edit history); every checked node is one real Server.check/cmd_recheck whose "
                "response is compared with a non-incremental build.build of that node's files; non-trivial iff the update "
                "re-processed targets without re-processing every module",
        "checked_nodes_per_universe_mode": dict(per), "bounds_per_universe_mode": bounds,
        "checks_seeing_several_changed_files": tot["multi_file_checks"],
        "cold_oracle_runs": tot["cold_oracle_runs"],
        "replay_selftest": f"{tot['selftest_nodes']} nodes: fork-cloned tree == straight-line replay on a fresh daemon",
        "order_only_differences": tot["order_only"], "multi_blocker_states_accepted": tot["multi_blocker_accepted"],
        "exhaustive": True, "samples": samples[:5],
        "bounds": "ALL legal histories up to the depth bound from EVERY initial file state within the stated radius, per "
                  "universe/mode (history tree explored by fork-cloning the live daemon at every node; no state merging)",
    }
    return Result(PROPERTY, LEVEL, cov, violations, assumptions=[
        "fixture stubs on both sides; mtimes owned (monotone clock: +10 s per step)",
        "server options as the daemon forces them (local_partial_types); oracle uses the same options non-incrementally",
        "when several files carry a blocking error at once, any blocker a fresh run reports for some file order is accepted",
    ], harness_errors=herr)


def replay(ctx: Ctx, rec: dict) -> Result:
    d = rec["detail"]
    hist = tuple((h[0], h[1], h[2] if len(h) > 2 else 1) for h in d["history"])
    init = tuple((p, v) for p, v in d.get("init", []))
    nocheck = any(h[2] == 0 for h in hist)
    out = run_subtree((d["universe"], d["mode"], d.get("recheck", False), init, hist, len(hist), nocheck))
    vs = [Violation(v["signature"], v["what"], {}) for v in out["violations"]
          if v["detail"]["history"] == [list(h) for h in hist]]
    for v in vs:
        print(v.what)
    return Result(PROPERTY, LEVEL, {}, vs)
