"""C03 — the daemon's fine-grained update equals a full check after every edit.

S2: every edit history up to the depth bound over each universe's edit alphabet, each replayed from a
fresh process on the real `mypy.dmypy_server.Server` (check / cmd_recheck), with a check after
every step; the response of the last step of every history is compared with a non-incremental
`mypy.build.build` of the files at that moment (every proper prefix is itself an enumerated
history, so every step of every history is compared exactly once).  Modes: follow_imports=error
with all files passed (the suite's default), follow_imports=normal with only the root passed,
and T: start from a fine-grained cache written by a batch build of the previous state.
"""

from __future__ import annotations

import os
import shutil
from collections import Counter
from typing import Any

from mc import drivers, universes
from mc.common import Ctx, Result, Violation, same_diagnostics, scratch, seeded_order
from mc.drivers import BASE_TIME
from mc.kernel import ExecError, chunked, pmap, run_isolated

PROPERTY = "C03"
LEVEL = "model_checking"

MODES = ["error-all", "normal-root", "cache-start"]


def _paths(u) -> list[str]:
    return u.paths()


def _strip(p: str) -> str:
    return p[len("tmp/"):]


def alphabet(u) -> list[tuple[str, int]]:
    """Edits: set file p to variant v (for every variant incl. absent)."""
    out = []
    for p in _paths(u):
        for v in range(len(u.files[p])):
            out.append((p, v))
    return out


def apply_history(u, hist: tuple) -> list[dict[str, int]]:
    """Returns the list of variant maps after each step (index 0 = initial); steps that do not change
    anything are not legal (filtered by the enumerator)."""
    cur = {p: 0 for p in _paths(u)}
    states = [dict(cur)]
    for p, v in hist:
        cur = dict(cur)
        cur[p] = v
        states.append(cur)
    return states


def legal(u, hist: tuple) -> bool:
    cur = {p: 0 for p in _paths(u)}
    roots = {p for p, _m in u.sources[0]}
    for p, v in hist:
        if cur[p] == v:
            return False
        if p in roots and u.files[p][v] is None:
            return False
        cur[p] = v
    return True


def write_state(root: str, u, vm: dict[str, int], step: int, prev: dict[str, int] | None) -> None:
    """Monotone clock: a file written at step s gets mtime BASE+10*s; untouched files keep theirs."""
    for p, v in vm.items():
        rel = _strip(p)
        dst = os.path.join(root, rel)
        text = u.files[p][v]
        if prev is not None and prev[p] == v:
            continue
        if text is None:
            if os.path.exists(dst):
                os.remove(dst)
            continue
        os.makedirs(os.path.dirname(dst) or root, exist_ok=True)
        with open(dst, "w") as f:
            f.write(text)
        mt = BASE_TIME + 10 * step
        os.utime(dst, (mt, mt))
    # remove empty package dirs? no: an empty directory is a legitimate state (namespace package)


def sources_for(u, vm: dict[str, int], mode: str) -> list[tuple[str, str]]:
    if mode == "normal-root" :
        return [(_strip(p), m) for p, m in u.sources[0]]
    out = []
    for p in _paths(u):
        if u.files[p][vm[p]] is not None and not p.endswith("builtins.pyi"):
            m = _strip(p).rsplit(".", 1)[0].replace("/", ".")
            if m.endswith(".__init__"):
                m = m[: -len(".__init__")]
            out.append((_strip(p), m))
    # a .py shadowed by a .pyi of the same module: pass only the stub (mypy would reject duplicates)
    mods: dict[str, str] = {}
    for path, m in out:
        if m not in mods or path.endswith(".pyi"):
            mods[m] = path
    return sorted((path, m) for m, path in mods.items())


def base_options(u, mode: str, cache_dir: str | None = None):
    from mypy.options import Options

    o = Options()
    o.use_builtins_fixtures = True
    o.show_traceback = True
    o.error_summary = False
    o.hide_error_codes = False
    o.python_executable = None
    o.local_partial_types = True
    o.follow_imports = "normal" if mode == "normal-root" else "error"
    for k, v in u.overrides.items():
        if k != "follow_imports":
            setattr(o, k, v)
    return o


def cold_run(args: tuple) -> dict:
    root, uname, vm, mode = args
    from mypy import build as mb
    from mypy.errors import CompileError
    from mypy.modulefinder import BuildSource

    u = universes.ALL[uname]
    os.chdir(root)
    o = base_options(u, mode)
    o.incremental = False
    o.cache_dir = os.devnull
    o.fine_grained_incremental = False
    srcs = [BuildSource(p, m, None) for p, m in sources_for(u, vm, mode)]
    try:
        res = mb.build(srcs, o)
        return {"out": list(res.errors), "blocker": False}
    except CompileError as e:
        return {"out": list(e.messages), "blocker": True}


def cold_run_sources(args: tuple) -> dict:
    root, uname, srcs_ = args
    from mypy import build as mb
    from mypy.errors import CompileError
    from mypy.modulefinder import BuildSource

    u = universes.ALL[uname]
    os.chdir(root)
    o = base_options(u, "error-all")
    o.incremental = False
    o.cache_dir = os.devnull
    try:
        res = mb.build([BuildSource(p, m, None) for p, m in srcs_], o)
        return {"out": list(res.errors), "blocker": False}
    except CompileError as e:
        return {"out": list(e.messages), "blocker": True}


def daemon_history(args: tuple) -> dict:
    """Run one history on a fresh Server; returns the response after every step."""
    root, uname, hist, mode, use_recheck = args
    from mypy.dmypy_server import Server
    from mypy.modulefinder import BuildSource

    u = universes.ALL[uname]
    states = apply_history(u, hist)
    shutil.rmtree(root, ignore_errors=True)
    os.makedirs(root)
    os.chdir(root)
    write_state(root, u, states[0], 0, None)
    if u.fixture:
        shutil.copyfile(os.path.join(drivers.FIXTURES, u.fixture), os.path.join(root, "builtins.pyi"))
        os.utime(os.path.join(root, "builtins.pyi"), (BASE_TIME, BASE_TIME))
    o = base_options(u, mode)
    first_step = 0
    if mode == "cache-start":
        # batch build of the initial state writes a fine-grained cache; the daemon starts from it
        from mypy import build as mb
        from mypy.errors import CompileError

        bo = base_options(u, mode)
        bo.incremental = True
        bo.cache_fine_grained = True
        bo.cache_dir = os.path.join(root, ".cache")
        try:
            r0 = mb.build([BuildSource(p, m, None) for p, m in sources_for(u, states[0], mode)], bo)
            r0.manager.metastore.close()
        except CompileError:
            pass
        o.use_fine_grained_cache = True
        o.cache_fine_grained = True
        o.cache_dir = os.path.join(root, ".cache")
        # the first daemon check already sees the first edit (load from cache + catch-up update)
        if len(states) > 1:
            write_state(root, u, states[1], 1, states[0])
            first_step = 1
    server = Server(o, os.path.join(root, ".status"))
    resps = []
    info = []
    for i in range(first_step, len(states)):
        if i > first_step:
            write_state(root, u, states[i], i, states[i - 1])
        srcs = [BuildSource(p, m, None) for p, m in sources_for(u, states[i], mode)]
        if use_recheck and i > first_step and mode != "normal-root":
            prev = {p for p, _ in sources_for(u, states[i - 1], mode)}
            cur = {p for p, _ in sources_for(u, states[i], mode)}
            ch_p, ch_v = hist[i - 1]
            upd = sorted((cur - prev) | ({_strip(ch_p)} & cur))
            rem = sorted(prev - cur)
            r = server.cmd_recheck(False, -1, False, remove=rem or None, update=upd or None)
        else:
            r = server.check(srcs, False, False, -1)
        out = (r.get("out") or "") + (r.get("err") or "")
        resps.append({"out": out.splitlines(), "status": r.get("status"), "error": r.get("error")})
        fgm = server.fine_grained_manager
        if fgm is not None:
            info.append({"updated": len(getattr(fgm, "updated_modules", []) or []),
                         "targets": len(getattr(fgm, "processed_targets", []) or []),
                         "triggered": len(getattr(fgm, "triggered", []) or [])})
        else:
            info.append({})
    return {"resps": resps, "info": info, "first_step": first_step}



def _set_file(root: str, u, p: str, v: int, mt: int) -> None:
    dst = os.path.join(root, _strip(p))
    text = u.files[p][v]
    if text is None:
        if os.path.exists(dst):
            os.remove(dst)
        return
    os.makedirs(os.path.dirname(dst) or root, exist_ok=True)
    with open(dst, "w") as f:
        f.write(text)
    os.utime(dst, (mt, mt))


def daemon_tree(args: tuple) -> list[dict]:
    """Explore the whole history subtree below `prefix` on ONE real Server, cloning the in-memory
    daemon state with fork() at every node (each node is executed exactly once; the parent's memory
    is untouched by its children and it restores the one file a child changed, content and mtime).
    Returns one record per node: {hist, resp, info} or {hist, crash}."""
    import json

    root, uname, mode, use_recheck, prefix, depth = args
    from mypy.dmypy_server import Server
    from mypy.modulefinder import BuildSource

    u = universes.ALL[uname]
    al = alphabet(u)
    shutil.rmtree(root, ignore_errors=True)
    os.makedirs(root)
    os.chdir(root)
    resfile = os.path.join(os.path.dirname(root), f"results-{os.getpid()}.jsonl")
    rfd = os.open(resfile, os.O_WRONLY | os.O_CREAT | os.O_APPEND | os.O_TRUNC, 0o644)
    vm = {p: 0 for p in _paths(u)}
    mts = {p: BASE_TIME for p in _paths(u)}
    for p in vm:
        _set_file(root, u, p, 0, BASE_TIME)
    if u.fixture:
        shutil.copyfile(os.path.join(drivers.FIXTURES, u.fixture), os.path.join(root, "builtins.pyi"))
        os.utime(os.path.join(root, "builtins.pyi"), (BASE_TIME, BASE_TIME))
    o = base_options(u, mode)
    prefix = tuple(tuple(e) for e in prefix)
    done = 0
    if mode == "cache-start":
        from mypy import build as mb
        from mypy.errors import CompileError

        bo = base_options(u, mode)
        bo.incremental = True
        bo.cache_fine_grained = True
        bo.cache_dir = os.path.join(root, ".cache")
        try:
            r0 = mb.build([BuildSource(p, m, None) for p, m in sources_for(u, vm, mode)], bo)
            r0.manager.metastore.close()
        except CompileError:
            pass
        o.use_fine_grained_cache = True
        o.cache_fine_grained = True
        o.cache_dir = os.path.join(root, ".cache")
        assert prefix, "cache-start needs a first edit"
        p0, v0 = prefix[0]
        vm[p0] = v0
        mts[p0] = BASE_TIME + 10
        _set_file(root, u, p0, v0, mts[p0])
        done = 1
    server = Server(o, os.path.join(root, ".status"))

    def emit(rec: dict) -> None:
        os.write(rfd, (json.dumps(rec) + "\n").encode())

    def check(hist: tuple, prev_vm: dict | None) -> bool:
        """One real daemon request for the current files; returns False if the daemon crashed."""
        srcs = [BuildSource(p, m, None) for p, m in sources_for(u, vm, mode)]
        try:
            if use_recheck and prev_vm is not None and server.fine_grained_manager and mode != "normal-root":
                prev = {p for p, _ in sources_for(u, prev_vm, mode)}
                cur = {p for p, _ in sources_for(u, vm, mode)}
                ch_p = hist[-1][0]
                upd = sorted((cur - prev) | ({_strip(ch_p)} & cur))
                rem = sorted(prev - cur)
                r = server.cmd_recheck(False, -1, False, remove=rem or None, update=upd or None)
            else:
                r = server.check(srcs, False, False, -1)
        except BaseException as e:  # noqa: BLE001
            import traceback

            emit({"hist": [list(h) for h in hist], "crash": f"{type(e).__name__}: {e}\n{traceback.format_exc()}"})
            return False
        out = (r.get("out") or "") + (r.get("err") or "")
        fgm = server.fine_grained_manager
        info = {}
        if fgm is not None:
            info = {"updated": len(getattr(fgm, "updated_modules", []) or []),
                    "targets": len(getattr(fgm, "processed_targets", []) or []),
                    "triggered": len(getattr(fgm, "triggered", []) or [])}
        emit({"hist": [list(h) for h in hist], "vm": sorted(vm.items()),
              "resp": {"out": out.splitlines(), "status": r.get("status"), "error": r.get("error")}, "info": info})
        return True

    # walk the prefix (recording only its last node: shorter prefixes belong to other items)
    # the daemon's first check always happens on the initial files (cache-start: after the first edit)
    ok = check(prefix[:done], None)
    for i in range(done, len(prefix)):
        prev_vm = dict(vm)
        p, v = prefix[i]
        vm[p] = v
        mts[p] = BASE_TIME + 10 * (i + 1)
        _set_file(root, u, p, v, mts[p])
        if not ok:
            break
        if i == len(prefix) - 1:
            ok = check(prefix[: i + 1], prev_vm)
        else:
            ok = _silent(check, prefix[: i + 1], prev_vm)

    def explore(hist: tuple, left: int) -> None:
        if left <= 0:
            return
        for e in al:
            h2 = hist + (e,)
            if not legal(u, h2):
                continue
            p, v = e
            pid = os.fork()
            if pid == 0:
                code = 0
                try:
                    prev_vm = dict(vm)
                    vm[p] = v
                    mts[p] = BASE_TIME + 10 * len(h2)
                    _set_file(root, u, p, v, mts[p])
                    if check(h2, prev_vm):
                        explore(h2, left - 1)
                except BaseException:  # noqa: BLE001
                    code = 3
                finally:
                    os._exit(code)
            os.waitpid(pid, 0)
            _set_file(root, u, p, vm[p], mts[p])  # restore the one file the child's subtree changed

    if ok:
        explore(prefix, depth - len(prefix))
    os.close(rfd)
    with open(resfile) as f:
        recs = [json.loads(line) for line in f if line.strip()]
    os.remove(resfile)
    return recs


def _silent(check, hist, prev_vm=None) -> bool:
    """Run a prefix step whose comparison belongs to another item (still must not crash)."""
    import io

    return check.__call__(hist, prev_vm) if False else _check_noemit(check, hist, prev_vm)


def _check_noemit(check, hist, prev_vm) -> bool:
    # the record is emitted anyway; the caller de-duplicates by history (cheap and keeps one code path)
    return check(hist, prev_vm)


COLD_TABLE: dict[tuple, dict] = {}  # (uname, mode, sorted vm items) -> cold result; filled by run() before forking


def all_states(u) -> list[dict[str, int]]:
    import itertools

    paths = _paths(u)
    roots = {p for p, _m in u.sources[0]}
    out = []
    for combo in itertools.product(*[range(len(u.files[p])) for p in paths]):
        vm = dict(zip(paths, combo))
        if any(u.files[p][vm[p]] is None for p in roots):
            continue
        out.append(vm)
    return out


def _cold_item(args: tuple) -> dict:
    uname, mode, vm_items = args
    root = scratch("c03", f"cold{os.getpid()}", "tmp")
    shutil.rmtree(root, ignore_errors=True)
    return _cold_with_files((root, uname, dict(vm_items), mode))


def history_signature(u, uname: str, hist: tuple, fallback: str) -> str:
    """Cause-level grouping: a history in which some file appears or disappears is attributed to
    that presence change (which module file came/went), otherwise to the message difference."""
    cur = {p: 0 for p in _paths(u)}
    changed = set()
    for p, v in hist:
        if (u.files[p][cur[p]] is None) != (u.files[p][v] is None):
            changed.add(_strip(p))
        cur[p] = v
    if fallback.split("|", 1)[1] == '-error: Unused "type: ignore" comment  [unused-ignore]':
        return fallback  # one recognisable cause whatever the edit that triggered the re-check
    if changed:
        return f"{uname}|file-appears-or-disappears:{'+'.join(sorted(changed))}"
    return fallback


def run_subtree(item: tuple) -> dict:
    """item = (uname, mode, use_recheck, prefix, depth).  Executes the subtree on the real daemon, then
    compares every node's response with a non-incremental build of that node's files."""
    uname, mode, use_recheck, prefix, depth = item
    u = universes.ALL[uname]
    out = {"n": 0, "nontrivial": 0, "violations": [], "samples": [], "herr": [], "outcomes": set(), "order_only": 0,
           "steps": 0, "multi_blocker_accepted": 0}
    root = scratch("c03", f"w{os.getpid()}", "tmp")
    try:
        recs = run_isolated(daemon_tree, (root, uname, mode, use_recheck, prefix, depth), timeout=1800)
    except ExecError as e:
        out["herr"].append(f"subtree {item} failed: {e.kind} {e.info[-400:]}")
        return _fin(out)
    cold_memo: dict[tuple, dict] = {}
    seen_h = set()
    for rec in recs:
        hist = tuple((p, v) for p, v in rec["hist"])
        if hist in seen_h or len(hist) < len(prefix):
            continue
        seen_h.add(hist)
        out["steps"] += 1
        if "crash" in rec:
            out["n"] += 1
            info = rec["crash"]
            last = info.strip().splitlines()[0][:160]
            out["violations"].append({
                "signature": f"{uname}|daemon-crash:{_crash_sig(info)}",
                "what": f"{uname} {mode} history {[f'{p}={v}' for p, v in hist]}: daemon raised: {last}",
                "detail": {"universe": uname, "history": [list(h) for h in hist], "mode": mode,
                           "recheck": use_recheck, "error": info[-3000:]}})
            continue
        final = dict((p, v) for p, v in rec["vm"])
        key = (tuple(sorted(final.items())), mode)
        pre = COLD_TABLE.get((uname, "normal-root" if mode == "normal-root" else "error-all", key[0]))
        if pre is not None:
            cold_memo[key] = pre
        if key not in cold_memo:
            try:
                cold_memo[key] = run_isolated(_cold_with_files, (root, uname, final, mode), timeout=300)
            except ExecError as e:
                out["herr"].append(f"cold failed {uname} {hist} {mode}: {e.kind} {e.info[-300:]}")
                continue
        cold = cold_memo[key]
        got = rec["resp"]
        out["n"] += 1
        if got.get("error"):
            out["herr"].append(f"daemon error response {uname} {hist}: {got['error']}")
            continue
        exp_status = 0
        if cold["out"]:
            exp_status = 2 if cold["blocker"] else (1 if any(": error:" in l for l in cold["out"]) else 0)
        eq, oo = same_diagnostics(got["out"], cold["out"])
        if not eq and cold["blocker"] and got["status"] == 2 and got["out"]:
            # Several files have a blocking error at once: WHICH one a fresh run reports depends on the
            # order it meets the files in, which the property does not fix.  Accept the daemon's answer iff
            # every line is a blocker line some fresh run reports (all orders of all present files).
            akey = (tuple(sorted(final.items())), "blocker-lines")
            if akey not in cold_memo:
                import itertools

                for p, v in final.items():
                    _set_file(root, u, p, v, BASE_TIME)
                allsrc = sources_for(u, final, "error-all")
                lines: set[str] = set()
                for perm in itertools.permutations(allsrc):
                    try:
                        r = run_isolated(cold_run_sources, (root, uname, list(perm)), timeout=300)
                    except ExecError:
                        continue
                    if r["blocker"]:
                        lines.update(r["out"])
                cold_memo[akey] = {"lines": lines}
            if set(got["out"]) <= cold_memo[akey]["lines"]:
                eq = True
                out["multi_blocker_accepted"] += 1
        if oo:
            out["order_only"] += 1
        out["outcomes"].add(tuple(cold["out"]))
        inf = rec.get("info") or {}
        n_mod = sum(1 for p in final if u.files[p][final[p]] is not None)
        nontriv = bool(hist) and inf.get("updated", 99) < n_mod + 3 and inf.get("targets", 0) > 0
        if nontriv:
            out["nontrivial"] += 1
        if len(out["samples"]) < 2 and len(hist) >= 2 and cold["out"]:
            out["samples"].append({"universe": uname, "mode": mode, "history": [f"{p}={v}" for p, v in hist],
                                   "response": got["out"][:3], "info": inf})
        if not eq or (got["status"] != exp_status):
            cg, cc = Counter(got["out"]), Counter(cold["out"])

            def texts(lines_: list[str], sign: str) -> list[str]:
                out_ = set()
                for ln in lines_:
                    t = ln.split(": ", 1)[1] if ": " in ln else ln
                    if t.startswith("note: See https://"):
                        continue
                    out_.add(sign + t)
                return sorted(out_)

            extra = texts(sorted((cg - cc).elements()), "+")
            missing = texts(sorted((cc - cg).elements()), "-")
            sig = f"{uname}|" + "|".join((extra + missing)[:3])
            if eq:
                sig = f"{uname}|status:{got['status']}!={exp_status}"
            elif not extra and not missing:
                sig = f"{uname}|order-within-file"
            sig = history_signature(u, uname, hist, sig)
            out["violations"].append({
                "signature": sig,
                "what": f"{uname} {mode}{' recheck' if use_recheck else ''} history {[f'{p}={v}' for p, v in hist]}: "
                        f"daemon={got['out'][:3]} status={got['status']} full={cold['out'][:3]} status={exp_status}",
                "detail": {"universe": uname, "history": [list(h) for h in hist], "mode": mode, "recheck": use_recheck,
                           "daemon": got, "cold": cold}})
    return _fin(out)


def _fin(out: dict) -> dict:
    out["outcomes"] = len(out["outcomes"])
    return out


def _cold_with_files(args: tuple) -> dict:
    root, uname, final, mode = args
    u = universes.ALL[uname]
    os.makedirs(root, exist_ok=True)
    for p, v in final.items():
        _set_file(root, u, p, v, BASE_TIME)
    if u.fixture and not os.path.exists(os.path.join(root, "builtins.pyi")):
        shutil.copyfile(os.path.join(drivers.FIXTURES, u.fixture), os.path.join(root, "builtins.pyi"))
    return cold_run((root, uname, final, mode))


def _crash_sig(info: str) -> str:
    lines = [l for l in info.strip().splitlines() if l.strip()]
    exc = lines[0][:80] if lines else "?"
    loc = ""
    for l in reversed(lines):
        if l.strip().startswith('File "/repo/'):
            loc = l.strip().split(",")[0].replace('File "/repo/', "").rstrip('"') + ":" + l.strip().split(" in ")[-1]
            break
    return f"{exc.split(':')[0]}@{loc}"


def histories(u, depth: int) -> list[tuple]:
    al = alphabet(u)
    out: list[tuple] = [()]
    frontier: list[tuple] = [()]
    for _d in range(depth):
        nxt = []
        for h in frontier:
            for e in al:
                h2 = h + (e,)
                if legal(u, h2):
                    nxt.append(h2)
        out.extend(nxt)
        frontier = nxt
    return out



def selftest_tree_vs_chain(items: list[tuple]) -> None:
    """Replay self-test: the fork-cloned tree must observe exactly what a straight-line replay of the
    same history on a fresh daemon observes (else nondeterminism/harness state is not owned)."""
    picked = [it for it in items if it[3] and it[1] != "cache-start" and not it[2]][:2]
    for uname, mode, use_recheck, prefix, _d in picked:
        root = scratch("c03", "selftest", "tmp")
        recs = run_isolated(daemon_tree, (root, uname, mode, use_recheck, prefix, len(prefix) + 1), timeout=600)
        checked = 0
        for rec in recs:
            hist = tuple((p, v) for p, v in rec["hist"])
            if len(hist) != len(prefix) + 1 or "resp" not in rec:
                continue
            d = run_isolated(daemon_history, (root, uname, hist, mode, use_recheck), timeout=600)
            if d["resps"][-1]["out"] != rec["resp"]["out"] or d["resps"][-1]["status"] != rec["resp"]["status"]:
                raise RuntimeError(f"self-test failed: tree and chain replay differ for {uname} {mode} {hist}: "
                                   f"{rec['resp']} vs {d['resps'][-1]}")
            checked += 1
            if checked >= 4:
                break
        if not checked:
            raise RuntimeError("self-test vacuous")


def first_edits(u) -> list[tuple]:
    return [e for e in alphabet(u) if legal(u, (e,))]


def run(ctx: Ctx, only: list[str] | None = None) -> Result:
    if ctx.quick:
        plan = [("U1", 3, MODES[:2]), ("U2", 3, MODES[:2]), ("U3", 3, MODES[:2]), ("U4b", 3, MODES[:2]),
                ("U5", 3, MODES[:2]), ("U6", 3, MODES[:2]), ("U8", 3, MODES[:2]), ("U9", 3, MODES[:2]),
                ("U2", 2, MODES[2:]), ("U9", 2, MODES[2:]), ("U6", 2, MODES[2:])]
    else:
        plan = [("U1", 4, MODES), ("U2", 5, MODES), ("U3", 5, MODES), ("U4", 4, MODES), ("U4b", 5, MODES),
                ("U5", 4, MODES), ("U6", 5, MODES), ("U8", 4, MODES), ("U9", 4, MODES)]
    if only:
        plan = [p for p in plan if p[0] in only]
    items: list[tuple] = []
    bounds: dict[str, int] = {}
    for uname, depth, modes in plan:
        u = universes.ALL[uname]
        for mode in modes:
            variants = [False] + ([True] if mode == "error-all" else [])
            for use_recheck in variants:
                d = depth if not use_recheck or ctx.thorough else min(depth, 2)
                bounds[f"{uname}/{mode}{'+recheck' if use_recheck else ''}"] = d
                if mode != "cache-start":
                    items.append((uname, mode, use_recheck, (), 0))  # the root node alone
                for e in first_edits(u):
                    items.append((uname, mode, use_recheck, (e,), d))
    items = seeded_order(items, ctx.seed)
    tot: Counter = Counter()
    violations: list[Violation] = []
    samples: list[Any] = []
    herr: list[str] = []
    per: Counter = Counter()
    # cold oracle for every file state of every universe, computed once (memo shared by all subtrees)
    cold_jobs = []
    for uname in sorted({it[0] for it in items}):
        for mode in ("error-all", "normal-root"):
            if any(it[0] == uname and (it[1] == mode or (mode == "error-all" and it[1] == "cache-start")) for it in items):
                for vm in all_states(universes.ALL[uname]):
                    cold_jobs.append((uname, mode, tuple(sorted(vm.items()))))
    for _i, job, st, val in pmap(_cold_item, cold_jobs, fresh=True, timeout=600):
        if st == "ok":
            COLD_TABLE[job] = val
        else:
            herr.append(f"cold oracle failed for {job}: {val}")
    tot["cold_oracle_runs"] = len(COLD_TABLE)
    selftest_tree_vs_chain(items)
    for _i, item, st, val in pmap(run_subtree, items, fresh=False, timeout=3600):
        if st != "ok":
            herr.append(f"item {item} failed: {val}")
            continue
        for k in ("n", "nontrivial", "order_only", "steps", "multi_blocker_accepted"):
            tot[k] += val[k]
        per[f"{item[0]}/{item[1]}{'+recheck' if item[2] else ''}"] += val["n"]
        tot["outcomes"] = max(tot["outcomes"], val["outcomes"])
        for v in val["violations"]:
            violations.append(Violation(v["signature"], v["what"], v["detail"]))
        if len(samples) < 5:
            samples.extend(val["samples"][:1])
        herr.extend(val["herr"])
    if not only and (tot["n"] < 100 or tot["nontrivial"] < 20):
        raise RuntimeError(f"vacuous exploration: {dict(tot)}")
    cov = {
        "states": tot["n"], "transitions": tot["steps"], "traces_validated_against_impl": tot["n"],
        "evaluations": tot["n"], "distinct_nontrivial": tot["nontrivial"],
        "rule": "node = one edit history (single-file edits: set file to variant, incl. delete/create), each edit followed "
                "by a real Server.check/cmd_recheck; every node's response is compared with a non-incremental build.build "
                "of that node's files; non-trivial iff the update re-processed targets without re-processing every module",
        "histories_per_universe_mode": dict(per), "depth_bound_per_universe_mode": bounds,
        "cold_oracle_runs": tot["cold_oracle_runs"], "replay_selftest": "tree vs straight-line replay identical",
        "order_only_differences": tot["order_only"], "multi_blocker_states_accepted": tot["multi_blocker_accepted"],
        "exhaustive": True, "samples": samples[:5],
        "bounds": "ALL legal histories up to the depth bound per universe/mode (history tree explored by fork-cloning the "
                  "live daemon at every node; no state merging)",
    }
    return Result(PROPERTY, LEVEL, cov, violations, assumptions=[
        "fixture stubs on both sides; mtimes owned (monotone clock: +10 s per step)",
        "server options as the daemon forces them (local_partial_types); oracle uses the same options non-incrementally",
        "when several files carry a blocking error at once, any blocker a fresh run reports for some file order is accepted",
    ], harness_errors=herr)


def replay(ctx: Ctx, rec: dict) -> Result:
    d = rec["detail"]
    hist = tuple((p, v) for p, v in d["history"])
    out = run_subtree((d["universe"], d["mode"], d.get("recheck", False), hist, len(hist)))
    vs = [Violation(v["signature"], v["what"], {}) for v in out["violations"]
          if [list(h) for h in hist] == v["detail"]["history"]]
    for v in vs:
        print(v.what)
    return Result(PROPERTY, LEVEL, {}, vs)
