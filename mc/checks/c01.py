"""C01 — accepted programs do not go wrong (S3: bounded-exhaustive program enumeration).

Every function of the finite grammar in mc/c01_gen.py (families F1 narrowing, F2 operators,
F3 calls/generics/overloads, F4 joins, F5 classes/dataclasses/enums/protocols, F6 control flow) is
type-checked by the REAL mypy.build.build against the bundled typeshed (export_types,
preserve_asts), ~300 functions per module.  Every function mypy accepts (no diagnostic in its line
span) is then executed by CPython on EVERY tuple of the per-type value domains with a recording
identity `probe(i, x)`.  Oracle (mc/c01_run.py, mc/c01_member.py):

  (a) no TypeError / AttributeError whose innermost traceback frame is program code;
  (b) every executed probe value is a member of the static type mypy recorded for that expression
      (structural membership with PEP 484 numeric promotion; undecidable -> counted, not flagged);
  (c) no executed probe lacks a type-map entry (= mypy treated the code as unreachable).

Rejected members of the enumeration are the "single-edit ill-typed perturbations": counted, not run.
"""

from __future__ import annotations

import os
import re
import shutil
import subprocess
import sys
import time
from collections import Counter
from typing import Any

from mc import c01_gen as gen
from mc import c01_run as runner
from mc.common import Ctx, Result, Violation, log, scratch, seeded_order
from mc.kernel import chunked, pmap, run_isolated

PROPERTY = "C01"
LEVEL = "exploration"

BATCH = 300
BATCH_F5 = 30
ITEM_TIMEOUT = 2400.0
MAX_CLI_CONFIRMATIONS = 80
MAX_DETAILS_PER_SIGNATURE = 2

QUICK_FAMILIES = ["F1", "F2", "F4", "F3", "F6", "F5"]
THOROUGH_FAMILIES = ["F1full", "F2", "F4", "F3", "F6", "F5", "F1p"]

FAMILY_DOC = {
    "F1": "narrowing, single guards: declared type x guard x context shape x use (use enumerated only where the "
          "declared type or the guard's class supports it)",
    "F1full": "narrowing, single guards: the complete product declared type x guard x context shape x use "
              "(no applicability pruning; superset of F1)",
    "F1p": "narrowing, ordered guard pairs (g1 and g2 / g1 or g2 / nested g1 then g2), probe use",
    "F2": "operators: unary x type, binary x ordered type pair, augmented assignment x ordered type pair "
          "(str % x and **= not enumerated: typeshed types them with Any)",
    "F3": "calls: generic / bounded / constrained TypeVar functions, overloads, defaults, *args/**kwargs, builtin "
          "generics; unary forms x type, binary forms x ordered type pair",
    "F4": "joins: ternary, list / dict / tuple displays, star unpacking, and / or, lambda, dict.get for every "
          "ordered type pair",
    "F5": "classes: 3-level hierarchy (covariant override, property, class vs instance attribute, classmethod), "
          "dataclasses, Enum / IntEnum / Flag, protocols",
    "F6": "control flow: statement templates x every assignment of actions (pass, y = x, y = W(), NoReturn call, "
          "return, raise, may-raise call, break, continue) to their slots, probes inside and after",
}

# --------------------------------------------------------------------------- signatures

_DECL_FAMILY = {
    "int": "int", "bool": "int", "Optional[int]": "int", "A|int": "int", "int|str": "int", "int|str|None": "int",
    "float": "float", "complex": "float", "float|None": "float|None",
    "Literal[1,2]": "Literal", 'Literal["a","b"]': "Literal",
}


def decl_family(t: str) -> str:
    return _DECL_FAMILY.get(t, t)


def raw_signature(v: dict) -> str:
    """Cause-level identity: family | failed clause | guard FORM (or operator / callee / template) | declared
    type family.  Context shape, use, argument values and probe numbers are manifestations, not causes."""
    fam, clause, key = v["fam"], v["clause"], v["key"]
    if clause == "a" and str(v.get("value", "")).startswith("TypeError: unhashable type"):
        return f"{fam}|a|unhashable-operand"
    if fam == "F1":
        tname, shape = key[0], key[2]
        if shape.startswith("pair-"):
            return f"F1|{clause}|{shape}:{v.get('form', '')}|{decl_family(tname)}"
        return f"F1|{clause}|{v.get('form', key[1])}|{decl_family(tname)}"
    if fam == "F2":
        return f"F2|{clause}|{key[0]} {key[1]}|" + ",".join(key[2:])
    if fam == "F3":
        return f"F3|{clause}|{key[0]}|" + ",".join(decl_family(t) for t in key[1:])
    if fam == "F4":
        return f"F4|{clause}|{key[0]}|" + ",".join(key[1:])
    if fam == "F5":
        return f"F5|{clause}|{key[0]}|{key[1]}"
    if fam == "F6":
        return f"F6|{clause}|{key[0]}|" + ",".join(key[2:])
    return f"{fam}|{clause}|" + ",".join(map(str, key))


def assign_signatures(viols: list[dict]) -> None:
    """Adds v["signature"].  In a guard PAIR the second guard works on the type narrowed by the first, so
    the declared type is not the cause-level coordinate any more.  A pair violation is therefore
    attributed to the single-guard signature of one of its two guard forms (inner form first) that
    fails the same clause - or clause (c), of which (a)/(b) are consequences - in this run, preferring
    the pair's own declared-type family; only a pair neither of whose forms violates alone keeps a
    signature of its own (a cause that needs two guards)."""
    singles: dict[tuple[str, str], list[str]] = {}  # (clause, form) -> families (enumeration order)
    for v in viols:
        if not (v["fam"] == "F1" and v["key"][2].startswith("pair-")):
            v["signature"] = raw_signature(v)
            if v["fam"] == "F1":
                _f, cl, form, famname = v["signature"].split("|", 3)
                lst = singles.setdefault((cl, form), [])
                if famname not in lst:
                    lst.append(famname)
    for v in viols:
        if "signature" in v:
            continue
        famname = decl_family(v["key"][0])
        forms = v.get("form", "+").split("+", 1)[::-1]
        for cl in (v["clause"], "c"):
            for f in forms:
                fams = singles.get((cl, f))
                if fams:
                    v["signature"] = f"F1|{v['clause']}|{f}|{famname if famname in fams else fams[0]}"
                    break
            if "signature" in v:
                break
        else:
            v["signature"] = raw_signature(v)


# --------------------------------------------------------------------------- pool plumbing


def _warm(_: Any) -> str:
    root = scratch("c01", "warm")
    text, _spans, _pl = gen.render_module([])
    msgs, _res = runner.build_module(text, "c01warm", os.path.join(root, "cache"), root)
    if msgs:
        raise RuntimeError(f"mypy rejects the C01 prelude: {msgs[:5]}")
    return os.path.join(root, "cache")


def _specs_for(fams: list[str]) -> list[dict]:
    out: list[dict] = []
    for f in fams:
        specs = gen.FAMILIES[f]()
        for k, s in enumerate(specs):
            s["eid"] = f"{f}:{k}"
            s["efam"] = f
        out.extend(specs)
    return out


def _jobs(specs: list[dict], cache: str) -> list[dict]:
    jobs: list[dict] = []
    by_fam: dict[str, list[dict]] = {}
    for s in specs:
        by_fam.setdefault(s["efam"], []).append(s)
    for fam, lst in by_fam.items():
        for c in chunked(lst, BATCH_F5 if fam == "F5" else BATCH):
            n = len(jobs)
            jobs.append({"specs": list(c), "cache": cache, "work": scratch("c01", f"b{n}"), "modname": f"c01m{n}",
                         "efam": fam, "n": n})
    return jobs


def _run_job(job: dict) -> dict:
    try:
        return runner.run_batch(job)
    finally:
        shutil.rmtree(job["work"], ignore_errors=True)


# --------------------------------------------------------------------------- CLI confirmation lane


def _rewrite_probes(src: str) -> tuple[str, dict[int, list[int]]]:
    """probe(i, E) -> probe(i, reveal_type(E)); returns (text, {relative line: [probe ids]})."""
    out_lines = []
    where: dict[int, list[int]] = {}
    for ln_no, ln in enumerate(src.split("\n")):
        res = ""
        pos = 0
        while True:
            m = re.search(r"\bprobe\((\d+), ", ln[pos:])
            if not m:
                res += ln[pos:]
                break
            start = pos + m.end()
            depth, k = 1, start
            while k < len(ln) and depth:
                if ln[k] in "([{":
                    depth += 1
                elif ln[k] in ")]}":
                    depth -= 1
                k += 1
            inner = ln[start:k - 1]
            inner2, _ = _rewrite_probes(inner) if "probe(" in inner else (inner, {})
            res += ln[pos:start] + "reveal_type(" + inner2 + "))"
            where.setdefault(ln_no, []).append(int(m.group(1)))
            pos = k
        out_lines.append(res)
    return "\n".join(out_lines), where


def _cli_warm(_: Any) -> str:
    root = scratch("c01", "cliwarm")
    with open(os.path.join(root, "w.py"), "w") as f:
        f.write(gen.PRELUDE)
    env = dict(os.environ, PYTHONPATH="/repo")
    env.pop("PYTHON_MYPY_VERIF", None)
    p = subprocess.run([sys.executable, "-m", "mypy", "--cache-dir", os.path.join(root, "cache"), "w.py"], cwd=root,
                       env=env, capture_output=True, text=True, timeout=1200)
    if p.returncode != 0:
        raise RuntimeError("real CLI rejects the prelude: " + p.stdout[-500:] + p.stderr[-500:])
    return os.path.join(root, "cache")


def _cli_confirm(item: dict) -> dict:
    """Real `python -m mypy --warn-unreachable` + real `python file.py` on ONE violating function."""
    v, clicache, n = item["v"], item["cache"], item["n"]
    root = scratch("c01", f"cli{n}")
    try:
        shutil.copytree(clicache, os.path.join(root, "cache"))
        spec = v["spec"]
        text, spans, _pl = gen.render_module([spec])
        lines = text.split("\n")
        a, b = spans[0]
        fsrc, where = _rewrite_probes("\n".join(lines[a - 1:b]))
        head = "\n".join(lines[:a - 1]).replace("TypeVar, Union, overload, assert_never)",
                                                "TypeVar, Union, overload, assert_never, reveal_type)")
        args = ", ".join(x if "§" not in x else x.replace("§", "0") for x in v["args"])
        if "recv" in spec:
            args = ", ".join(spec["recv"][1][[r.replace("§", "") for r in spec["recv"][1]].index(x)].replace("§", "0")
                             for x in v["args"])
        driver = ("\n\nif __name__ == '__main__':\n"
                  "    def _p(i: int, v: object) -> object:\n"
                  "        print('PROBE', i, repr(v))\n"
                  "        return v\n"
                  "    globals()['probe'] = _p\n"
                  f"    f0({args})\n")
        body = head + "\n" + fsrc + driver
        with open(os.path.join(root, "case.py"), "w") as f:
            f.write(body)
        env = dict(os.environ, PYTHONPATH="/repo")
        env.pop("PYTHON_MYPY_VERIF", None)
        p = subprocess.run([sys.executable, "-m", "mypy", "--cache-dir", os.path.join(root, "cache"),
                            "--warn-unreachable", "case.py"], cwd=root, env=env, capture_output=True, text=True,
                           timeout=1200)
        notes: dict[int, list[str]] = {}
        unreachable_lines, other_errors = [], []
        for ln in p.stdout.splitlines():
            m = re.match(r"^case\.py:(\d+): (error|note): (.*)$", ln)
            if not m:
                continue
            no, kind, msg = int(m.group(1)), m.group(2), m.group(3)
            if kind == "note" and msg.startswith("Revealed type is"):
                notes.setdefault(no, []).append(msg[len('Revealed type is "'):-1])
            elif kind == "error" and ("[unreachable]" in msg or "never evaluated" in msg or "[redundant-expr]" in msg):
                unreachable_lines.append(no)
            elif kind == "error":
                other_errors.append(ln)
        q = subprocess.run([sys.executable, "case.py"], cwd=root, capture_output=True, text=True, timeout=300)
        probes_run = [ln for ln in q.stdout.splitlines() if ln.startswith("PROBE ")]
        last_err = [ln for ln in q.stderr.splitlines() if re.match(r"^[A-Za-z]+Error\b", ln)][-1:]
        base = head.count("\n") + 2  # file line of fsrc line 0
        accepted = p.returncode in (0, 1) and not other_errors
        out: dict[str, Any] = {"mypy_accepts": accepted, "mypy_other_errors": other_errors[:2],
                               "mypy_unreachable_lines": len(unreachable_lines), "python_probes": probes_run[:6],
                               "python_error": last_err}
        clause = v["clause"]
        if clause == "a":
            out["confirmed"] = accepted and bool(last_err) and last_err[0].split(":")[0] in ("TypeError", "AttributeError")
        else:
            pid = v["probe"]
            rel = [r for r, ids in where.items() if pid in ids]
            fline = base + rel[0] if rel else -1
            nprobe = len(where.get(rel[0], [])) if rel else 0
            got = notes.get(fline, [])
            ran = any(ln.startswith(f"PROBE {pid} ") for ln in probes_run)
            out["revealed_at_probe"] = got
            if clause == "c":
                raised = str(v["value"]).split(":")[0] in ("TypeError", "AttributeError")
                ran = ran or (raised and bool(last_err) and last_err[0].split(":")[0] == str(v["value"]).split(":")[0])
                out["confirmed"] = accepted and ran and len(got) < nprobe and bool(unreachable_lines)
            else:
                val_ok = any(ln == f"PROBE {pid} " + str(v["value"]) or
                             re.sub(r" at 0x[0-9a-f]+", "", ln).replace("__main__.", "m.") == f"PROBE {pid} " + str(v["value"])
                             for ln in probes_run)
                static = str(v["static"]).replace("builtins.", "")
                rev = [g.replace("builtins.", "").replace("case.", "") for g in got]
                out["confirmed"] = accepted and ran and val_ok and (static in rev or len(rev) == 1)
                out["static_matches_cli"] = static in rev
        return out
    finally:
        shutil.rmtree(root, ignore_errors=True)


# --------------------------------------------------------------------------- run


def run(ctx: Ctx, families: list[str] | None = None, confirm: bool = True, select: Any = None) -> Result:
    """families / select (a predicate on specs) restrict the enumeration; used by detection drivers only
    (a restricted run reports exhaustive relative to the restricted space and is never the recorded evidence)."""
    fams = families or (QUICK_FAMILIES if ctx.quick else THOROUGH_FAMILIES)
    t0 = time.time()
    cache = run_isolated(_warm, 0, timeout=1800)
    specs = _specs_for(fams)
    if select is not None:
        specs = [s for s in specs if select(s)]
    jobs = _jobs(specs, cache)
    order = seeded_order(list(range(len(jobs))), ctx.seed)
    log(f"C01: {len(specs)} functions in {len(jobs)} modules, families {fams} (warm-up {time.time() - t0:.1f}s)")
    results: dict[int, dict] = {}
    herr: list[str] = []
    for _i, job, st, val in pmap(_run_job, [jobs[k] for k in order], fresh=True, timeout=ITEM_TIMEOUT):
        if st != "ok":
            herr.append(f"module {job['n']} ({job['efam']}, {len(job['specs'])} functions): {val[0]}: {str(val[1])[-600:]}")
            continue
        results[job["n"]] = val
    per_fam: dict[str, Counter] = {f: Counter() for f in fams}
    tot: Counter = Counter()
    outcomes: Counter = Counter()
    undecided: Counter = Counter()
    rejected_msgs: Counter = Counter()
    static_types: set[str] = set()
    samples: list[dict] = []
    raw: list[dict] = []
    for n in sorted(results):
        val, fam = results[n], jobs[n]["efam"]
        per_fam[fam].update(val["stats"])
        tot.update(val["stats"])
        outcomes.update(val["outcomes"])
        undecided.update(val["undecided_types"])
        rejected_msgs.update(val["rejected_msgs"])
        static_types.update(val["static_types"])
        if len([s for s in samples if s["family"] == fam]) < 1 and val["samples"]:
            samples.append(dict(val["samples"][0], family=fam))
        for v in val["violations"]:
            if "harness" in v:
                herr.append(v["harness"])
            else:
                raw.append(v)
    assign_signatures(raw)
    by_sig: dict[str, list[dict]] = {}
    for v in raw:
        by_sig.setdefault(v["signature"], []).append(v)

    # vacuity gates
    vac = []
    if tot["accepted"] == 0 or tot["rejected"] == 0:
        vac.append("no accepted or no rejected function")
    if tot["nontrivial"] < 2:
        vac.append("no accepted function whose probe type differs from the declared type")
    if tot["probe_observations"] == 0 or tot["obs_ok-full"] == 0:
        vac.append("no probe observation was decided")
    if len(static_types) < 10:
        vac.append("fewer than 10 distinct static probe types")
    for f in fams:
        if per_fam[f]["executed_functions"] == 0 and not any(f in h for h in herr):
            vac.append(f"family {f}: nothing executed")
    if vac:
        raise RuntimeError("vacuous exploration: " + "; ".join(vac))

    # CLI confirmation of the first (simplest) violation of every signature
    cli: dict[str, Any] = {}
    if confirm and by_sig:
        sigs = sorted(by_sig)[:MAX_CLI_CONFIRMATIONS]
        try:
            clicache = run_isolated(_cli_warm, 0, timeout=1800)
            items = [{"v": by_sig[s][0], "cache": clicache, "n": k} for k, s in enumerate(sigs)]
            for k, _item, st, val in pmap(_cli_confirm, items, fresh=False, timeout=ITEM_TIMEOUT):
                cli[sigs[k]] = val if st == "ok" else {"confirmed": None, "error": str(val)[-300:]}
                if st != "ok":
                    herr.append(f"CLI confirmation failed for {sigs[k]}: {str(val)[-300:]}")
        except Exception as e:  # noqa: BLE001
            herr.append(f"CLI confirmation lane failed: {e}")

    violations: list[Violation] = []
    for sig in sorted(by_sig, key=lambda s: (by_sig[s][0]["spec"]["efam"], int(by_sig[s][0]["spec"]["eid"].split(":")[1]))):
        vs = by_sig[sig]
        for v in vs[:MAX_DETAILS_PER_SIGNATURE]:
            what = (f"clause ({v['clause']}) {v['fam']} {v['key']} args={v['args']}: "
                    + (f"{v['value']}" if v["clause"] == "a" else
                       f"probe {v['probe']} value {v['value']} vs static {v['static']}")
                    + f" [{len(vs)} occurrences]")
            violations.append(Violation(sig, what, {
                "clause": v["clause"], "key": v["key"], "args": v["args"], "probe": v["probe"], "value": v["value"],
                "static": v["static"], "source": v["source"], "spec": v["spec"], "occurrences": len(vs),
                "cli": cli.get(sig)}))

    n_exec = sum(per_fam[f]["functions"] for f in fams)
    fam_cov = {}
    for f in fams:
        c = per_fam[f]
        fam_cov[f] = {"what": FAMILY_DOC[f], "functions": c["functions"], "accepted": c["accepted"],
                      "rejected_not_executed": c["rejected"], "calls": c["calls"],
                      "probe_observations": c["probe_observations"], "nontrivial": c["nontrivial"],
                      "membership_failures": c["obs_not-member"], "unreachable_executions": c["obs_unreachable"],
                      "undecided": c["obs_undecided"], "outside_fragment_any": c["accepted_outside_fragment_any"]}
    expected_modules = len(jobs)
    cov = {
        "evaluations": int(n_exec), "distinct_nontrivial": int(tot["nontrivial"]),
        "rule": "one evaluation = one generated function type-checked by the real mypy.build.build (bundled typeshed) "
                "and, if accepted, executed on every argument tuple of its value domains; non-trivial = accepted and "
                "executed and some executed probe has a static type different from every declared parameter type "
                "(F1: the guard narrowed) / different from object (other families: the operator / call / join "
                "resolved to a proper result); functions are distinct by construction (distinct grammar coordinates)",
        "exhaustive": bool(len(results) == expected_modules), "modules": expected_modules,
        "modules_completed": len(results), "families": fam_cov,
        "sizes": {"F1_types": len(gen.F1_TYPES), "F1_guards": len(gen.GUARDS), "F1_shapes": len(gen.SHAPES),
                  "F1_uses": len(gen.USE_ORDER), "F2_types": len(gen.F2_TYPES), "F2_binary_ops": len(gen.BINOPS),
                  "F2_augmented_ops": len(gen.AUGOPS), "F2_unary_ops": len(gen.UNOPS), "F3_unary_forms": len(gen.F3_UNARY),
                  "F3_types": len(gen.F3_TYPES), "F3_binary_forms": len(gen.F3_BINARY),
                  "F3_binary_types": len(gen.F3_BIN_TYPES), "F4_forms": len(gen.F4_FORMS), "F4_types": len(gen.F4_TYPES),
                  "F5_cases": len(gen.F5_CASES), "F6_templates": len(gen.F6_TEMPLATES), "F6_types": len(gen.F6_TYPES)},
        "functions_accepted": tot["accepted"], "functions_rejected_not_executed": tot["rejected"],
        "calls_executed": tot["calls"], "probe_observations": tot["probe_observations"],
        "probe_observations_member_full": tot["obs_ok-full"], "probe_observations_member_class_only": tot["obs_ok-class-only"],
        "probe_observations_undecided": tot["obs_undecided"], "undecided_static_types": dict(undecided.most_common(8)),
        "membership_failures": tot["obs_not-member"], "unreachable_executions": tot["obs_unreachable"],
        "accepted_outside_fragment_any": tot["accepted_outside_fragment_any"],
        "unflagged_outside_fragment_any": tot["unflagged_outside_fragment_any"],
        "type_errors_raised_in_library_frames": tot["type_errors_raised_in_library_frames"],
        "static_probes": tot["probes_static"], "static_probes_never_executed": tot["probes_never_executed"],
        "distinct_static_probe_types": len(static_types), "runtime_outcomes": dict(outcomes),
        "top_rejection_messages": dict(rejected_msgs.most_common(6)),
        "violation_occurrences_by_signature": {s: len(vs) for s, vs in sorted(by_sig.items())},
        "cli_confirmations": {s: {"confirmed": c.get("confirmed"), "mypy_accepts": c.get("mypy_accepts"),
                                  "revealed_at_probe": c.get("revealed_at_probe"), "python_error": c.get("python_error"),
                                  "python_probes": (c.get("python_probes") or [])[:3]} for s, c in sorted(cli.items())},
        "samples": samples[:6],
        "bounds": f"tier {ctx.tier}: families {fams}; every function of each family enumerated, every argument tuple executed",
    }
    return Result(PROPERTY, LEVEL, cov, violations, assumptions=[
        "bundled typeshed (fixtures=False), default options plus export_types / preserve_asts; stdlib cache warmed once per run",
        "the runtime is the CPython running the check (3.12); value domains are certified by mypy itself (typed dom*() factories in the prelude)",
        "static type of a probe = result.types[call.args[1]]; for probes inside a `finally` body (checked twice by mypy) "
        "the union of the types recorded by both passes (store_type observed, nothing changed)",
        "a function in which mypy typed some expression as plain Any (typeshed) is outside the Any-free fragment: executed, counted, never flagged",
        "membership is structural and read-only: callable signatures and user-generic type arguments are not observable (class part only)",
        "outside the alphabet (DESIGN limits): user __eq__/__bool__/__instancecheck__, declared-but-unassigned attributes, "
        "aliasing mutation, nested-function capture, str % x, **=, max/min/sum over mixed types",
    ], harness_errors=herr)


def replay(ctx: Ctx, rec: dict) -> Result:
    d = rec["detail"]
    spec = d["spec"]
    cache = run_isolated(_warm, 0, timeout=1800)
    job = {"specs": [spec], "cache": cache, "work": scratch("c01", "replay"), "modname": "c01m0", "efam": spec["efam"], "n": 0}
    val = run_isolated(_run_job, job, timeout=ITEM_TIMEOUT)
    raw = [v for v in val["violations"] if "harness" not in v]
    for v in raw:
        v["signature"] = raw_signature(v)
    print(d["source"])
    out = []
    for v in raw:
        print(f"  clause ({v['clause']}) args={v['args']} probe={v['probe']} value={v['value']} static={v['static']}")
        if v["clause"] == d["clause"]:
            out.append(Violation(rec["signature"], f"clause ({v['clause']}) args={v['args']} value={v['value']} static={v['static']}", {}))
    return Result(PROPERTY, LEVEL, {}, out[:1])
