"""C20 — any input yields diagnostics, never an internal failure (S3 + S2; exploration).

Space: for every corpus program of the slice EVERY single structure-aware mutation (mc.c20_mutate):
kinds 1-3 (delete / duplicate / swap-with-next of each top-level or class-level statement); thorough
additionally kinds 4-8 (rename, retype, truncate, cyclic definitions, pairs of 1-3) on a sub-slice.
Plus, in both tiers, the placement lane (mc.c20_place, kind 9): every context-sensitive statement / expression of
a stated alphabet placed in every kind of suite (loop bodies and loop else, try/except/except*/else/finally, with,
if, match-case, def / async def / class, lambda, comprehensions, defaults, annotations, f-strings), nesting depth <= 2.
Each mutant (and each original) is given to the REAL mypy with the BUNDLED typeshed:
  batch lane   mypy.main.main in a fresh fork, warmed stdlib cache (fresh copy per run), 60 s limit;
  daemon lane  a warmed mypy.dmypy_server.Server forked per mutant: original -> mutant -> original.
Oracle: exit status in {0,1,2}; no INTERNAL ERROR / traceback / AssertionError text; every stdout line is a
diagnostic or the summary; no hang; daemon: no crash, and the answer after editing back equals the first
answer for the original.  Which diagnostics are produced is never judged.
"""

from __future__ import annotations

import hashlib
import os
import shutil
import time
from collections import Counter
from typing import Any

from mc import c20_lane as L
from mc import c20_mutate as M
from mc import c20_place as P
from mc import corpus
from mc.common import Ctx, Result, Violation, log, scratch, seeded_order
from mc.kernel import pmap

PROPERTY = "C20"
LEVEL = "exploration"

Q_FILES = 8
Q_PER_FILE = 800  # kind 1-3 mutants taken per selected file in the quick tier (whole programs, in file order)
T_EXTRA_BUDGET = int(os.environ.get("VERIF_C20_EXTRA", "12000"))  # kinds 4-8 mutants (thorough sub-slice)
T_EXTRA_PER_PROGRAM = 600
T_STRIDE = int(os.environ.get("VERIF_C20_T_STRIDE", "1"))
RUNNING_PY = (3, 12)


# --------------------------------------------------------------------------- corpus -> programs


def _stable_file_order(paths: list[str], seed: int) -> list[str]:
    """A fixed pseudo-random order (so seed 0 is not 'the alphabetically first files'), then the seed permutation."""
    base = sorted(paths, key=lambda p: hashlib.sha1(os.path.basename(p).encode()).hexdigest())
    return seeded_order(base, seed)


def program_of(c: corpus.Case) -> dict[str, Any] | None:
    if not c.main.strip():
        return None
    files = {}
    for rel, text in c.files.items():
        if not (rel.endswith(".py") or rel.endswith(".pyi")):
            continue  # step files (m.py.2), config files, data files are not part of the input program
        if rel in ("main.py", "main.pyi") or L.is_stdlib_shadow(rel):
            continue  # fixture-era stand-ins for stdlib modules: the bundled typeshed is the library here
        files[rel] = text
    flags = list(c.flags)
    dropped = False
    if not L.usable_flags(flags):
        flags, dropped = [], bool(flags)
    pv = corpus.pyversion_for(c.file)
    if pv and pv > RUNNING_PY and not any(f.split("=")[0] == "--python-version" for f in flags):
        flags += ["--python-version", f"{pv[0]}.{pv[1]}"]
    return {"id": c.id, "file": c.file, "name": c.name, "line": c.line, "tags": list(c.tags), "main": c.main,
            "files": files, "flags": flags, "flags_dropped": dropped, "corpus_flags": list(c.flags)}


def load_programs(patterns: list[str]) -> dict[str, list[dict[str, Any]]]:
    out: dict[str, list[dict[str, Any]]] = {}
    for pat in patterns:
        for f in corpus.files_matching(pat):
            progs = [p for p in (program_of(c) for c in corpus.load_file(f)) if p is not None]
            if progs:
                out[f] = progs
    return out


def gen_mutants(prog: dict[str, Any], kinds: tuple[int, ...]) -> list[tuple[int, str, str]]:
    src = prog["main"]
    if "muts" in prog:  # placement lane: the programs were enumerated by mc.c20_place, "original" = its prelude
        return M.dedupe(src, iter(prog["muts"]))
    parts = []
    if 1 in kinds:
        parts.append(M.k123(src))
    if 4 in kinds:
        parts += [M.k4_rename(src), M.k5_retype(src), M.k6_truncate(src), M.k7_cycle(src), M.k8_pairs(src)]

    def chain():
        for p in parts:
            yield from p

    return M.dedupe(src, chain())


def select_slice(ctx: Ctx) -> tuple[list[tuple[dict, tuple[int, ...]]], dict[str, Any]]:
    """[(program, kinds)] and a description of the slice."""
    info: dict[str, Any] = {}
    if ctx.quick:
        by_file = load_programs(["check-*.test"])
        order = _stable_file_order(list(by_file), ctx.seed)
        chosen: list[tuple[dict, tuple[int, ...]]] = []
        files_used = []
        for f in order:
            if len(files_used) >= Q_FILES:
                break
            n = 0
            took = 0
            for p in by_file[f]:
                if n >= Q_PER_FILE:
                    break
                k = len(gen_mutants(p, (1, 2, 3)))
                if k == 0:
                    continue
                chosen.append((p, (1, 2, 3)))
                n += k
                took += 1
            if took:
                files_used.append({"file": os.path.basename(f), "programs": took, "of": len(by_file[f]), "mutants": n})
        info["files"] = files_used
        info["rule"] = (f"first {Q_FILES} check-*.test files in the VERIF_SEED order; from each, whole programs in file order until "
                        f"{Q_PER_FILE} kind 1-3 mutants are reached; every selected program is explored completely")
        return chosen, info
    by_file = load_programs(["check-*.test", "semanal-*.test", "fine-grained*.test"])
    allp = [p for f in sorted(by_file) for p in by_file[f]]
    if T_STRIDE > 1:  # development knob (not the default): every T_STRIDE-th program of the full list
        allp = allp[::T_STRIDE]
        info["VERIF_C20_T_STRIDE"] = T_STRIDE
    extra_ids: set[str] = set()
    budget = T_EXTRA_BUDGET
    skipped_large = 0
    for p in seeded_order(sorted(allp, key=lambda p: hashlib.sha1(p["id"].encode()).hexdigest()), ctx.seed):
        if budget <= 0:
            break
        k = len(gen_mutants(p, (4,)))
        if k == 0:
            continue
        if k > T_EXTRA_PER_PROGRAM:
            skipped_large += 1
            continue
        extra_ids.add(p["id"])
        budget -= k
    info["files"] = len(by_file)
    info["programs_per_pattern"] = {pat: sum(len(v) for f, v in by_file.items() if os.path.basename(f).startswith(pat)) for pat in ("check-", "semanal-", "fine-grained")}
    info["extra_kinds_programs"] = len(extra_ids)
    info["extra_kinds_skipped_too_large"] = skipped_large
    info["rule"] = (f"all main programs of check-*, semanal-*, fine-grained*.test with kinds 1-3; kinds 4-8 on the programs of a "
                    f"VERIF_SEED-ordered sub-slice holding ~{T_EXTRA_BUDGET} such mutants (programs with more than "
                    f"{T_EXTRA_PER_PROGRAM} are skipped); every selected program is explored completely for its kinds")
    return [(p, (1, 2, 3, 4, 5, 6, 7, 8) if p["id"] in extra_ids else (1, 2, 3)) for p in allp], info


def placement_slice() -> tuple[list[tuple[dict, tuple[int, ...]]], dict[str, Any]]:
    """Every placement of mc.c20_place (both tiers, independent of the seed), cut into work items.  Each item is
    a pseudo corpus program whose original is the common prelude and whose mutants are the placement programs, so
    both lanes treat it exactly like a corpus program (daemon: prelude -> placement -> prelude)."""
    pairs: list[tuple[dict, tuple[int, ...]]] = []
    n = 0
    by_depth: Counter = Counter()
    accepts = 0
    for gname, muts in P.grouped(max_contexts=2):
        prog = {"id": f"<placement>::{gname}", "file": "<placement>", "name": gname, "line": 0, "tags": [], "main": P.PRELUDE,
                "files": {}, "flags": [], "flags_dropped": False, "corpus_flags": [], "muts": muts, "scan_extra": P.SCAN_EXTRA}
        pairs.append((prog, (9,)))
        n += len(muts)
        accepts += sum(1 for _k, _d, t in muts if P.cpython_accepts(t))
    for _d, _t, depth in P.programs(2):
        by_depth[depth] += 1
    info = {"programs": n, "work_items": len(pairs), "by_number_of_contexts": {str(k): by_depth[k] for k in sorted(by_depth)},
            "statements": len(P.STATEMENTS), "expressions": len(P.EXPRESSIONS), "statement_contexts": len(P.CONTEXTS),
            "expression_contexts": len(P.EXPR_CONTEXTS), "accepted_by_cpython_compile": accepts,
            "rejected_by_cpython_compile_but_parsed": n - accepts,
            "rule": "PRELUDE + C1[C2[S]] for every S in STATEMENTS + EXPRESSIONS and every 0, 1 or 2 enclosing contexts (innermost may be "
                    "an expression context for the EXPRESSIONS); the whole product, no sampling"}
    return pairs, info


# --------------------------------------------------------------------------- worker


def _workdir(tag: str) -> str:
    d = os.path.join(scratch("c20"), f"{tag}{os.getpid()}")
    shutil.rmtree(d, ignore_errors=True)
    os.makedirs(d)
    return d


def _digest(prog: dict[str, Any], text: str) -> str:
    h = hashlib.sha1()
    h.update(repr((prog["flags"], sorted(prog["files"].items()))).encode())
    h.update(text.encode())
    return h.hexdigest()[:16]


def work_program(item: tuple[dict[str, Any], tuple[int, ...], str, bool]) -> dict[str, Any]:
    """All runs of one corpus program: original + every mutant, batch lane then daemon lane."""
    prog, kinds, master_cache, do_daemon = item
    muts = gen_mutants(prog, kinds)
    wd = _workdir("b")
    L.write_program(wd, prog["main"], prog["files"])
    out: dict[str, Any] = {"id": prog["id"], "n": len(muts), "kinds": Counter(k for k, _d, _t in muts), "violations": [],
                           "harness_errors": [], "classes": Counter(), "changed": 0, "nontrivial": [], "cpu": 0.0, "wall_max": 0.0,
                           "daemon": None, "orig_class": None}

    def record(lane: str, idx: int, vs: list[tuple[str, str, dict]], observed: dict[str, Any]) -> None:
        for sig, what, extra in vs:
            out["violations"].append({"lane": lane, "idx": idx, "sig": sig, "what": what, "extra": extra, "observed": observed,
                                      "kind": muts[idx][0] if idx >= 0 else 0, "desc": muts[idx][1] if idx >= 0 else "original program",
                                      "text": muts[idx][2] if idx >= 0 else prog["main"]})

    def obs(r: dict[str, Any]) -> dict[str, Any]:
        return {"status": r["status"], "stdout_tail": r["stdout"][-1500:], "stderr_tail": r["stderr"][-1500:]}

    r0 = L.run_batch(wd, prog["main"], prog["flags"], master_cache)
    out["cpu"] += r0["cpu"]
    if r0["harness_error"]:
        out["harness_errors"].append(f"{prog['id']} original: {r0['harness_error']}")
    out["orig_class"] = L.outcome_class(r0["status"], r0["stdout"])
    record("batch", -1, r0["violations"], obs(r0))
    for i, (_k, _d, text) in enumerate(muts):
        r = L.run_batch(wd, text, prog["flags"], master_cache)
        out["cpu"] += r["cpu"]
        out["wall_max"] = max(out["wall_max"], r["wall"])
        if r["harness_error"]:
            out["harness_errors"].append(f"{prog['id']} #{i}: {r['harness_error']}")
        cls = L.outcome_class(r["status"], r["stdout"]) if not r["violations"] else "violation"
        out["classes"][cls] += 1
        if r["stdout"] != r0["stdout"]:
            out["changed"] += 1
        if cls != "blocker":
            out["nontrivial"].append(_digest(prog, text))
        record("batch", i, r["violations"], obs(r))
    if do_daemon:
        dd = os.path.join(scratch("c20"), f"d{os.getpid()}")  # this worker's daemon directory, for its whole life
        d = L.run_daemon_program(dd, prog["files"], prog["main"], [t for _k, _d, t in muts])
        dsum = {"runs": 0, "changed": 0, "skipped": 0}
        if "harness_error" in d:
            out["harness_errors"].append(f"{prog['id']} daemon: {d['harness_error']}")
            dsum["skipped"] = len(muts)
        else:
            o = d["original"]
            if o["violations"]:
                record("daemon", -1, o["violations"], {"log_tail": o["resp"].get("log", "")[-1500:], "out": o["resp"].get("out", [])[:20]})
                dsum["skipped"] = len(muts)
            else:
                for i, mres in enumerate(d["mutants"]):
                    dsum["runs"] += 1
                    if mres.get("harness_error"):
                        out["harness_errors"].append(f"{prog['id']} daemon #{i}: {mres['harness_error']}")
                    if mres["violations"]:
                        resp = mres.get("resp") or {}
                        record("daemon", i, mres["violations"], {"phase": mres.get("phase"), "log_tail": (resp.get("log") or "")[-1500:],
                                                                 "out": (resp.get("out") or [])[:20]})
                    elif mres.get("changed"):
                        dsum["changed"] += 1
        out["daemon"] = dsum
    shutil.rmtree(wd, ignore_errors=True)
    return out


# --------------------------------------------------------------------------- post-processing of violations


def _size_key(text: str) -> tuple[int, int]:
    return (sum(1 for ln in text.split("\n") if ln.strip()), len(text))


def confirm_and_reduce(item: tuple[dict[str, Any], dict[str, Any], str, int]) -> dict[str, Any]:
    """For the smallest mutant of one signature: (a) the real `python -m mypy` subprocess on the same files with a
    copy of the same warmed cache and, if that does not reproduce, with a cold cache; (b) for crashes a bounded,
    deterministic line-wise reduction that keeps the signature (information only: the mutant stays the witness)."""
    prog, v, master_cache, max_runs = item
    wd = _workdir("c")
    L.write_program(wd, v["text"], prog["files"])
    res: dict[str, Any] = {"confirmed": None, "confirm_status": None, "reduced": None}
    if v["lane"] == "batch":
        shutil.copytree(master_cache, os.path.join(wd, "cache-confirm"))
        from mc.drivers import cli_subprocess

        args = L.batch_args(prog["flags"], os.path.join(wd, "cache-confirm"))
        import subprocess

        try:
            r = cli_subprocess(args, wd, env=L.CONFIRM_ENV, timeout=10 * L.RUN_TIMEOUT)
            sigs = [s for s, _w, _e in L.judge_output(r["status"], r["stdout"], r["stderr"])]
        except subprocess.TimeoutExpired:
            r = {"status": None}
            sigs = [v["sig"]] if v["sig"].startswith("hang|") else ["hang|?"]
        res["confirm_mode"] = "python -m mypy, copy of the warmed cache"
        if v["sig"] not in sigs:
            r = L.confirm_subprocess(wd, prog["flags"])
            sigs = [s for s, _w, _e in r["violations"]]
            res["confirm_mode"] = "python -m mypy, cold cache"
        res["confirmed"] = v["sig"] in sigs
        res["confirm_status"] = r["status"]
        res["confirm_signatures"] = sigs
        if v["sig"].startswith("crash|") and max_runs > 0:
            runs = 0
            files = dict(prog["files"])

            def test(text: str, fl: dict[str, str]) -> bool:
                nonlocal runs
                runs += 1
                shutil.rmtree(wd, ignore_errors=True)
                os.makedirs(wd)
                L.write_program(wd, text, fl)
                rr = L.run_batch(wd, text, prog["flags"], master_cache)
                return any(s == v["sig"] for s, _w, _e in rr["violations"])

            for rel in sorted(files):
                if runs >= max_runs:
                    break
                cand = {k: t for k, t in files.items() if k != rel}
                if test(v["text"], cand):
                    files = cand
            lines = v["text"].split("\n")
            n = 2
            while len(lines) >= 2 and runs < max_runs:
                chunk = max(1, -(-len(lines) // n))
                removed = False
                for i in range(0, len(lines), chunk):
                    cand_l = lines[:i] + lines[i + chunk :]
                    if not cand_l or runs >= max_runs:
                        continue
                    if test("\n".join(cand_l), files):
                        lines = cand_l
                        n = max(n - 1, 2)
                        removed = True
                        break
                if not removed:
                    if chunk == 1:
                        break
                    n = min(n * 2, len(lines))
            res["reduced"] = {"main.py": "\n".join(lines), "files": files, "runs": runs, "complete": runs < max_runs}
    else:
        r = L.confirm_dmypy(wd, prog["files"], prog["main"], v["text"])
        sigs = [s for s, _w, _e in r["violations"]]
        res["confirm_mode"] = "real dmypy client + daemon subprocesses: empty, original, mutant, original"
        res["confirmed"] = v["sig"] in sigs or (v["sig"].startswith("daemon-revert|") and any(s.startswith("daemon-revert|") for s in sigs))
        res["confirm_signatures"] = sigs
        res["confirm_status"] = [t.get("status") for t in r["transcript"]]
    shutil.rmtree(wd, ignore_errors=True)
    return res


def build_violation(prog: dict[str, Any], v: dict[str, Any], extra_info: dict[str, Any] | None, light: bool = False) -> Violation:
    tagnote = f" [corpus case tagged {','.join(prog['tags'])}]" if prog["tags"] else ""
    what = f"{v['lane']} lane: {v['what']} -- {prog['id']}, {v['desc']}{tagnote}"
    if light:
        return Violation(v["sig"], what, {"case": prog["id"], "lane": v["lane"], "mutation": {"kind": v["kind"], "desc": v["desc"]}})
    detail: dict[str, Any] = {
        "lane": v["lane"],
        "case": prog["id"], "corpus_file": prog["file"], "corpus_line": prog["line"], "corpus_tags": prog["tags"],
        "repo_opted_out": bool(set(prog["tags"]) & {"skip", "xfail"}),
        "flags": prog["flags"], "corpus_flags": prog["corpus_flags"], "flags_dropped": prog["flags_dropped"],
        "mutation": {"kind": v["kind"], "desc": v["desc"]},
        "original_main": prog["main"],
        "main.py": v["text"],
        "files": prog["files"],
        "observed": v["observed"],
        "crash": v["extra"],
        "how_to_replay": "write main.py (+ files) into an empty directory and run: python -m mypy "
        + " ".join(prog["flags"] + L.BASE_ARGS) + " main.py"
        + ("  (daemon lane: dmypy run/check original, then this main.py, then the original again)" if v["lane"] == "daemon" else ""),
    }
    if extra_info:
        detail["confirmation"] = {k: extra_info.get(k) for k in ("confirmed", "confirm_mode", "confirm_status", "confirm_signatures")}
        if extra_info.get("reduced"):
            detail["reduced"] = extra_info["reduced"]
        if extra_info.get("confirmed") is True:
            what += " [reproduced with the real " + ("`python -m mypy`]" if v["lane"] == "batch" else "dmypy client and daemon]")
    return Violation(v["sig"], what, detail)


# --------------------------------------------------------------------------- run


def _prepare_masters(pairs: list[tuple[dict, tuple[int, ...]]], root: str, warm_violations: list[Violation]) -> dict[str, str]:
    """Warm one stdlib cache per distinct cache-relevant option set; sets prog['master'] = its cache dir."""
    flagsets = sorted({tuple(p["flags"]) for p, _k in pairs} | {()})
    kind, keys, _cpu = L.fork_call(L.cache_keys, flagsets, timeout=600)
    if kind != "ok":
        raise RuntimeError(f"cache key computation failed: {kind}: {keys}")
    for p, _k in pairs:
        if keys[tuple(p["flags"])] is None:  # mypy rejects this flag combination outright: nothing to mutate under it
            p["flags"], p["flags_dropped"] = [], True
    by_key: dict[str, dict[str, Any]] = {}
    for p, _k in pairs:
        key = keys[tuple(p["flags"])]
        e = by_key.setdefault(key, {"flags": list(p["flags"]), "texts": []})
        e["texts"].append(p["main"])
        e["texts"].extend(p["files"].values())
        if p.get("scan_extra"):
            e["texts"].append(p["scan_extra"])
        p["master_key"] = key
    items = []
    for key in sorted(by_key):
        mods = L.stdlib_modules_of(by_key[key]["texts"])
        items.append((os.path.join(root, "master", key), by_key[key]["flags"], mods))
    t0 = time.time()
    masters: dict[str, str] = {}
    rejected: list[str] = []
    for _i, it, st, val in pmap(L.warm_master, items, fresh=True, timeout=1800):
        key = os.path.basename(it[0])
        if st != "ok":
            raise RuntimeError(f"warming the stdlib cache for flags {it[1]} failed: {val}")
        bad = L.judge_output(val["status"], val["stdout"], val["stderr"])
        warm_main = "".join(f"import {m}\n" for m in it[2]).rstrip("\n")
        for sig, what, extra in bad:
            # the warm-up program (imports of the stdlib modules the slice uses) is an input like any other
            warm_violations.append(Violation(sig, f"batch lane: {what} -- warm-up program (stdlib imports only), flags {it[1]}", {
                "lane": "batch", "case": "<warm-up>", "flags": it[1], "corpus_flags": it[1], "flags_dropped": False, "corpus_tags": [],
                "mutation": {"kind": 0, "desc": "stdlib imports only"}, "original_main": "", "main.py": warm_main, "files": {},
                "observed": {"status": val["status"], "stdout_tail": val["stdout"][-1500:], "stderr_tail": val["stderr"][-1500:]},
                "crash": extra}))
        masters[key] = os.path.join(it[0], "cache")
        if not bad and not os.path.isdir(masters[key]):
            if val["status"] == 2 and it[1]:
                # mypy.main rejects the flag combination itself (usage error after option processing): such cases run
                # with the default flags instead
                rejected.append(key)
                del masters[key]
                continue
            raise RuntimeError(f"warm-up for flags {it[1]} wrote no cache: {val['stderr'][-500:]}")
    if rejected:
        default_key = keys[()]
        for p, _k in pairs:
            if p["master_key"] in rejected:
                p["flags"], p["flags_dropped"], p["master_key"] = [], True, default_key
    log(f"C20: warmed {len(items)} stdlib caches in {time.time() - t0:.1f}s")
    return masters


def _preconditions(root: str) -> None:
    from mypy import defaults

    for f in defaults.USER_CONFIG_FILES:
        if os.path.exists(f):
            raise RuntimeError(f"user-level mypy config {f} exists: runs would not be the default configuration")
    os.makedirs(os.path.join(root, ".git"), exist_ok=True)  # stops mypy's upward search for pyproject.toml / mypy.ini
    for name in defaults.CONFIG_NAMES + defaults.SHARED_CONFIG_NAMES:
        if os.path.exists(os.path.join(root, name)):
            raise RuntimeError(f"config file {name} in {root}")


def run(ctx: Ctx) -> Result:
    import mypy.dmypy_server  # noqa: F401  (imported before the pool forks)
    import mypy.main  # noqa: F401

    root = scratch("c20")
    _preconditions(root)
    herr: list[str] = []
    pairs, slice_info = select_slice(ctx)
    place_pairs, place_info = placement_slice()
    pairs = pairs + place_pairs
    slice_info["placement"] = place_info
    if not pairs:
        raise RuntimeError("empty corpus slice")
    warm_violations: list[Violation] = []
    masters = _prepare_masters(pairs, root, warm_violations)
    t0 = time.time()
    warm = L.warm_daemon(os.path.join(root, "daemon-warm"))
    os.chdir(root)
    for sig, what, extra in L.judge_daemon(warm):
        warm_violations.append(Violation(sig, f"daemon lane: {what} -- first check of an empty main.py", {
            "lane": "daemon", "case": "<warm-up>", "flags": [], "corpus_flags": [], "flags_dropped": False, "corpus_tags": [],
            "mutation": {"kind": 0, "desc": "empty program"}, "original_main": "", "main.py": "", "files": {},
            "observed": {"log_tail": (warm.get("log") or "")[-1500:], "out": warm["out"][:20]}, "crash": extra}))
    if any(not os.path.isdir(m) for m in masters.values()) or L.judge_daemon(warm):
        # mypy fails on the stdlib alone: nothing else can be explored, and nothing else needs to be
        return Result(PROPERTY, LEVEL, {
            "evaluations": len(masters) + 1, "distinct_nontrivial": len(masters) + 1, "exhaustive": False,
            "rule": "warm-up inputs only (programs that just import stdlib modules, one per option set; the empty program in the "
                    "daemon): mypy already violates the property on them, so the corpus exploration was not started",
            "samples": [{"case": v.detail["case"], "flags": v.detail["flags"], "main.py": v.detail["main.py"]} for v in warm_violations[:2]],
            "slice": slice_info, "aborted_at_warm_up": True,
        }, warm_violations, assumptions=["exploration aborted at warm-up because of the violations reported"], harness_errors=herr)
    if warm["status"] != 0:
        raise RuntimeError(f"daemon warm-up gave an unexpected answer: {warm}")
    log(f"C20: daemon warmed in {time.time() - t0:.1f}s; {len(pairs)} programs")

    progs = {p["id"]: p for p, _k in pairs}
    if len(progs) != len(pairs):
        raise RuntimeError("duplicate case ids in the corpus slice")
    # biggest programs first (load balance only; the minimal witness per signature is chosen explicitly below)
    est = {p["id"]: (40 * len(p["muts"]) if "muts" in p else len(p["main"]) * (8 if 4 in k else 1)) for p, k in pairs}
    items = [(p, k, masters[p["master_key"]], True) for p, k in sorted(pairs, key=lambda pk: -est[pk[0]["id"]])]

    evaluations = 0
    kinds: Counter = Counter()
    classes: Counter = Counter()
    orig_classes: Counter = Counter()
    changed = 0
    nontrivial: set[str] = set()
    daemon = Counter()
    cpu = 0.0
    wall_max = 0.0
    raw: list[tuple[str, dict[str, Any]]] = []
    done = 0
    for _i, it, st, val in pmap(work_program, items, fresh=False):
        done += 1
        if st != "ok":
            herr.append(f"{it[0]['id']}: worker failed: {val}")
            continue
        evaluations += val["n"] + 1
        kinds.update(val["kinds"])
        classes.update(val["classes"])
        orig_classes[val["orig_class"]] += 1
        changed += val["changed"]
        nontrivial.update(val["nontrivial"])
        cpu += val["cpu"]
        wall_max = max(wall_max, val["wall_max"])
        herr.extend(val["harness_errors"])
        if val["daemon"]:
            daemon.update(val["daemon"])
        for v in val["violations"]:
            raw.append((val["id"], v))
        if done % 200 == 0:
            log(f"C20: {done}/{len(items)} programs, {evaluations} batch runs, {len(raw)} violating runs, {ctx.elapsed():.0f}s")

    # ---- one witness per signature: smallest mutant, batch lane preferred
    by_sig: dict[str, list[tuple[str, dict[str, Any]]]] = {}
    for pid, v in raw:
        by_sig.setdefault(v["sig"], []).append((pid, v))
    witnesses = []
    for sig in sorted(by_sig):
        lst = sorted(by_sig[sig], key=lambda pv: (pv[1]["lane"] != "batch", _size_key(pv[1]["text"]), pv[0], pv[1]["idx"]))
        by_sig[sig] = lst
        witnesses.append(lst[0])
    max_runs = 80 if ctx.quick else 400
    conf_items = [(progs[pid], v, masters[progs[pid]["master_key"]], max_runs) for pid, v in witnesses]
    conf: dict[str, dict[str, Any]] = {}
    for _i, it, st, val in pmap(confirm_and_reduce, conf_items, fresh=False):
        if st != "ok":
            herr.append(f"confirmation of {it[1]['sig']} failed: {val}")
            conf[it[1]["sig"]] = {}
        else:
            conf[it[1]["sig"]] = val

    violations: list[Violation] = list(warm_violations)  # non-fatal oracle violations of the warm-up programs themselves
    sig_summary = {}
    for sig in sorted(by_sig):
        lst = by_sig[sig]
        pid, v = lst[0]
        info = conf.get(sig, {})
        if info.get("confirmed") is False:
            herr.append(f"signature {sig} (case {pid}, {v['desc']}, {v['lane']} lane) did NOT reproduce with the real mypy / dmypy commands: "
                        f"treated as a harness artefact, not reported as a violation")
            continue
        violations.append(build_violation(progs[pid], v, info))
        for pid2, v2 in lst[1:60]:
            violations.append(build_violation(progs[pid2], v2, None, light=True))
        sig_summary[sig] = {"runs": len(lst), "cases": len({p for p, _v in lst}), "lanes": sorted({v_["lane"] for _p, v_ in lst}),
                            "witness_lines": _size_key(v["text"])[0], "confirmed_real_cli": info.get("confirmed"),
                            "repo_opted_out_only": all(set(progs[p]["tags"]) & {"skip", "xfail"} for p, _v in lst)}

    n_mut = sum(kinds.values())
    coverage: dict[str, Any] = {
        "evaluations": evaluations + daemon["runs"],
        "batch_runs": evaluations,
        "daemon_edit_cycles": daemon["runs"],
        "daemon_mutant_answer_differs_from_original": daemon["changed"],
        "daemon_skipped": daemon["skipped"],
        "programs": len(items),
        "mutants": n_mut,
        "mutants_by_kind": {str(k): kinds[k] for k in sorted(kinds)},
        "distinct_nontrivial": len(nontrivial),
        "rule": "distinct (flags, files, mutant text) inputs on which mypy was not stopped by a blocking syntax error, i.e. semantic "
                "analysis and type checking really ran on the mutant",
        "batch_outcomes": dict(classes),
        "original_outcomes": dict(orig_classes),
        "mutants_whose_stdout_differs_from_the_original": changed,
        "exhaustive": True,
        "slice": slice_info,
        "stdlib_caches_warmed": len(masters),
        "programs_with_case_flags": sum(1 for p in progs.values() if p["flags"]),
        "programs_with_flags_dropped": sum(1 for p in progs.values() if p["flags_dropped"]),
        "programs_repo_opted_out": sum(1 for p in progs.values() if set(p["tags"]) & {"skip", "xfail"}),
        "cpu_s_batch_children": round(cpu, 1),
        "cpu_ms_per_batch_run": round(1000 * cpu / max(1, evaluations), 1),
        "max_wall_s_single_run": round(wall_max, 2),
        "violating_runs": len(raw),
        "signatures": sig_summary,
        "samples": [
            {"case": p["id"], "flags": p["flags"], "mutation": d, "mutant_main.py": t}
            for p, (k, d, t) in ([(pairs[0][0], m) for m in gen_mutants(pairs[0][0], pairs[0][1])[:2]]
                                 + [(place_pairs[len(place_pairs) // 2][0], m) for m in place_pairs[len(place_pairs) // 2][0]["muts"][:2]])
        ],
    }
    vac = []
    if kinds[1] + kinds[2] + kinds[3] < 500:
        vac.append(f"only {kinds[1] + kinds[2] + kinds[3]} corpus mutants of kinds 1-3")
    if kinds[9] != place_info["programs"] or kinds[9] < 10000:
        vac.append(f"placement lane ran {kinds[9]} of {place_info['programs']} enumerated programs")
    if len(nontrivial) < n_mut * 0.3:
        vac.append(f"only {len(nontrivial)} of {n_mut} mutants got past the parser")
    if changed < n_mut * 0.05:
        vac.append(f"only {changed} mutants changed mypy's output")
    if daemon["runs"] < n_mut * 0.5:
        vac.append(f"daemon lane ran only {daemon['runs']} of {n_mut} edit cycles")
    if evaluations and cpu / evaluations > 2.0:
        vac.append(f"{cpu / evaluations:.1f}s CPU per run: the warmed stdlib cache is not being used")
    if vac and not violations:
        raise RuntimeError("vacuous exploration: " + "; ".join(vac))  # never report success on a vacuous run
    if vac:
        herr.append("thin exploration (violations are reported all the same): " + "; ".join(vac))
    assumptions = [
        "inputs are the main programs of the repository's .test corpus (plus their extra .py/.pyi files, minus fixture-era stand-ins "
        "for stdlib modules) run against the bundled typeshed; many originals report errors there, which is irrelevant to the oracle",
        "corpus `# flags:` are passed through only if all of them are in a whitelist of check/report-format flags; otherwise the "
        "case runs with default flags; the daemon lane always uses default flags",
        "class bodies emptied by a deletion get `pass` (kind 1) so the mutant stays structural",
        "placement lane (kind 9): the statement / context alphabets of mc.c20_place are the stated finite space, nesting depth <= 2; "
        "CPython's compile() verdict on these programs is recorded but not used as an oracle",
        "the stdlib cache is warmed once per cache-relevant option set and copied fresh for every run; a run over 60 s wall is "
        "repeated and judged by its CPU time before it is called a hang",
    ]
    return Result(PROPERTY, LEVEL, coverage, violations, assumptions=assumptions, harness_errors=herr)


# --------------------------------------------------------------------------- replay


def replay(ctx: Ctx, rec: dict) -> Result:
    import mypy.dmypy_server  # noqa: F401
    import mypy.main  # noqa: F401

    d = rec["detail"]
    root = scratch("c20")
    _preconditions(root)
    prog = {"id": d.get("case", "?"), "main": d.get("original_main", ""), "files": d.get("files", {}), "flags": d.get("flags", []),
            "tags": d.get("corpus_tags", []), "file": d.get("corpus_file"), "line": d.get("corpus_line"),
            "corpus_flags": d.get("corpus_flags", []), "flags_dropped": d.get("flags_dropped", False)}
    text = d["main.py"]
    mdir = os.path.join(root, "master", "replay")
    mods = L.stdlib_modules_of([text, prog["main"]] + list(prog["files"].values()))
    kind, val, _cpu = L.fork_call(L.warm_master, (mdir, prog["flags"], mods), timeout=1800)
    if kind != "ok":
        raise RuntimeError(f"warm-up failed: {kind} {val}")
    master = os.path.join(mdir, "cache")
    violations: list[Violation] = []
    cov: dict[str, Any] = {"evaluations": 0, "distinct_nontrivial": 0, "rule": "replay", "exhaustive": False, "samples": []}
    wd = _workdir("r")
    L.write_program(wd, text, prog["files"])
    log(f"C20 replay: files written to {wd}: main.py {sorted(prog['files'])}")
    if d.get("lane") == "daemon":
        dd = os.path.join(root, f"d{os.getpid()}")
        r = L.run_daemon_program(dd, prog["files"], prog["main"], [text])
        os.chdir(root)
        cov["evaluations"] += 1
        found = []
        if "harness_error" in r:
            raise RuntimeError(r["harness_error"])
        if r["original"]["violations"]:
            found = r["original"]["violations"]
        elif r["mutants"]:
            found = r["mutants"][0]["violations"]
        cd = _workdir("k")
        rd = L.confirm_dmypy(cd, prog["files"], prog["main"], text)
        real_sigs = [s for s, _w, _e in rd["violations"]]
        cov["evaluations"] += 1
        cov["real_dmypy"] = {"signatures": real_sigs, "transcript": rd["transcript"]}
        log(f"C20 replay: real dmypy client+daemon -> {real_sigs or 'no violation'}")
        for sig, what, extra in found:
            ok = sig in real_sigs or (sig.startswith("daemon-revert|") and any(s.startswith("daemon-revert|") for s in real_sigs))
            violations.append(Violation(sig, f"daemon lane (in-process Server): {what}; real dmypy client+daemon -> "
                                        f"{real_sigs or 'no violation'}; genuine={'yes' if ok else 'NO (in-process only)'}", {"extra": extra}))
        cov["daemon_lane"] = {"signatures": [s for s, _w, _e in found]}
    # batch lane in-process and the real CLI, for every replay (a daemon crash often has a batch twin)
    r1 = L.run_batch(wd, text, prog["flags"], master)
    cov["evaluations"] += 1
    inproc = [s for s, _w, _e in r1["violations"]]
    shutil.copytree(master, os.path.join(wd, "cache-confirm"))
    from mc.drivers import cli_subprocess

    args = L.batch_args(prog["flags"], os.path.join(wd, "cache-confirm"))
    r2 = cli_subprocess(args, wd, env=L.CONFIRM_ENV, timeout=600)
    warm_sigs = [s for s, _w, _e in L.judge_output(r2["status"], r2["stdout"], r2["stderr"])]
    r3 = L.confirm_subprocess(wd, prog["flags"])
    cold_sigs = [s for s, _w, _e in r3["violations"]]
    cov["evaluations"] += 2
    cov["batch_in_process"] = {"status": r1["status"], "signatures": inproc}
    cov["real_cli_warm_cache"] = {"status": r2["status"], "signatures": warm_sigs, "stdout_tail": r2["stdout"][-1200:], "stderr_tail": r2["stderr"][-600:]}
    cov["real_cli_cold_cache"] = {"status": r3["status"], "signatures": cold_sigs}
    real = f"real `python -m mypy` subprocess: warm cache -> {warm_sigs or 'no violation'}, cold cache -> {cold_sigs or 'no violation'}"
    log("C20 replay: " + real)
    for sig, what, extra in r1["violations"]:
        ok = sig in warm_sigs or sig in cold_sigs
        violations.append(Violation(sig, f"batch lane: {what}; {real}; genuine={'yes' if ok else 'NO (in-process only)'}", {"extra": extra}))
    if d.get("lane") == "daemon":
        violations = [Violation(v.signature, v.what + f"; batch twin: {inproc or 'none'}; {real}", v.detail) if v.what.startswith("daemon") else v
                      for v in violations]
    # only the recorded signature counts as "reproduced" unless nothing else was found
    same = [v for v in violations if v.signature == rec.get("signature")]
    return Result(PROPERTY, LEVEL, cov, same or violations)
