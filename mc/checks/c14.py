"""C14 — both parsers mean the same thing and report valid positions (S3 differential; exploration).

See DESIGN.md section 4 / C14.  The same program is checked by the REAL `mypy.build.build` (fast lane, fixture
stubs, exactly as mypy/test/testcheck.py drives it) with `options.native_parser` False and True, with
`show_column_numbers` and `show_error_end` on; every build runs in a freshly forked child.

Spaces (each enumerated completely, simplest first):
  (a) corpus programs without type comments x target versions;
  (b) a syntax grammar to depth 2 (mc/c14_grammar.py): statement forms x expression forms in every hole,
      expression x expression, match pattern x pattern, type expression x annotation position, layouts
      (CRLF, CR, tabs, form feeds, continuations at every token gap, non-ASCII) of every depth-1 program;
      many programs per build as independent modules, findings re-run alone before they are reported;
  (c) single-token corruptions (every token x {delete, duplicate, 14 replacements}): decided at the parse entry
      point `mypy.parse.parse` (what the build calls) for "blocker iff blocker" and for the positions of
      syntax errors, every disagreement re-run through real builds; corruptions both parsers accept are
      new programs of (b) and go through the build lane.

Oracle (mc/c14_judge.py): identical diagnostics at two strengths (s1 = default format, s2 = with columns and
end positions), blocker iff blocker (nothing else for programs a parser rejects), and for every diagnostic of
either parser: line exists, column within the line, end not before start, end inside the file.
"""

from __future__ import annotations

import os
import re
import shutil
import time
from collections import Counter
from typing import Any

from mc import c14_grammar as G
from mc import c14_judge as J
from mc import c14_lane as L
from mc import corpus
from mc.common import Ctx, Result, Violation, log, scratch, scratch_root, seeded_order
from mc.kernel import ExecError, chunked, pmap, run_isolated

PROPERTY = "C14"
LEVEL = "exploration"

VERSIONS = [(3, 10), (3, 11), (3, 12), (3, 13), (3, 14)]  # 3.9 is rejected by this tree (config_parser.parse_version)
GRAMMAR_PYVER = (3, 12)  # == the running interpreter: both front ends target the same grammar
GRAMMAR_FLAGS = ["--check-untyped-defs"]
Q_FILES = 12
Q_CORRUPT_CASES = 40
T_CORRUPT_CASES = 200
KEEP_PER_SIG = 3  # examples kept (and re-run alone) per signature, smallest first
BATCH = 120  # modules per build in the module lane

_FIXTURE_CACHE: dict[str, str] = {}


GRAMMAR_BUILTINS_EXTRA = """
class Exception(BaseException): pass
class BaseExceptionGroup(BaseException, Generic[T]): ...
class ExceptionGroup(BaseExceptionGroup[T], Exception): ...
class classmethod: pass
class staticmethod: pass
property = object()
def print(*a: object) -> None: ...
"""


def grammar_fixtures() -> dict[str, str]:
    """builtins = the repo's fixtures/primitives.pyi plus the few symbols the grammar's forms need (the same
    definitions the repo's exception/classmethod/property fixtures use); typing = fixtures/typing-full.pyi."""
    if not _FIXTURE_CACHE:
        for src, dst in (("fixtures/primitives.pyi", "builtins.pyi"), ("fixtures/typing-full.pyi", "typing.pyi")):
            with open(os.path.join(corpus.UNIT, src), encoding="utf-8") as f:
                _FIXTURE_CACHE[dst] = f.read()
        _FIXTURE_CACHE["builtins.pyi"] += GRAMMAR_BUILTINS_EXTRA
    return dict(_FIXTURE_CACHE)


# --------------------------------------------------------------------------- judging one program


def judge(prog: dict[str, Any], dres: dict[str, Any], nres: dict[str, Any], main_file: str = "main",
          only_file: str | None = None) -> tuple[list[tuple[str, str]], dict[str, Any]]:
    """Findings [(signature, what)] and statistics for one program given the two build results."""

    def lines_of(f: str) -> list[bytes] | None:
        f = J.norm_path(f)
        if f == main_file and prog.get("main") is not None:
            return J.line_table(prog["main"])
        if f.startswith("tmp/") and f[4:] in prog["files"]:
            return J.line_table(prog["files"][f[4:]])
        return None

    found: list[tuple[str, str]] = []
    st: dict[str, Any] = {"diags": 0, "located": 0, "with_end": 0, "kinds": set(), "eof_line": 0, "unknown_file": 0}
    for who, r in (("default", dres), ("native", nres)):
        ds, _ = J.parse_messages(r["messages"])
        for d in ds:
            lt = lines_of(d.file)
            if lt is None:
                st["unknown_file"] += 1
                continue
            st["diags"] += 1
            st["kinds"].add(J.msgkind(d.text, collapse_syntax=True))
            if d.col is not None:
                st["located"] += 1
            if d.el is not None:
                st["with_end"] += 1
            if d.line is not None and d.line == len(lt) and lt[-1] == b"":
                st["eof_line"] += 1
            for fault in J.position_faults(d, lt):
                found.append((f"pos|{who}|{fault}|{J.msgkind(d.text, collapse_syntax=True)}", f"{who} parser: {d.raw[:200]!r}"))
    tagged = "no_native_parse" in (prog.get("tags") or [])

    def diff(sig: str, what: str) -> None:
        if tagged:
            found.append((f"repo-acknowledged|{prog.get('name')}", f"[{sig}] {what}"))
        else:
            found.append((sig, what))

    dc, nc = dres.get("crashed"), nres.get("crashed")
    if _fixture_artefact(dc) or _fixture_artefact(nc):
        # the toy fixture stubs lack a symbol the checker looks up (e.g. typing_extensions.TypeAliasType for a `type`
        # statement under a 3.10 target): says nothing about the parsers; counted, never reported
        st["outcome"] = "fixture-artefact-crash"
    elif dc and nc:
        st["outcome"] = "both-crash"  # no diagnostics on either side; crash freedom is not this property
    elif dc or nc:
        diff(f"crash|default={_crash_kind(dc)}|native={_crash_kind(nc)}", f"default crashed={dc} native crashed={nc}")
        st["outcome"] = "crash"
    elif dres["blocker"] != nres["blocker"]:
        who = "default" if dres["blocker"] else "native"
        r = dres if dres["blocker"] else nres
        o = nres if dres["blocker"] else dres
        diff(f"blocker|{who}-only|{J.first_blocker_kind(r['messages'])}",
             f"only the {who} parser rejects the file: {r['messages'][:2]} / the other reports {o['messages'][:2]}")
        st["outcome"] = "blocker-mismatch"
    elif dres["blocker"]:
        st["outcome"] = "both-reject"
    else:
        st["outcome"] = "both-accept"
        for sig, what in J.compare(dres["messages"], nres["messages"], lines_of):
            diff(sig, what)
    return found, st


def _fixture_artefact(c: str | None) -> bool:
    return bool(c) and ("lookup_qualified" in c or "Could not find builtin symbol" in c or "fixture" in c)


def _crash_kind(c: str | None) -> str:
    if not c:
        return "no"
    return c[:200]


# --------------------------------------------------------------------------- single lane (one program per build)


def run_single(prog: dict[str, Any], root: str, check_projection: bool = False) -> dict[str, Any]:
    L.materialize(prog, root)
    res = {}
    for native in (False, True):
        try:
            res[native] = run_isolated(L.build_one, prog, root, native, timeout=300)
        except ExecError as e:
            if e.kind == "timeout":
                return {"herr": f"timeout {prog['id']} native={native}"}
            res[native] = {"messages": [], "blocker": False, "crashed": f"child {e.kind}: {e.info.strip().splitlines()[-1][:100] if e.info.strip() else ''}"}
    out: dict[str, Any] = {"res": res}
    if check_projection and not res[False].get("crashed"):
        try:
            r3 = run_isolated(L.build_one, prog, root, False, False, timeout=300)
            ds, other = J.parse_messages(res[False]["messages"])
            proj = [J.parse_line(m).s1 if J.parse_line(m) else m for m in res[False]["messages"]]
            out["projection_ok"] = proj == r3["messages"]
            if not out["projection_ok"]:
                out["projection_diff"] = (proj[:3], r3["messages"][:3])
        except ExecError:
            pass
    return out


def single_batch(item: dict[str, Any]) -> dict[str, Any]:
    """item: {"progs": [prog...], "projection": bool}.  One forked child per build."""
    root = scratch("c14", f"s{os.getpid()}")
    out = {"findings": [], "herr": [], "stats": Counter(), "kinds": set(), "samples": [], "projection": [0, 0]}
    for i, prog in enumerate(item["progs"]):
        r = run_single(prog, root, check_projection=item.get("projection", False) and i == 0)
        if "herr" in r:
            out["herr"].append(r["herr"])
            continue
        if "projection_ok" in r:
            out["projection"][0] += 1
            if not r["projection_ok"]:
                out["projection"][1] += 1
                out["herr"].append(f"projection mismatch {prog['id']}: {r['projection_diff']}")
        found, st = judge(prog, r["res"][False], r["res"][True])
        _account(out, prog, found, st, r["res"], "single")
    shutil.rmtree(root, ignore_errors=True)
    out["kinds"] = sorted(out["kinds"])
    return out


def _account(out: dict[str, Any], prog: dict[str, Any], found: list[tuple[str, str]], st: dict[str, Any],
             res: dict[Any, Any], lane: str) -> None:
    s = out["stats"]
    s["pairs"] += 1
    s["outcome:" + st["outcome"]] += 1
    s["diags"] += st["diags"]
    s["located"] += st["located"]
    s["with_end"] += st["with_end"]
    s["eof_line_diags"] += st["eof_line"]
    s["unknown_file_diags"] += st["unknown_file"]
    if st["diags"] or st["outcome"] in ("both-reject", "blocker-mismatch", "crash"):
        s["nontrivial"] += 1
    out["kinds"].update(st["kinds"])
    if st["diags"] and len(out["samples"]) < 1:
        out["samples"].append({"program": prog["id"], "pyver": list(prog.get("pyver") or ()), "lane": lane,
                               "default": res[False]["messages"][:2], "native": res[True]["messages"][:2]})
    seen: Counter[str] = Counter()
    for sig, what in found:
        seen[sig] += 1
        s["findings"] += 1
        if seen[sig] == 1:
            out["findings"].append({"sig": sig, "what": what, "size": _size(prog), "replay": _replay_detail(prog), "lane": lane})


def _size(prog: dict[str, Any]) -> int:
    return len(prog["main"]) if prog.get("main") is not None else len(prog["files"].get(FILE_LANE_NAME, ""))


def _replay_detail(prog: dict[str, Any]) -> dict[str, Any]:
    d = {"id": prog["id"], "pyver": list(prog.get("pyver") or ()), "kind": prog.get("kind", "text")}
    text = prog["main"] if prog.get("main") is not None else prog["files"].get(FILE_LANE_NAME)
    if isinstance(prog.get("corrupted"), str):
        d["corruption"] = prog["corrupted"]
    if prog.get("main") is None:
        d["read_from_disk"] = True  # the program is tmp/m00000.py, read by mypy itself (what the command line does)
        if NEIGHBOUR_NAME in prog["files"]:
            d["with_trivial_second_module"] = True
    if d["kind"] == "corpus":
        d["case"] = prog["id"]
        if prog.get("corrupted"):
            d["main"] = text
    else:
        d["main"] = text
    return d


FILE_LANE_NAME = "m00000.py"


NEIGHBOUR_NAME = "m00001.py"


def _as_file_prog(prog: dict[str, Any], neighbour: bool = False) -> dict[str, Any]:
    """The same single program, but as a module file that mypy reads from disk itself; with `neighbour` a second,
    trivial module (`pass`) is built along (mypy's native front end takes another code path for more than one file)."""
    p = dict(prog)
    p["files"] = dict(prog["files"])
    p["files"][FILE_LANE_NAME] = prog["main"] if prog.get("main") is not None else prog["files"][FILE_LANE_NAME]
    p["main"] = None
    p["entries"] = [("tmp/" + FILE_LANE_NAME, FILE_LANE_NAME[:-3])]
    if neighbour:
        p["files"][NEIGHBOUR_NAME] = "pass\n"
        p["entries"].append(("tmp/" + NEIGHBOUR_NAME, NEIGHBOUR_NAME[:-3]))
    return p


# --------------------------------------------------------------------------- module lane (many programs per build)


def build_modules(spec: dict[str, Any], root: str, native: bool) -> dict[str, Any]:
    import io
    import sys

    from mypy import build as mb
    from mypy.errors import CompileError
    from mypy.modulefinder import BuildSource

    os.chdir(root)
    L.quiet_fd2()
    options = L.make_options(spec, native)
    sources = [BuildSource("tmp/" + rel, rel[:-3], None) for rel in spec["modules"]]
    blocker, crashed = False, None
    serr = io.StringIO()
    sout = io.StringIO()
    real = (sys.stdout, sys.stderr)
    sys.stdout, sys.stderr = sout, serr
    try:
        res = mb.build(sources=sources, options=options, alt_lib_path="tmp", stdout=sout, stderr=serr)
        msgs = res.errors
    except CompileError as e:
        msgs, blocker = e.messages, True
    except SystemExit as e:
        msgs, crashed = [], f"SystemExit({e.code})"
    except BaseException as e:  # noqa: BLE001
        msgs, crashed = [], L.exc_kind(e)
    finally:
        sys.stdout, sys.stderr = real
    crashed = L.crash_of(crashed, sout.getvalue(), serr.getvalue())
    return {"messages": list(msgs), "blocker": blocker, "crashed": crashed}


def _module_round(progs: list[tuple[str, str]], meta: dict[str, Any], root: str, out: dict[str, Any], depth: int = 0) -> None:
    """Build `progs` as independent modules with both parsers; on a blocker/crash split and retry; singles go
    through the single lane."""
    if not progs:
        return
    if len(progs) == 1:
        pid, text = progs[0]
        prog = _text_prog(pid, text, meta)
        r = run_single(prog, root)
        if "herr" in r:
            out["herr"].append(r["herr"])
            return
        found, st = judge(prog, r["res"][False], r["res"][True])
        _account(out, prog, found, st, r["res"], "single")
        return
    names = [f"m{i:05d}.py" for i in range(len(progs))]
    files = dict(meta.get("fixtures") or grammar_fixtures())
    for n, (_pid, text) in zip(names, progs):
        files[n] = text
    spec = {"files": files, "modules": names, "flags": meta["flags"], "pyver": meta["pyver"],
            "file": meta.get("file", ""), "name": meta.get("name", "")}
    L.materialize(spec, root)
    res = {}
    for native in (False, True):
        try:
            res[native] = run_isolated(build_modules, spec, root, native, timeout=600)
        except ExecError as e:
            if e.kind == "timeout":
                out["herr"].append(f"timeout module batch of {len(progs)} native={native}")
                return
            res[native] = {"messages": [], "blocker": False, "crashed": f"{e.kind}"}
    out["stats"]["module_builds"] += 2
    if any(res[k]["blocker"] or res[k]["crashed"] for k in res):
        out["stats"]["batch_splits"] += 1
        named = set()
        for k in res:
            if res[k]["blocker"]:
                named |= {J.norm_path(f) for f in J.split_by_file(res[k]["messages"])}
        idx = [i for i, n in enumerate(names) if f"tmp/{n}" in named]
        if idx and len(idx) < len(progs) and depth < 40:
            # the blocked builds name the rejected files: those are built alone, the rest together again
            for i in idx:
                _module_round([progs[i]], meta, root, out, depth + 1)
            _module_round([p for i, p in enumerate(progs) if i not in set(idx)], meta, root, out, depth + 1)
            return
        mid = len(progs) // 2
        _module_round(progs[:mid], meta, root, out, depth + 1)
        _module_round(progs[mid:], meta, root, out, depth + 1)
        return
    per = {k: J.split_by_file(res[k]["messages"]) for k in res}
    known = {f"tmp/{n}" for n in names}
    stray = [m for k in res for f, ms in per[k].items() if J.norm_path(f) not in known for m in ms]
    if stray:
        out["stats"]["stray_messages"] += len(stray)
        if len(out["herr_soft"]) < 2:
            out["herr_soft"].append(stray[0][:300])
    for n, (pid, text) in zip(names, progs):
        f = f"tmp/{n}"
        d = {"messages": per[False].get(f, []), "blocker": False, "crashed": None}
        nn = {"messages": per[True].get(f, []), "blocker": False, "crashed": None}
        prog = {"id": pid, "main": None, "files": {n: text}, "pyver": meta["pyver"], "tags": []}
        found, st = judge(prog, d, nn)
        # what is kept for the report is the program alone (text lane); the module lane is the sieve
        rec = _text_prog(pid, text, meta)
        _account(out, rec, found, st, {False: d, True: nn}, "modules")


def _text_prog(pid: str, text: str, meta: dict[str, Any]) -> dict[str, Any]:
    """The program alone, as testcheck would run it (text lane).  meta["case"] set: a corrupted corpus case (its own
    fixtures and flags), else a grammar program."""
    if meta.get("case"):
        return {"id": meta["case"], "main": text, "files": dict(meta["fixtures"]), "flags": list(meta["flags"]),
                "pyver": tuple(meta["pyver"]), "file": meta.get("file", ""), "name": meta.get("name", ""), "tags": [],
                "kind": "corpus", "corrupted": pid}
    return {"id": pid, "main": text, "files": grammar_fixtures(), "flags": list(meta["flags"]), "pyver": tuple(meta["pyver"]),
            "file": "", "name": "", "tags": [], "kind": "text"}


def module_batch(item: dict[str, Any]) -> dict[str, Any]:
    """item: {"progs": [(id, text)...], "pyver", "flags"}."""
    root = scratch("c14", f"m{os.getpid()}")
    out = {"findings": [], "herr": [], "herr_soft": [], "stats": Counter(), "kinds": set(), "samples": [], "projection": [0, 0]}
    alone = [p for p in item["progs"] if G.predicted_blocker(p[1])]
    together = [p for p in item["progs"] if not G.predicted_blocker(p[1])]
    out["stats"]["routed_alone"] += len(alone)
    for p in alone:
        _module_round([p], item, root, out)
    _module_round(together, item, root, out)
    shutil.rmtree(root, ignore_errors=True)
    out["kinds"] = sorted(out["kinds"])
    # keep the batch result small: per signature the smallest KEEP_PER_SIG findings and a count
    cnt = Counter(f["sig"] for f in out["findings"])
    kept: dict[str, list] = {}
    for f in sorted(out["findings"], key=lambda f: (f["size"], f["replay"]["id"])):
        if len(kept.setdefault(f["sig"], [])) < KEEP_PER_SIG:
            kept[f["sig"]].append(f)
    out["findings"] = [f for v in kept.values() for f in v]
    out["sig_counts"] = dict(cnt)
    return out


# --------------------------------------------------------------------------- parse-entry lane (space c)


def parse_entry(text: str, native: bool, pyver: tuple[int, int]) -> dict[str, Any]:
    """What `State.parse_file` does: mypy.parse.parse on a fresh Errors object (eager: the native tree is
    de-serialised and its stored errors reported, as the build does right after parsing)."""
    import mypy.errors
    import mypy.parse
    from mypy.options import Options

    o = Options()
    o.python_version = pyver
    o.native_parser = native
    o.show_column_numbers = True
    o.show_error_end = True
    o.hide_error_codes = False
    errors = mypy.errors.Errors(o)
    try:
        mypy.parse.parse(text, "main", "__main__", errors, o, eager=True)
    except BaseException as e:  # noqa: BLE001
        return {"messages": [], "blocker": False, "crashed": L.exc_kind(e)}
    return {"messages": errors.new_messages(), "blocker": errors.is_blockers(), "crashed": None}


def parse_batch(item: dict[str, Any]) -> dict[str, Any]:
    """item: {"texts": [(id, text)...], "pyver"}.  Runs in one fresh child (the parse entry point keeps no state
    between calls: a fresh Errors and Options per call)."""
    pyver = tuple(item["pyver"])
    L.quiet_fd2()
    out = {"findings": [], "stats": Counter(), "accept": [], "kinds": set(), "herr": [], "samples": []}
    for pid, text in item["texts"]:
        prog = {"id": pid, "main": text, "files": {}, "pyver": pyver, "tags": [], "kind": item.get("kind", "text")}
        d = parse_entry(text, False, pyver)
        n = parse_entry(text, True, pyver)
        found, st = judge(prog, d, n)
        out["stats"]["parse_pairs"] += 1
        out["stats"]["parse:" + st["outcome"]] += 1
        out["stats"]["parse_diags"] += st["diags"]
        out["kinds"].update(st["kinds"])
        if st["outcome"] == "both-accept":
            out["accept"].append(pid)
            # parse-level messages of accepted programs are compared by the build lane, positions here
            found = [f for f in found if f[0].startswith("pos|")]
        if st["outcome"] == "both-reject" and len(out["samples"]) < 1:
            out["samples"].append({"program": text[len(G.PRELUDE):][:80] if text.startswith(G.PRELUDE) else text[:80], "lane": "parse-entry",
                                   "default": d["messages"][:1], "native": n["messages"][:1]})
        seen = set()
        for sig, what in found:
            out["stats"]["parse_findings"] += 1
            if sig not in seen:
                seen.add(sig)
                out["findings"].append({"sig": sig, "what": what, "size": len(text), "pid": pid, "lane": "parse-entry"})
    cnt = Counter(f["sig"] for f in out["findings"])
    kept: dict[str, list] = {}
    for f in sorted(out["findings"], key=lambda f: (f["size"], f["pid"])):
        if len(kept.setdefault(f["sig"], [])) < KEEP_PER_SIG:
            kept[f["sig"]].append(f)
    out["findings"] = [f for v in kept.values() for f in v]
    out["sig_counts"] = dict(cnt)
    out["kinds"] = sorted(out["kinds"])
    return out


# --------------------------------------------------------------------------- spaces


def corpus_files(ctx: Ctx) -> list[str]:
    files = [os.path.basename(f) for f in corpus.files_matching("check-*.test")]
    run = L.running_pyversion()
    out = []
    for f in files:
        pv = corpus.pyversion_for(f)
        if pv is not None and pv > run:
            continue  # mypy/test/testcheck.py removes these files on older interpreters
        out.append(f)
    if ctx.quick:
        out = sorted(seeded_order(out, ctx.seed + 1)[:Q_FILES])
    return out


def implied_version(c: corpus.Case) -> tuple[int, int]:
    for i, f in enumerate(c.flags):
        m = re.match(r"--python-version(?:=(.*))?$", f)
        if m:
            v = m.group(1) or (c.flags[i + 1] if i + 1 < len(c.flags) else "")
            mm = re.match(r"3\.(\d+)$", v)
            if mm:
                return (3, int(mm.group(1)))
    return L.testfile_pyversion(c.file)


def versions_for(ctx: Ctx, c: corpus.Case, index: int) -> list[tuple[int, int]]:
    iv = implied_version(c)
    if ctx.thorough:
        vs = list(VERSIONS)
        if iv not in vs:
            vs.append(iv)
        return vs
    others = [v for v in VERSIONS if v != iv]
    k = (index + ctx.seed) % len(others)
    return [iv, others[k], others[(k + 2) % len(others)]]


def corpus_programs(ctx: Ctx, cov: dict[str, Any]) -> tuple[list[dict[str, Any]], list[corpus.Case]]:
    progs, usable = [], []
    skipped: Counter[str] = Counter()
    files = corpus_files(ctx)
    for f in files:
        for c in corpus.load_file(os.path.join(corpus.UNIT, f)):
            r = L.usable_reason(c)
            if r:
                skipped[r.split(" ")[0] + (" comment" if r == "type comment" else "")] += 1
                continue
            usable.append(c)
    for i, c in enumerate(usable):
        for pv in versions_for(ctx, c, i):
            p = L.program_of(c, pv)
            p["kind"] = "corpus"
            progs.append(p)
    cov["corpus_files"] = files if ctx.quick else len(files)
    cov["corpus_cases_usable"] = len(usable)
    cov["corpus_cases_skipped"] = dict(skipped)
    cov["corpus_cases_repo_tagged_no_native_parse"] = sum(1 for c in usable if "no_native_parse" in c.tags)
    return progs, usable


def grammar_programs(ctx: Ctx, cov: dict[str, Any]) -> tuple[list[tuple[str, str]], list[tuple[str, str]]]:
    """(programs at GRAMMAR_PYVER, depth-1 programs) -- deduplicated by text, CPython-valid only."""
    fam: Counter[str] = Counter()
    rejected: Counter[str] = Counter()
    seen: set[str] = set()
    out: list[tuple[str, str]] = []

    def add(pid: str, text: str, family: str) -> bool:
        if text in seen:
            return False
        if not G.cpython_accepts(text):
            rejected[family] += 1
            return False
        seen.add(text)
        out.append((pid, text))
        fam[family] += 1
        return True

    d1: list[tuple[str, str]] = []
    for pid, text in G.depth1():
        if add(pid, text, "depth1"):
            d1.append((pid, text))
    for pid, text in G.type_x_position():
        add(pid, text, "type-x-position")
    # quick tier: one variant per (form, hole, form) -- the bare one, else the parenthesised one -- and only the
    # combinations in which at least one factor is a representative form; thorough: full products, all variants
    for pid, text in G.pattern_x_pattern():
        parts = pid.split(":")
        if ctx.quick:
            if parts[1] != "case":
                continue
            if len(parts) > 3 and not (parts[2] in G.REP_PATTERNS or parts[4] in G.REP_PATTERNS):
                continue
        add(pid, text, "pattern-x-pattern")
    for gen, family in ((G.stmt_x_expr, "stmt-x-expr"), (G.expr_x_expr, "expr-x-expr")):
        done: set[str] = set()
        outer_reps = G.REP_STMTS if family == "stmt-x-expr" else G.REP_EXPRS
        for pid, text in gen():
            if ctx.thorough:
                add(pid, text, family)
                continue
            if pid.endswith(":stmt") or pid.endswith(":probe"):
                continue
            parts = pid.split(":")
            if not (parts[1] in outer_reps or parts[3] in G.REP_EXPRS):
                continue
            if family == "expr-x-expr" and not (parts[1] in outer_reps and parts[3] in G.REP_EXPRS) \
                    and parts[1] not in G.QUICK_FULL_OUTER and parts[3] not in G.QUICK_FULL_INNER:
                continue  # expression x expression: representative x representative, plus six full rows and columns
            key = pid.rsplit(":", 1)[0]
            if key in done:
                continue
            if add(pid, text, family) or text in seen:
                done.add(key)
    for pid, text in d1:
        for lname, t2 in G.layouts(text):
            if ctx.quick and re.search(r"-\d+$", lname):
                if not (lname.startswith(G.QUICK_GAP_LAYOUTS) and pid.startswith("S:")):
                    continue
            add(f"L:{lname}:{pid}", t2, "layout")
    cov["grammar_programs"] = dict(fam)
    cov["grammar_candidates_rejected_by_cpython"] = dict(rejected)
    cov["grammar_forms"] = {"statements": len(G.STMTS), "expressions": len(G.EXPRS), "patterns": len(G.PATTERNS),
                            "types": len(G.TYPES), "annotation_positions": len(G.ANNOTATION_POSITIONS)}
    return out, d1


# --------------------------------------------------------------------------- aggregation


class Agg:
    def __init__(self) -> None:
        self.stats: Counter[str] = Counter()
        self.kinds: set[str] = set()
        self.sig_counts: Counter[str] = Counter()
        self.examples: dict[str, list[dict]] = {}
        self.herr: list[str] = []
        self.samples: list[Any] = []
        self.projection = [0, 0]
        self.stray: list[str] = []

    def take(self, val: dict[str, Any], phase: str) -> None:
        for k, v in val["stats"].items():
            self.stats[k] += v
            self.stats[f"{phase}:{k}"] += v
        self.kinds.update(val["kinds"])
        self.herr.extend(val["herr"])
        self.stray.extend(val.get("herr_soft", []))
        if val.get("samples") and sum(1 for s in self.samples if s.get("phase") == phase) < 2:
            s = dict(val["samples"][0])
            s["phase"] = phase
            self.samples.append(s)
        if "projection" in val:
            self.projection[0] += val["projection"][0]
            self.projection[1] += val["projection"][1]
        counts = val.get("sig_counts") or Counter(f["sig"] for f in val["findings"])
        for s, n in counts.items():
            self.sig_counts[s] += n
        for f in val["findings"]:
            ex = self.examples.setdefault(f["sig"], [])
            ex.append(f)
            ex.sort(key=lambda f: (f["size"], str(f.get("replay", {}).get("id", f.get("pid", "")))))
            del ex[KEEP_PER_SIG * 2:]


# --------------------------------------------------------------------------- run


def _cpu() -> float:
    t = os.times()
    return t.user + t.system + t.children_user + t.children_system


def run(ctx: Ctx, phases: tuple[str, ...] = ("corpus", "grammar", "corrupt"), families: tuple[str, ...] | None = None) -> Result:
    """`phases` / `families` (grammar id prefixes) restrict the run for detection demonstrations only; a restricted
    run reports exhaustive=False and skips the vacuity gates that need the left-out phases."""
    L.preload()
    scratch_root()  # before any fork: workers then share (and the runner removes) one scratch tree
    cov: dict[str, Any] = {}
    agg = Agg()
    t0 = time.time()
    c0 = _cpu()
    cpu_by_phase: dict[str, float] = {}

    # ---- (a) corpus
    cprogs, usable = corpus_programs(ctx, cov)
    if "corpus" not in phases:
        cprogs = []
    cprogs.sort(key=lambda p: (-len(p["main"]), p["id"], p["pyver"]))  # long first for pool balance
    items = [{"progs": list(ch), "projection": True} for ch in chunked(cprogs, 12)]
    for _i, _it, st, val in pmap(single_batch, items, fresh=False, timeout=3600):
        if st != "ok":
            agg.herr.append(f"corpus batch failed: {val}")
            continue
        agg.take(val, "corpus")
    cpu_by_phase["corpus"] = round(_cpu() - c0, 1)
    log(f"C14 corpus: {len(cprogs)} program x version pairs, wall {time.time() - t0:.0f}s cpu {_cpu() - c0:.0f}s")

    # ---- (b) grammar
    gprogs, d1 = grammar_programs(ctx, cov)
    if families is not None:
        gprogs = [(pid, t) for pid, t in gprogs if pid.split(":")[0] in families]
    meta = {"pyver": GRAMMAR_PYVER, "flags": GRAMMAR_FLAGS}
    items = [{"progs": list(ch), **meta} for ch in chunked(gprogs, BATCH)]
    # the version axis: quick = the depth-1 programs (they carry all the version-gated syntax) at every other version;
    # thorough = depth-1, type and pattern programs at every other version, plus statement x expression (bare) at 3.10
    small = [(pid, t) for pid, t in gprogs if pid.split(":")[0] in ("S", "E", "P")]
    medium = [(pid, t) for pid, t in gprogs if pid.split(":")[0] in ("S", "E", "P", "TxA", "PxP")]
    oldest = [(pid, t) for pid, t in gprogs if pid.split(":")[0] == "SxE" and pid.endswith(":bare")]
    for pv in VERSIONS:
        if pv == GRAMMAR_PYVER:
            continue
        sel = small if ctx.quick else (medium + oldest if pv == VERSIONS[0] else medium)
        items += [{"progs": [(f"{pid}@3.{pv[1]}", t) for pid, t in ch], "pyver": pv, "flags": GRAMMAR_FLAGS} for ch in chunked(sel, BATCH)]
        cov.setdefault("grammar_programs_other_versions", {})[f"3.{pv[1]}"] = len(sel)
    if "grammar" not in phases:
        items = []
    n_grammar = sum(len(it["progs"]) for it in items)
    for _i, _it, st, val in pmap(module_batch, items, fresh=False, timeout=3600):
        if st != "ok":
            agg.herr.append(f"grammar batch failed: {val}")
            continue
        agg.take(val, "grammar")
    cpu_by_phase["grammar"] = round(_cpu() - c0 - sum(cpu_by_phase.values()), 1)
    log(f"C14 grammar: {n_grammar} programs, wall {time.time() - t0:.0f}s cpu {_cpu() - c0:.0f}s")

    # ---- (c) corruptions: parse-entry lane
    bases: list[tuple[str, str, int, dict | None]] = [(pid, t, len(G.PRELUDE), None) for pid, t in d1
                                                      if ctx.thorough or pid.split(":")[0] in ("S", "P")]
    if ctx.thorough:
        bases += [(pid, t, len(G.PRELUDE), None) for pid, t in gprogs if pid.split(":")[0] in ("TxA", "PxP") and ":paren" not in pid]
    # the corpus slice of (c) is seed-independent: the smallest single-file cases of ALL files (quick: a prefix of
    # the thorough list, so every quick finding is a thorough finding)
    allc: list[corpus.Case] = []
    for f in corpus_files(Ctx("thorough", 0)):
        allc += [c for c in corpus.load_file(os.path.join(corpus.UNIT, f)) if L.usable_reason(c) is None]
    ccases = [c for c in allc if not c.files and "no_native_parse" not in c.tags and 40 <= len(c.main) < 1500]
    ccases = sorted(ccases, key=lambda c: (len(c.main), c.id))
    ccases = ccases[: (Q_CORRUPT_CASES if ctx.quick else T_CORRUPT_CASES)]
    if "corrupt" not in phases:
        bases, ccases = [], []
    texts: dict[str, str] = {}
    known_texts = {t for _p, t in gprogs}
    n_corr = 0
    for pid, t, start, _c in bases:
        for cname, t2 in G.corruptions(t, start):
            n_corr += 1
            if t2 not in texts and t2 not in known_texts:
                texts[t2] = f"C:{cname}:{pid}"
    cov["corruptions_grammar_generated"] = n_corr
    cov["corruptions_grammar_distinct"] = len(texts)
    ctexts: dict[str, dict[str, str]] = {}
    n_ccorr = 0
    for c in ccases:
        mine = ctexts.setdefault(c.id, {})
        for cname, t2 in G.corruptions(c.main + "\n", 0):
            n_ccorr += 1
            if t2 not in mine and not L.has_type_comment(t2):
                mine[t2] = f"CC:{cname}:{c.id}"
    cov["corruptions_corpus_cases"] = len(ccases)
    cov["corruptions_corpus_generated"] = n_ccorr
    cov["corruptions_corpus_distinct"] = sum(len(v) for v in ctexts.values())
    cov["corruption_ops"] = ["delete", "duplicate"] + [f"replace by {r!r}" for r in G.REPLACEMENTS]

    pitems = [{"texts": [(pid, t) for t, pid in ch], "pyver": GRAMMAR_PYVER} for ch in chunked(sorted(texts.items(), key=lambda kv: kv[1]), 1500)]
    case_by_id = {c.id: c for c in ccases}
    for cid, mine in ctexts.items():
        pv = implied_version(case_by_id[cid])
        pv = pv if pv <= L.running_pyversion() else L.running_pyversion()
        pitems += [{"texts": [(pid, t) for t, pid in ch], "pyver": pv, "case": cid} for ch in chunked(sorted(mine.items(), key=lambda kv: kv[1]), 1500)]
    text_of: dict[str, str] = {pid: t for t, pid in texts.items()}
    for mine in ctexts.values():
        text_of.update({pid: t for t, pid in mine.items()})
    accept_g: list[tuple[str, str]] = []
    accept_c: dict[str, list[tuple[str, str]]] = {}
    parse_findings: list[dict] = []
    for _i, it, st, val in pmap(parse_batch, pitems, fresh=True, timeout=3600):
        if st != "ok":
            agg.herr.append(f"parse batch failed: {val}")
            continue
        fs = val.pop("findings")
        for f in fs:
            f["case"] = it.get("case")
            f["pyver"] = list(it["pyver"])
        parse_findings.extend(fs)
        val["findings"] = []
        sc = val.pop("sig_counts")
        agg.take(val, "corrupt-parse")
        for s, n in sc.items():
            agg.stats["parse_level_occurrences"] += n
        if it.get("case"):
            accept_c.setdefault(it["case"], []).extend((pid, text_of[pid]) for pid in val["accept"])
        else:
            accept_g.extend((pid, text_of[pid]) for pid in val["accept"])
    cpu_by_phase["corrupt-parse"] = round(_cpu() - c0 - sum(cpu_by_phase.values()), 1)
    log(f"C14 corruptions parse-entry: {agg.stats['parse_pairs']} pairs, wall {time.time() - t0:.0f}s cpu {_cpu() - c0:.0f}s")

    # ---- (c) corruptions both parsers accept: build lanes
    accept_g.sort(key=lambda x: x[0])
    items = [{"progs": list(ch), **meta} for ch in chunked(accept_g, BATCH)]
    for _i, _it, st, val in pmap(module_batch, items, fresh=False, timeout=3600):
        if st != "ok":
            agg.herr.append(f"corruption module batch failed: {val}")
            continue
        agg.take(val, "corrupt-build")
    items = []
    n_cc = 0
    for cid in sorted(accept_c):
        c = case_by_id[cid]
        pv = implied_version(c)
        pv = pv if pv <= L.running_pyversion() else L.running_pyversion()
        base = L.program_of(c, pv)
        cmeta = {"pyver": pv, "flags": base["flags"], "fixtures": base["files"], "case": cid, "file": c.file, "name": c.name}
        acc = sorted(accept_c[cid])
        n_cc += len(acc)
        items += [{"progs": list(ch), **cmeta} for ch in chunked(acc, BATCH)]
    for _i, _it, st, val in pmap(module_batch, items, fresh=False, timeout=3600):
        if st != "ok":
            agg.herr.append(f"corpus corruption module batch failed: {val}")
            continue
        agg.take(val, "corrupt-build")
    cpu_by_phase["corrupt-build"] = round(_cpu() - c0 - sum(cpu_by_phase.values()), 1)
    log(f"C14 corruptions build lane: {len(accept_g)} + {n_cc} programs, wall {time.time() - t0:.0f}s cpu {_cpu() - c0:.0f}s")

    # ---- confirmation: every signature seen only in the module lane / parse-entry lane is re-run ALONE
    # through real builds (smallest KEEP_PER_SIG examples); the reported example is a confirmed one.
    by_sig_parse: dict[str, list[dict]] = {}
    for f in sorted(parse_findings, key=lambda f: (f["size"], f["pid"])):
        by_sig_parse.setdefault(f["sig"], []).append(f)
    parse_counts = Counter(f["sig"] for f in parse_findings)
    todo: list[dict[str, Any]] = []
    for sig, exs in agg.examples.items():
        for f in exs[:KEEP_PER_SIG]:
            if f["lane"] == "modules":
                todo.append({"sig": sig, "prog": _prog_from_replay(f["replay"]), "origin": "modules"})
    for sig, exs in by_sig_parse.items():
        for f in exs[:KEEP_PER_SIG]:
            text = text_of[f["pid"]]
            if f.get("case"):
                p = L.program_of(case_by_id[f["case"]], tuple(f["pyver"]))
                p.update({"id": f["case"], "main": text, "kind": "corpus", "corrupted": f["pid"]})
            else:
                p = _text_prog(f["pid"], text, meta)
            todo.append({"sig": sig, "prog": p, "origin": "parse-entry"})
    confirmed: dict[str, list[dict]] = {}
    unconfirmed: dict[str, list[dict]] = {}

    def confirm_pass(tasks: list[dict[str, Any]]) -> list[dict[str, Any]]:
        """Run every task's program alone; returns the tasks whose signature did not show."""
        missed: list[dict[str, Any]] = []
        citems = [{"progs": [t["prog"] for t in ch]} for ch in chunked(tasks, 6)]
        k = 0
        for _i, it, st, val in pmap(single_batch, citems, fresh=False, timeout=3600):
            chunk = tasks[k:k + len(it["progs"])]
            k += len(it["progs"])
            if st != "ok":
                agg.herr.append(f"confirmation batch failed: {val}")
                continue
            agg.stats["confirmation_pairs"] += val["stats"].get("pairs", 0)
            agg.herr.extend(val["herr"])
            for t in chunk:
                want = _replay_detail(t["prog"])
                hits = [f for f in val["findings"] if f["sig"] == t["sig"] and f["replay"] == want]
                if hits:
                    confirmed.setdefault(t["sig"], []).extend(hits)
                else:
                    missed.append(t)
        return missed

    missed = confirm_pass(todo)
    # not shown by the program passed as text: try the same program alone as a file mypy reads itself
    second = [{"sig": t["sig"], "prog": _as_file_prog(t["prog"]), "origin": t["origin"]} for t in missed if t["origin"] == "modules"]
    still = confirm_pass(second)
    # ... and next to one trivial second module (the multi-file code path with the smallest possible neighbour)
    third = [{"sig": t["sig"], "prog": _as_file_prog(t["prog"], neighbour=True), "origin": t["origin"]} for t in still]
    still = confirm_pass(third)
    for t in still + [t for t in missed if t["origin"] != "modules"]:
        unconfirmed.setdefault(t["sig"], []).append(t)
    cpu_by_phase["confirm"] = round(_cpu() - c0 - sum(cpu_by_phase.values()), 1)
    log(f"C14 confirmations: {len(todo)} programs, wall {time.time() - t0:.0f}s cpu {_cpu() - c0:.0f}s")

    # ---- violations, simplest first per signature
    all_sigs = set(agg.sig_counts) | set(parse_counts)
    violations: list[Violation] = []
    per_sig = {}
    parse_only: dict[str, Any] = {}
    for sig in sorted(all_sigs):
        direct = [f for f in agg.examples.get(sig, []) if f["lane"] == "single"]
        cands = sorted(direct + confirmed.get(sig, []), key=lambda f: (f["size"], str(f["replay"]["id"])))
        n = agg.sig_counts.get(sig, 0) + parse_counts.get(sig, 0)
        if cands:
            per_sig[sig] = n
            for f in cands[:KEEP_PER_SIG]:
                violations.append(Violation(sig, f"{f['replay'].get('corruption') or f['replay']['id']} (py {'.'.join(map(str, f['replay']['pyver']))}): {f['what']}"[:600],
                                            {"replay": f["replay"], "occurrences_this_run": n}))
        elif sig not in agg.sig_counts:
            # a disagreement at the parse entry point that the complete builds of the same programs do not show (e.g.
            # one front end accepts what the semantic analyzer then rejects with a blocking error anyway): the property
            # is about what mypy reports, so this is recorded in the coverage, not reported
            ex = by_sig_parse[sig][0]
            parse_only[sig] = {"occurrences": n, "example": text_of[ex["pid"]][-120:], "what": ex["what"][:300]}
        else:
            # seen in a real multi-module build, not reproduced by the program alone: reported as such, never dropped
            ex = (agg.examples.get(sig) or by_sig_parse.get(sig) or [{}])[0]
            lane = ex.get("lane", "?")
            s2 = f"{lane}-lane-only|{sig}"
            per_sig[s2] = n
            rp = ex.get("replay") or {"id": ex.get("pid"), "main": text_of.get(ex.get("pid", ""), None), "pyver": ex.get("pyver", list(GRAMMAR_PYVER)),
                                      "kind": "text" if not ex.get("case") else "corpus", "case": ex.get("case")}
            violations.append(Violation(s2, f"{rp.get('id')}: {ex.get('what', '')}"[:600], {"replay": rp, "lane": lane, "occurrences_this_run": n}))

    # ---- coverage, vacuity
    s = agg.stats
    pairs_build = s["pairs"]
    cov.update({
        "evaluations": int(pairs_build + s["parse_pairs"]),
        "build_pairs": int(pairs_build), "parse_entry_pairs": int(s["parse_pairs"]),
        "module_lane_builds": int(s["module_builds"]), "module_lane_batch_splits": int(s["batch_splits"]),
        "confirmation_pairs": int(s["confirmation_pairs"]),
        "distinct_nontrivial": int(s["nontrivial"] + s["parse:both-reject"] + s["parse:blocker-mismatch"]),
        "rule": "one evaluation = one program checked with both parsers and judged; non-trivial iff a parser printed at "
                "least one diagnostic for a file of the program or rejected it (so text, line, column, end or the "
                "blocker flag were actually compared / validated)",
        "outcomes_build_lane": {k.split(":", 1)[1]: v for k, v in s.items() if k.startswith("outcome:")},
        "outcomes_parse_entry_lane": {k.split(":", 1)[1]: v for k, v in s.items() if k.startswith("parse:")},
        "per_phase_pairs": {ph: int(s[f"{ph}:pairs"] + s[f"{ph}:parse_pairs"]) for ph in ("corpus", "grammar", "corrupt-parse", "corrupt-build")},
        "diagnostics_position_checked": int(s["diags"] + s["parse_diags"]),
        "diagnostics_with_column": int(s["located"]), "diagnostics_with_end": int(s["with_end"]),
        "diagnostics_on_eof_line": int(s["eof_line_diags"]),
        "diagnostics_in_files_outside_program": int(s["unknown_file_diags"]),
        "stray_messages_module_lane": int(s["stray_messages"]), "stray_message_samples": agg.stray[:3],
        "distinct_message_kinds": len(agg.kinds),
        "projection_selfcheck": {"programs": agg.projection[0], "mismatches": agg.projection[1]},
        "signatures": {k: per_sig[k] for k in sorted(per_sig)},
        "parse_entry_disagreements_not_shown_by_builds": parse_only,
        "versions": [f"3.{v[1]}" for v in VERSIONS], "grammar_version": f"3.{GRAMMAR_PYVER[1]}",
        "exhaustive": not agg.herr and set(phases) >= {"corpus", "grammar", "corrupt"} and families is None,
        "cpu_seconds_by_phase": cpu_by_phase, "cpu_seconds_total": round(_cpu() - c0, 1),
        "samples": agg.samples[:8],
        "bounds": "corpus: every usable case of the listed files x listed versions (quick: implied + 2, thorough: all 5); "
                  "grammar: form x hole x form products (thorough: full products, bare/paren/probe variants; quick: products "
                  "with at least one representative factor, one variant), every layout of every depth-1 program (quick: "
                  "token-gap layouts only for statement forms); corruptions: every token x 16 operations of every depth-1 "
                  "statement and pattern program (thorough: all depth-1, type and pattern programs) and of the smallest "
                  "single-file corpus cases (quick 40, thorough 200)",
    })
    vac = []
    full = set(phases) >= {"corpus", "grammar", "corrupt"} and families is None
    if full and s["pairs"] < 1000:
        vac.append("fewer than 1000 build pairs")
    if full and len(agg.kinds) < 30:
        vac.append("fewer than 30 distinct message kinds")
    if full and (s["located"] < 1000 or s["with_end"] < 1000):
        vac.append("hardly any diagnostic carried a column / end")
    if full and (s["parse:both-reject"] < 100 or s["parse:both-accept"] < 100):
        vac.append("corruptions did not produce both rejected and accepted programs")
    if full and agg.projection[0] < 20:
        vac.append("projection self-check not exercised")
    if agg.projection[1]:
        vac.append("strength-1 projection differs from a real default-format build")
    if vac:
        raise RuntimeError("vacuous or unsound exploration: " + "; ".join(vac) + f" ; first harness errors: {agg.herr[:2]}")
    return Result(PROPERTY, LEVEL, cov, violations, assumptions=[
        "fixture stubs (test-data/unit/fixtures, lib-stub) on both sides of every comparison, options as mypy/test/testcheck.py sets them",
        "target versions 3.10-3.14: this tree rejects --python-version 3.9 (config_parser.parse_version)",
        "space (b)/(c) grammar = what CPython 3.12 (the running interpreter) parses; check-python313/314.test are left out as testcheck.py does on 3.12",
        "a line is what Python's tokenizer calls a line (\\n, \\r\\n, \\r); the empty segment after a final newline is a valid (EOF) line; "
        "column bound in UTF-8 bytes (the larger unit); an end may cover the line terminator (Errors.report one-character spans)",
        "strength-1 output is the projection of the strength-2 output (re-verified against real default-format builds, count in coverage)",
        "corrupted programs: 'rejects' is read at mypy.parse.parse (the build's parse entry), each disagreement kind re-run through real builds",
    ], harness_errors=agg.herr)


def _prog_from_replay(rp: dict[str, Any]) -> dict[str, Any]:
    pv = tuple(rp.get("pyver") or GRAMMAR_PYVER)
    if rp.get("kind") == "corpus":
        fname, cname = rp["case"].split("::")
        for c in corpus.load_file(os.path.join(corpus.UNIT, fname)):
            if c.name == cname:
                p = L.program_of(c, pv)
                p["kind"] = "corpus"
                if rp.get("main") is not None:
                    p["main"] = rp["main"]
                    p["corrupted"] = rp.get("corruption") or True
                return p
        raise KeyError(rp["case"])
    return _text_prog(rp["id"], rp["main"], {"pyver": pv, "flags": GRAMMAR_FLAGS})


def _prog_from_replay_full(rp: dict[str, Any]) -> dict[str, Any]:
    p = _prog_from_replay(rp)
    return _as_file_prog(p, neighbour=bool(rp.get("with_trivial_second_module"))) if rp.get("read_from_disk") else p


def replay(ctx: Ctx, rec: dict) -> Result:
    L.preload()
    rp = rec["detail"]["replay"]
    prog = _prog_from_replay_full(rp)
    root = scratch("c14-replay")
    r = run_single(prog, root)
    viol: list[Violation] = []
    if "herr" in r:
        return Result(PROPERTY, LEVEL, {}, [], harness_errors=[r["herr"]])
    print("program:\n" + (prog["main"] if prog["main"] is not None else prog["files"][FILE_LANE_NAME]))
    print("default:", r["res"][False])
    print("native: ", r["res"][True])
    found, _st = judge(prog, r["res"][False], r["res"][True])
    want = rec["signature"].split("-lane-only|", 1)[-1]
    for sig, what in found:
        if sig == want:
            viol.append(Violation(rec["signature"], what, {}))
    return Result(PROPERTY, LEVEL, {}, viol)
