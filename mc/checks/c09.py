"""C09 — changing options between runs that share a cache never gives stale results.

Space: (program, option set A, option set B) triples; for each the two-step histories A->B and B->A
(and T: A->B->A) are executed on one shared cache directory through the REAL command line
(mypy.main.main: argparse, config files, process_options) and the last run is compared with a cold
run made with the last run's options.  Option alphabet = the complete flag table obtained by
introspecting mypy.main.define_options() (so a flag added tomorrow is enumerated automatically),
plus the value-carrying flags with the values the repository's corpus uses, plus config-file
([mypy] and [mypy-<module>]) spellings of every boolean flag.
"""

from __future__ import annotations

import io
import os
import shutil
from collections import Counter
from typing import Any

from mc import corpus
from mc.common import Ctx, Result, Violation, same_diagnostics, scratch, seeded_order
from mc.drivers import cli_inproc
from mc.kernel import ExecError, chunked, pmap, run_isolated

PROPERTY = "C09"
LEVEL = "model_checking"

# Flags that are not "options that can change diagnostics of a run sharing a cache" — each with the reason.
DENY = {
    "--help": "prints help", "-h": "prints help", "--version": "prints version", "-V": "prints version",
    "--verbose": "log volume on stderr only", "-v": "log volume on stderr only",
    "--pdb": "interactive", "--raise-exceptions": "debugging aid: crashes by design on errors",
    "--install-types": "runs pip", "--non-interactive": "only with --install-types",
    "--no-install-types": "default", "--interactive": "default",
    "--skip-cache-mtime-checks": "documented as trusting the cache unconditionally (bazel-style)",
    "--skip-version-check": "documented as unsafe: trusts caches of other versions",
    "--bazel": "documented as requiring externally managed caches (zero mtimes, relative paths)",
    "--fast-exit": "process exit strategy", "--no-fast-exit": "process exit strategy",
    "--test-env": "internal", "--dump-deps": "debug dump", "--dump-graph": "prints graph instead of checking",
    "--stats": "debug dump", "--inferstats": "debug dump", "--dump-build-stats": "stderr stats",
    "--debug-cache": "cache pretty-printing (stated to be irrelevant in find_cache_meta)",
    "--cache-fine-grained": "writes extra deps files; covered as a value of the cache config in C02/C03",
    "--strict": "meta-flag: expands to the strict flag set, each member is enumerated on its own",
    "--semantic-analysis-only": "internal: stops before type checking and does not write caches",
    "--color-output": "terminal colouring only", "--no-color-output": "terminal colouring only",
    "--export-ref-info": "undocumented: writes extra files",
    "--skip-c-gen": "mypyc only", "--scripts-are-modules": "module naming of script arguments (C18)",
    "--no-site-packages": "always passed by the harness", "--logical-deps": "internal, daemon only",
    "--exclude-gitignore": "file discovery (C18)", "--no-exclude-gitignore": "file discovery (C18)",
    "--explicit-package-bases": "file discovery (C18)", "--no-explicit-package-bases": "file discovery (C18)",
    "--native-parser": "parser choice is decided by C14", "--no-native-parser": "parser choice is decided by C14",
}

# A few generic programs so that table flags the corpus never toggles still meet code they affect.
GENERIC = {
    "g1": (
        "from typing import Any, List, Optional, cast\nimport m1\n"
        "def untyped(x):\n    return x + 1\n"
        "def partial(x: int, y):\n    return untyped(x)\n"
        "def f(x: int = None) -> int:\n    y = cast(int, x)\n    if isinstance(x, int):\n        return 1\n    else:\n        return ''\n    return 2\n"
        "def g(a: Any) -> int:\n    return a\n"
        "class C(m1.Base): pass\n"
        "v = []\n"
        "def h(o: Optional[int]) -> int:\n    z: int = o\n    return o + 1  # type: ignore\n"
        "def k() -> int:\n    pass\n"
        "w: List = []\nb = b'x' == 'x'\n1 + ''  # type: ignore[operator]\n"
        "n = m1.nope\nimport missing_mod\nfrom m1 import reexp\n"
        # messages that collide in everything except what a display option shows (same text twice on one line at
        # different columns; same text on two lines; a multi-line expression for end positions)
        "def need_int(x: int) -> None: ...\n"
        "need_int('a'); need_int('b')\n"
        "need_int('c')\nneed_int('d')\n"
        "class K:\n    def meth(self) -> None:\n        need_int('e'); need_int(\n            'f')\n",
        {"m1.py": "from typing import Any\nBase: Any\nfrom m2 import reexp\ndef dec(f): return f\n",
         "m2.py": "reexp = 1\n"},
    ),
}

# The same kind of content inside a package module that is only reached by import, so that per-module
# sections of every pattern shape (concrete, structured wildcard, unstructured globs) apply to a module
# that is NOT the command-line file.
PKG_MOD = GENERIC["g1"][0].replace("import m1\n", "import m1x as m1\n")
GENERIC_PKG = {
    "g2": ("import pkg.sub.mod\n",
           {"pkg/__init__.py": "", "pkg/sub/__init__.py": "", "pkg/sub/mod.py": PKG_MOD,
            "m1x.py": GENERIC["g1"][1]["m1.py"], "m2.py": GENERIC["g1"][1]["m2.py"]}),
}
SECTION_SHAPES = [("pkg.sub.mod", "ini-concrete"), ("pkg.*", "ini-structured"), ("pkg.*.mod", "ini-glob-mid"),
                  ("*.sub.*", "ini-glob-lead")]
# option sets used as additional bases so that flags are also toggled in the presence of display options
DISPLAY_BASE = ["--show-error-code-links", "--show-error-context", "--show-column-numbers", "--show-error-end"]


def flag_table() -> tuple[list[str], dict[str, str]]:
    """All argument-less flags of the real parser (store_true / store_false), minus DENY."""
    import argparse

    import mypy.main as mm

    p, _, _ = mm.define_options(stdout=io.StringIO(), stderr=io.StringIO())
    flags, skipped = [], {}
    for a in p._actions:
        if isinstance(a, (argparse._StoreTrueAction, argparse._StoreFalseAction)):
            for s in a.option_strings:
                if s in DENY:
                    skipped[s] = DENY[s]
                elif s.startswith("--"):
                    flags.append(s)
        else:
            for s in a.option_strings:
                skipped.setdefault(s, DENY.get(s, "value-carrying: enumerated with the values the corpus uses"))
    return sorted(set(flags)), skipped


def noop_flag_partners() -> dict[str, str]:
    """flag -> opposite flag of the same dest, for flags that merely restate the default (e.g.
    --allow-untyped-defs): they only have an observable effect after their opposite, so they are
    toggled as [opposite] vs [opposite, flag] (later wins on the command line)."""
    import argparse

    import mypy.main as mm
    from mypy.options import Options

    p, _, _ = mm.define_options(stdout=io.StringIO(), stderr=io.StringIO())
    o = Options()
    by_dest: dict[str, dict[bool, str]] = {}
    for a in p._actions:
        if isinstance(a, (argparse._StoreTrueAction, argparse._StoreFalseAction)) and a.option_strings:
            val = isinstance(a, argparse._StoreTrueAction)
            by_dest.setdefault(a.dest, {})[val] = a.option_strings[-1]
    out = {}
    for dest, m in by_dest.items():
        if len(m) != 2 or dest.startswith("special-opts") or not hasattr(o, dest):
            continue
        default = bool(getattr(o, dest))
        out[m[default]] = m[not default]
    return out


def group_flags(tokens: list[str]) -> list[list[str]]:
    groups: list[list[str]] = []
    for t in tokens:
        if t.startswith("-") or not groups:
            groups.append([t])
        else:
            groups[-1].append(t)
    return groups


def _flag_name(group: list[str]) -> str:
    name = group[0].split("=")[0]
    if name in ("--enable-error-code", "--disable-error-code", "--follow-imports", "--platform",
                "--python-version", "--enable-incomplete-feature", "--always-true", "--always-false"):
        val = group[0].split("=", 1)[1] if "=" in group[0] else (group[1] if len(group) > 1 else "")
        if name in ("--always-true", "--always-false"):
            val = "X"
        return f"{name}={val}"
    return name


def run_cli(root: str, args: list[str]) -> dict[str, Any]:
    try:
        r = run_isolated(cli_inproc, ["--no-site-packages", *args], root, True, timeout=180)
    except ExecError as e:
        return {"stdout": f"<{e.kind}>", "stderr": e.info[-1500:], "status": -1, "exec_error": e.kind}
    return r


def outcome(r: dict) -> tuple:
    return (tuple(r["stdout"].splitlines()), r["status"])


def same(a: dict, b: dict) -> bool:
    if a["status"] != b["status"]:
        return False
    eq, _ = same_diagnostics(a["stdout"].splitlines(), b["stdout"].splitlines())
    return eq


def crashed(r: dict) -> bool:
    return "INTERNAL ERROR" in r["stderr"] or "Traceback (most recent" in r["stderr"] or r["status"] not in (0, 1, 2)


def do_batch(batch: list[dict]) -> dict:
    """Each element: {pid, files{rel:text}, main, pairs:[(nameA, argsA, nameB, argsB, label)] , three_step}."""
    out = {"histories": 0, "witness_pairs": 0, "nonwitness_pairs": 0, "violations": [], "samples": [],
           "witness_flags": [], "nonwitness_flags": [], "herr": [], "runs": 0, "skipped_usage": 0}
    for prog in batch:
        root = scratch("c09", f"p{os.getpid()}")
        shutil.rmtree(root, ignore_errors=True)
        os.makedirs(os.path.join(root, "tmp"))
        for rel, text in prog["files"].items():
            p = os.path.join(root, "tmp", rel)
            os.makedirs(os.path.dirname(p), exist_ok=True)
            with open(p, "w") as f:
                f.write(text)
        # owned clock: every file has its own, fixed mtime (two files of equal size must not look alike to the
        # mtime+size shortcut, which is mypy's documented trust in the file system, not an option effect)
        for k, rel in enumerate(sorted(prog["files"])):
            mt = 1_600_000_000 + 10 * k
            os.utime(os.path.join(root, "tmp", rel), (mt, mt))
        for extra_rel, extra_text in prog.get("root_files", {}).items():
            with open(os.path.join(root, extra_rel), "w") as f:
                f.write(extra_text)
        cold_memo: dict[tuple, dict] = {}
        target = prog.get("target", "tmp/main.py")

        def cold(args: list[str]) -> dict:
            k = tuple(args)
            if k not in cold_memo:
                out["runs"] += 1
                cold_memo[k] = run_cli(root, [*args, "--cache-dir", os.devnull, target])
            return cold_memo[k]

        n_cache = 0

        def warm_seq(seq: list[list[str]]) -> list[dict]:
            nonlocal n_cache
            n_cache += 1
            cd = os.path.join(root, f"cache{n_cache}")
            rs = []
            for args in seq:
                out["runs"] += 1
                rs.append(run_cli(root, [*args, "--cache-dir", cd, target]))
            shutil.rmtree(cd, ignore_errors=True)
            return rs

        for label, A, B in prog["pairs"]:
            cA, cB = cold(A), cold(B)
            if cA.get("exec_error") or cB.get("exec_error"):
                out["herr"].append(f"{prog['pid']} {label}: cold {cA.get('exec_error') or cB.get('exec_error')}")
                continue
            if cA["status"] == 2 and cA["stdout"] == "" or cB["status"] == 2 and cB["stdout"] == "":
                # usage error (flag combination rejected by the command line): not a run at all
                out["skipped_usage"] += 1
                continue
            if crashed(cA) or crashed(cB):
                out["herr"].append(f"{prog['pid']} {label}: cold run crashed (decided by C20, not here)")
                continue
            if outcome(cA) == outcome(cB):
                out["nonwitness_pairs"] += 1
                out["nonwitness_flags"].append(label)
                continue
            out["witness_pairs"] += 1
            out["witness_flags"].append(label)
            seqs = [("add", [A, B], cB), ("remove", [B, A], cA)]
            if prog.get("three_step"):
                seqs += [("add-remove-add", [B, A, B], cB), ("remove-add-remove", [A, B, A], cA)]
            for direction, seq, expect in seqs:
                rs = warm_seq(seq)
                out["histories"] += 1
                last = rs[-1]
                if last.get("exec_error") == "timeout":
                    out["herr"].append(f"{prog['pid']} {label} {direction}: timeout")
                    continue
                if len(out["samples"]) < 2:
                    out["samples"].append({"program": prog["pid"], "option": label, "history": direction,
                                           "args": seq, "last_stdout": last["stdout"].splitlines()[:3]})
                if not same(last, expect) or crashed(last):
                    out["violations"].append({
                        "signature": prog.get("sig_map", {}).get(label) or f"{label}|{direction}",
                        "what": f"{prog['pid']}: history {direction} of {label}: warm={last['stdout'].splitlines()[:3]} "
                                f"status={last['status']} cold={expect['stdout'].splitlines()[:3]} status={expect['status']}",
                        "detail": {"program": prog, "label": label, "direction": direction, "seq": seq,
                                   "warm_stdout": last["stdout"], "warm_status": last["status"],
                                   "warm_stderr": last["stderr"][-800:],
                                   "cold_stdout": expect["stdout"], "cold_status": expect["status"]},
                    })
        shutil.rmtree(root, ignore_errors=True)
    return out


def programs_from_corpus(ctx: Ctx, table: list[str]) -> list[dict]:
    files = corpus.files_matching("check-*.test")
    cases = []
    for f in files:
        for c in corpus.load_file(f):
            if c.multi_step or c.has_cmd or not c.flags or "skip" in c.tags or "xfail" in c.tags:
                continue
            if any(t.startswith(("--config-file", "--shadow-file", "--cache", "--no-incremental", "-n", "--num-workers",
                                 "--custom-typing-module", "--junit", "--bazel", "--package-root"))
                   or t.endswith("-report") for t in c.flags):
                continue
            cases.append(c)
    # one representative set per flag name so that every corpus flag is covered in quick:
    by_flag: dict[str, list] = {}
    for c in cases:
        for g in group_flags(c.flags):
            by_flag.setdefault(_flag_name(g), []).append(c)
    per_flag = 3 if ctx.quick else 40
    chosen: dict[str, Any] = {}
    for name in sorted(by_flag):
        for c in seeded_order(by_flag[name], ctx.seed)[:per_flag]:
            chosen[c.id] = c
    progs = []
    for cid in sorted(chosen):
        c = chosen[cid]
        files_ = {"main.py": c.main + "\n"}
        for rel, text in c.files.items():
            files_[rel] = text + "\n"
        for attr, target in (("builtins", "builtins.pyi"), ("typing", "typing.pyi"), ("typeshed", "_typeshed.pyi")):
            fx = getattr(c, attr)
            if fx:
                with open(os.path.join(corpus.UNIT, fx)) as fh:
                    files_[target] = fh.read()
        base = list(c.flags)
        pv = corpus.pyversion_for(c.file)
        if pv and not any(t.startswith("--python-version") for t in base):
            base += ["--python-version", f"{pv[0]}.{pv[1]}"]
        groups = group_flags(c.flags)
        pairs = []
        for i, g in enumerate(groups):
            A = [t for j, gg in enumerate(groups) if j != i for t in gg] + base[len(c.flags):]
            pairs.append((_flag_name(g), A, base))
        progs.append({"pid": c.id, "files": files_, "pairs": pairs, "three_step": ctx.thorough})
    return progs


def programs_table_sweep(ctx: Ctx, table: list[str]) -> list[dict]:
    """Every table flag toggled on generic programs + a corpus slice; non-witness pairs cost one cold run."""
    progs = []
    bases: list[tuple[str, dict, list[str]]] = []
    for gid, (main, extra) in GENERIC.items():
        f = {"main.py": main}
        f.update(extra)
        bases.append((gid, f, []))
        bases.append((gid + "+strictish", f, ["--check-untyped-defs", "--warn-unreachable", "--warn-unused-ignores",
                                                "--strict-equality", "--warn-return-any"]))
        bases.append((gid + "+display", f, list(DISPLAY_BASE)))
        # the same program under a config file that has per-module sections (which mention unrelated options):
        # per-module sections clone the options, so globally given values must survive in the clone AND in the key
        bases.append((gid + "+cfgbase", f, ["--config-file", "cfg_base.ini"]))
    for gid, (main, extra) in GENERIC_PKG.items():
        f = {"main.py": main}
        f.update(extra)
        bases.append((gid, f, []))
        bases.append((gid + "+cfgbase", f, ["--config-file", "cfg_base.ini"]))
    files = seeded_order(corpus.files_matching("check-*.test"), ctx.seed)
    n_files = 4 if ctx.quick else 40
    per_file = 4 if ctx.quick else 12
    for fpath in files[:n_files]:
        cs = [c for c in corpus.load_file(fpath) if not (c.multi_step or c.has_cmd or c.flags or c.tags) and
              len(c.main.splitlines()) >= 8]
        for c in cs[:per_file]:
            f = {"main.py": c.main + "\n"}
            for rel, text in c.files.items():
                f[rel] = text + "\n"
            for attr, target in (("builtins", "builtins.pyi"), ("typing", "typing.pyi"), ("typeshed", "_typeshed.pyi")):
                fx = getattr(c, attr)
                if fx:
                    with open(os.path.join(corpus.UNIT, fx)) as fh:
                        f[target] = fh.read()
            base = []
            pv = corpus.pyversion_for(c.file)
            if pv:
                base = ["--python-version", f"{pv[0]}.{pv[1]}"]
            bases.append((c.id, f, base))
    partners = noop_flag_partners()
    from mypy.errorcodes import error_codes as _all_codes

    optional_codes = sorted(c for c, ec in _all_codes.items() if not ec.default_enabled)
    reported_codes = ["arg-type", "assignment", "attr-defined", "call-arg", "empty-body", "import-not-found", "misc",
                      "name-defined", "no-untyped-def", "operator", "return", "return-value", "type-arg", "unused-ignore",
                      "var-annotated", "comparison-overlap", "no-any-return", "unreachable", "redundant-cast"]
    CFG_BASE = ("[mypy]\n[mypy-main]\nwarn_no_return = True\n[mypy-m1]\nwarn_no_return = True\n"
                "[mypy-pkg.*]\nwarn_no_return = True\n[mypy-*.sub.*]\nshow_error_context = False\n")
    for pid, f, base in bases:
        if pid.split("+")[0] in GENERIC or pid.split("+")[0] in GENERIC_PKG:
            # error-code flags: every code is a value of --disable-error-code / --enable-error-code
            ec_pairs = []
            for code in reported_codes:
                ec_pairs.append((f"--disable-error-code={code}", base, base + ["--disable-error-code", code]))
            for code in optional_codes:
                ec_pairs.append((f"--enable-error-code={code}", base, base + ["--enable-error-code", code]))
            progs.append({"pid": f"sweep-codes:{pid}", "files": f, "pairs": ec_pairs, "three_step": False,
                          "root_files": {"cfg_base.ini": CFG_BASE}})
        pairs = []
        for flag in table:
            if flag in base:
                continue
            opp = partners.get(flag)
            if opp is not None and opp in table and opp not in base:
                # a flag restating the default: observable only as an override of its opposite
                pairs.append((flag, base + [opp], base + [opp, flag]))
            else:
                pairs.append((flag, base, base + [flag]))
        # config-file spellings of the same booleans: [mypy] and [mypy-main] sections
        root_files = {}
        if pid in GENERIC_PKG:
            # per-module sections of every pattern shape for every flag mypy accepts per module
            from mypy.options import PER_MODULE_OPTIONS

            pairs = []
            for flag in table:
                key = flag[2:].replace("-", "_")
                base_key = key[3:] if key.startswith("no_") else key
                if base_key not in PER_MODULE_OPTIONS and key not in PER_MODULE_OPTIONS and \
                        key.replace("allow_", "disallow_", 1) not in PER_MODULE_OPTIONS and \
                        key.replace("disallow_", "allow_", 1) not in PER_MODULE_OPTIONS:
                    continue
                for pat, tag in SECTION_SHAPES:
                    fn = f"cfg_{tag}_{key}.ini"
                    root_files[fn] = f"[mypy]\n[mypy-{pat}]\n{key} = True\n"
                    pairs.append((f"{flag}@{tag}", base, base + ["--config-file", fn]))
            root_files["cfg_base.ini"] = CFG_BASE
            progs.append({"pid": f"sweep:{pid}", "files": f, "pairs": pairs, "three_step": False,
                          "root_files": root_files})
            continue
        if pid in GENERIC or ctx.thorough:
            from mypy.main import invert_flag_name  # noqa: F401

            ini_pairs = []
            for flag in table:
                key = flag[2:].replace("-", "_")
                for section, tag in (("mypy", "ini-global"), ("mypy-main", "ini-module")):
                    fn = f"cfg_{tag}_{key}.ini"
                    root_files[fn] = f"[{section}]\n{key} = True\n"
                    ini_pairs.append((f"{flag}@{tag}", base, base + ["--config-file", fn]))
            pairs += ini_pairs
        root_files["cfg_base.ini"] = CFG_BASE
        progs.append({"pid": f"sweep:{pid}", "files": f, "pairs": pairs, "three_step": False,
                      "root_files": root_files})
    return progs


FOLLOW_VALUES = ["normal", "silent", "skip", "error"]
FOLLOW_PROG = {
    "main.py": "import foo  # type: ignore\nimport bar\nimport pkg.sub\nfrom pkg2 import sub2\nimport pkg3.deep.leaf\n"
               "reveal_type(bar.y)\nreveal_type(pkg.sub.z)\nreveal_type(sub2.w)\nreveal_type(pkg3.deep.leaf.q)\n",
    "foo.py": "x: int = ''\n",
    "bar.py": "import baz\ny: int = ''\nreveal_type(baz.b)\n",
    "baz.py": "b: int = ''\n",
    "pkg/__init__.py": "p: int = ''\n", "pkg/sub.py": "z: int = ''\n",
    "pkg2/__init__.py": "p2: int = ''\n", "pkg2/sub2.py": "w: int = ''\n",
    "pkg3/__init__.py": "", "pkg3/deep/__init__.py": "d: int = ''\n", "pkg3/deep/leaf.py": "q: int = ''\n",
}
FOLLOW_MODULES = ["foo", "bar", "baz", "pkg", "pkg.sub", "pkg2", "pkg2.sub2", "pkg3.deep", "pkg3.deep.leaf", "pkg3.*"]


def programs_value_options(ctx: Ctx) -> list[dict]:
    """Value-carrying options that decide WHICH modules are part of the run, through every spelling:
    follow_imports globally and per module (importer with `# type: ignore`, plain import, import of an import,
    package and submodule, ancestor package) for every ordered pair of values; the same with a SUBMODULE given on
    the command line (its ancestor package is then subject to follow_imports); and --shadow-file for a shadow
    file of the same size and of a different size."""
    progs = []
    pairs = []
    root_files = {}
    vals = FOLLOW_VALUES
    for i, v1 in enumerate(vals):
        for v2 in vals[i + 1:]:
            pairs.append((f"--follow-imports={v1}->{v2}", ["--follow-imports", v1], ["--follow-imports", v2]))
            for mod in FOLLOW_MODULES:
                tag = mod.replace("*", "STAR")
                for v in (v1, v2):
                    root_files[f"fi_{tag}_{v}.ini"] = f"[mypy]\n[mypy-{mod}]\nfollow_imports = {v}\n"
                pairs.append((f"follow_imports[{mod}]={v1}->{v2}", ["--config-file", f"fi_{tag}_{v1}.ini"],
                              ["--config-file", f"fi_{tag}_{v2}.ini"]))
    # cause-level signatures for this lane: which module's follow_imports, and whether `error` is one of the two
    # values (the history direction and the other value do not change the cause)
    sig_map = {}
    for label, _a, _b in pairs:
        head, _, vals_ = label.partition("=")
        v1, _, v2 = vals_.partition("->")
        sig_map[label] = f"{head}:{'to/from error' if 'error' in (v1, v2) else 'between ' + v1 + ' and ' + v2}"
    progs.append({"pid": "follow:main", "files": FOLLOW_PROG, "pairs": pairs, "three_step": ctx.thorough,
                  "root_files": root_files, "sig_map": sig_map})
    for target in ("pkg/sub.py", "pkg3/deep/leaf.py"):
        progs.append({"pid": f"follow:{target}", "files": FOLLOW_PROG, "pairs": pairs, "three_step": ctx.thorough,
                      "root_files": root_files, "target": f"tmp/{target}", "sig_map": sig_map})
    body = "x: int = 0\ndef f(a: int) -> int:\n    return a\n"
    same_size = body.replace("x: int = 0", "x: str = 0")
    other_size = body + "y: str = f('')\n"
    sh_files = {"main.py": "import a\nreveal_type(a.x)\n", "a.py": body, "sh_same.py": same_size, "sh_other.py": other_size}
    sh = [("--shadow-file(same size)", [], ["--shadow-file", "tmp/a.py", "tmp/sh_same.py"]),
          ("--shadow-file(other size)", [], ["--shadow-file", "tmp/a.py", "tmp/sh_other.py"]),
          ("--shadow-file(same->other)", ["--shadow-file", "tmp/a.py", "tmp/sh_same.py"],
           ["--shadow-file", "tmp/a.py", "tmp/sh_other.py"])]
    progs.append({"pid": "shadow:import", "files": sh_files, "pairs": sh, "three_step": True})
    progs.append({"pid": "shadow:target", "files": sh_files, "pairs": sh, "three_step": True, "target": "tmp/a.py"})
    return progs


def run(ctx: Ctx) -> Result:
    table, skipped = flag_table()
    progs = programs_from_corpus(ctx, table) + programs_table_sweep(ctx, table) + programs_value_options(ctx)
    # split big sweep programs so the pool stays balanced
    items: list[list[dict]] = []
    for p in progs:
        if len(p["pairs"]) > 24:
            for ch in chunked(p["pairs"], 24):
                q = dict(p)
                q["pairs"] = list(ch)
                items.append([q])
        else:
            items.append([p])
    tot = Counter()
    violations: list[Violation] = []
    samples: list[Any] = []
    herr: list[str] = []
    wit: Counter = Counter()
    nonwit: Counter = Counter()
    for _i, item, st, val in pmap(do_batch, items, fresh=False, timeout=1800):
        if st != "ok":
            herr.append(f"batch failed: {val}")
            continue
        for k in ("histories", "witness_pairs", "nonwitness_pairs", "runs", "skipped_usage"):
            tot[k] += val[k]
        wit.update(val["witness_flags"])
        nonwit.update(val["nonwitness_flags"])
        for v in val["violations"]:
            violations.append(Violation(v["signature"], v["what"], v["detail"]))
        if len(samples) < 5:
            samples.extend(val["samples"][:1])
        herr.extend(val["herr"])
    options_with_witness = sorted(wit)
    options_without = sorted(set(nonwit) - set(wit))
    if tot["witness_pairs"] < 20 or len(options_with_witness) < 10:
        raise RuntimeError(f"vacuous: only {tot['witness_pairs']} witness pairs / {len(options_with_witness)} options")
    cov = {
        "states": tot["runs"], "transitions": tot["histories"],
        "traces_validated_against_impl": tot["histories"],
        "evaluations": tot["runs"], "distinct_nontrivial": len(options_with_witness),
        "rule": "history = option set A then option set B (or reverse, T: three steps) on one shared cache through the real "
                "mypy.main.main; counted only when cold(A) != cold(B) (witness). distinct_nontrivial = number of distinct "
                "option spellings (flag, flag=value, flag@ini-global, flag@ini-module) with at least one witness program",
        "histories": tot["histories"], "witness_pairs": tot["witness_pairs"], "nonwitness_pairs": tot["nonwitness_pairs"],
        "flag_table_size": len(table), "options_with_witness": options_with_witness,
        "options_without_witness": options_without, "flags_excluded_with_reason": skipped,
        "usage_error_pairs_skipped": tot["skipped_usage"], "programs": len(progs),
        "exhaustive": True, "samples": samples[:5],
        "bounds": "history depth 2 (Q) / 3 (T); every flag of the introspected table x every program of the slice",
    }
    return Result(PROPERTY, LEVEL, cov, violations, assumptions=[
        "fixture stubs (Options.use_builtins_fixtures forced by a harness-side wrapper) on both sides of each comparison",
        "an option without a witness program in the slice is a coverage gap (listed), not a pass",
    ], harness_errors=herr)


def replay(ctx: Ctx, rec: dict) -> Result:
    d = rec["detail"]
    prog = dict(d["program"])
    prog["pairs"] = [p for p in prog["pairs"] if p[0] == d["label"]]
    out = do_batch([prog])
    return Result(PROPERTY, LEVEL, {}, [Violation(v["signature"], v["what"], {}) for v in out["violations"]])
