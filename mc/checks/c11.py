"""C11 — cache serialization is faithful in both formats (S3; bounded-exhaustive exploration).

Sub-enumerations (DESIGN 4/C11):
 (a) modules: the bundled typeshed stdlib (Q: everything reached from builtins, typing, collections,
     dataclasses, enum, asyncio; T: every stdlib module available for the default target) and every multi-file
     case of the check-*.test corpus (Q: check-serialize.test + a seed-selected slice of files; T: all).
     Each program is built cold WITH cache in each format (binary ".ff" and JSON) in one process; a second
     process does a warm build (nothing may be stale) and loads EVERY module from its cache file through the
     real build.process_fresh_modules (load_tree + fix_cross_refs), in dependency order.
 (b) objects: every serializable SymbolNode / Type class with all 2^n subsets of its DISCOVERED boolean
     attributes (n > 16: subsets of size <= 2 and their complements in Q; Var gets all 2^20 in T) and all
     None/non-None (value-variant) combinations of its optional fields, round-tripped inside a synthetic module.
Oracles: (i) re-serializing the loaded tree reproduces the cache bytes in the same format; (ii) the JSON-loaded
and the binary-loaded tree re-serialize to identical JSON and identical binary; (iii) attribute-wise walk of the
freshly analysed vs the loaded+fixed-up tree over every slot of every reachable object, minus the justified skip
list in mc/c11_walk.py; (iv) cold builds in interpreters with different PYTHONHASHSEED write byte-identical data
files and equal interface hashes.  A crash of the writer/reader in only one format is a violation too.
"""

from __future__ import annotations

import os
import pickle
import shutil
import subprocess
import sys
import time
from collections import Counter
from typing import Any

from mc import c11_build, c11_synth, c11_walk, corpus
from mc.common import VERIF, Ctx, Result, Violation, log, scratch, seeded_order
from mc.kernel import ExecError, chunked, pmap, run_isolated

PROPERTY = "C11"
LEVEL = "exploration"

FORMATS = ("ff", "json")
Q_ROOTS = ["builtins", "typing", "collections", "dataclasses", "enum", "asyncio"]
HASHSEED_ROOTS = ["collections", "dataclasses", "enum"]
STDLIB = "/repo/mypy/typeshed/stdlib"

BAD_FLAG_PREFIXES = ("--config-file", "--cache", "--no-incremental", "--incremental", "-n", "--num-workers", "--bazel",
                     "--package-root", "--shadow-file", "--junit", "--custom-typing-module", "--custom-typeshed",
                     "--sqlite", "--no-sqlite", "--fixed-format", "--no-fixed-format", "--skip-", "--fine-grained",
                     "--cache-fine-grained", "--export-", "--native-parser", "-m", "-p", "-c", "--python-executable",
                     "--install-types", "--non-interactive")


# Violations the unchanged pinned tree produces, each confirmed with the real CLI (`python -m mypy`), for the record
# (the main session decides what goes to known_findings.jsonl):
CONFIRMED_ON_PINNED_TREE = {
    "walk|TypedDictType.items#key-order|ff":
        "a.py: `class TD(TypedDict): b: int; a: str`; main.py: `from a import TD; x: TD; reveal_type(x)`; run, touch "
        "main.py, run again: cold says {'b': int, 'a': str}, warm (binary cache) says {'a': str, 'b': int}; JSON keeps "
        "the order (types.write_type_map sorts keys)",
    "walk|CallableType.from_type_type|ff+json":
        "a.py: abstract B, concrete C1(B), C2(B), `xs = [C1, C2]`; main.py: `from a import xs; xs[0]()`: cold clean, warm "
        "reports `Cannot instantiate abstract class \"B\"` (flag set by join, stored in neither format)",
    "walk|CallableType.special_sig|ff+json":
        "a.py: `class Shape(Tuple[Unpack[Ts]], Generic[Unpack[Ts]])`, `xs = [Shape, Shape]`; main.py: "
        "`reveal_type(xs[0]((1, 'a')))`: cold tuple[Literal[1]?, Literal['a']?, fallback=a.Shape[...]], warm "
        "a.Shape[*tuple[Never, ...]]",
    "walk|Parameters.is_ellipsis_args|ff+json":
        "a.py: `class C(Generic[P])`, `x: C[...]`; main.py: `reveal_type(x)`: cold a.C[...], warm a.C[[*Any, **Any]]",
    "crash|json|TypeError|util.py:json_dumps":
        "`x: Final[complex] = 1j` with --no-fixed-format-cache: INTERNAL ERROR, Object of type complex is not JSON "
        "serializable (binary format and no cache are fine)",
    "crash|ff|UnicodeEncodeError|cache.py:write_literal":
        "`x: Final = \"\\ud800\"` (lone surrogate escape, valid Python) with the default binary format, even with "
        "--no-incremental: INTERNAL ERROR UnicodeEncodeError in write_str_bare; JSON format is fine",
}


# --------------------------------------------------------------------------- lane helpers (run in pool workers)


def _iso(fn: Any, spec: dict, timeout: float) -> dict[str, Any]:
    try:
        return run_isolated(fn, spec, timeout=timeout)
    except ExecError as e:
        return {"exec_error": e.kind, "exec_info": e.info[-3000:], "crashed": f"{e.kind}: {e.info[-3000:]}"}


def _program(job: dict[str, Any]) -> dict[str, Any]:
    """Cold + load in both formats for ONE program (its files are already on disk under job['root'])."""
    out: dict[str, Any] = {"id": job["id"], "lane": job["lane"], "fmt": {}}
    for fmt in job.get("formats", FORMATS):
        spec = dict(job["spec"])
        spec["fmt"] = fmt
        spec["cache_dir"] = os.path.join(job["root"], "cache-" + fmt)
        spec["dump"] = os.path.join(job["root"], f"fresh-{fmt}.pkl")
        if job.get("base_cache"):
            shutil.copytree(os.path.join(job["base_cache"], "cache-" + fmt), spec["cache_dir"])
        c = _iso(c11_build.cold, spec, job["timeout"])
        r: dict[str, Any] = {"cold": _slim_cold(c)}
        if not c.get("crashed") and not c.get("blocker") and "modules" in c:
            ld = _iso(c11_build.load, spec, job["timeout"])
            r["load"] = ld
        out["fmt"][fmt] = r
    if not job.get("keep"):
        shutil.rmtree(job["root"], ignore_errors=True)
    return out


def _slim_cold(c: dict[str, Any]) -> dict[str, Any]:
    d = {k: c.get(k) for k in ("crashed", "blocker", "options_rejected", "exec_error", "dump_errors", "counts", "opaque")}
    d["messages"] = (c.get("messages") or [])[:5]
    d["modules"] = {m: {k: v for k, v in i.items() if k != "data"} for m, i in (c.get("modules") or {}).items()}
    return d


def _programs(jobs: list[dict[str, Any]]) -> list[dict[str, Any]]:
    return [_program(j) for j in jobs]


def _stdlib_modules_all() -> list[str]:
    mods = []
    for d, _dirs, files in os.walk(STDLIB):
        for f in files:
            if not f.endswith(".pyi"):
                continue
            rel = os.path.relpath(os.path.join(d, f), STDLIB)[:-4]
            parts = rel.split(os.sep)
            if parts[-1] == "__init__":
                parts = parts[:-1]
            if parts:
                mods.append(".".join(parts))
    return sorted(set(mods))


def _write_main(root: str, imports: list[str]) -> dict[str, Any]:
    os.makedirs(root, exist_ok=True)
    with open(os.path.join(root, "main.py"), "w") as f:
        f.write("".join(f"import {m}\n" for m in imports))
    return {"root": root, "sources": [("main.py", "__main__")], "fixtures": False, "flags": None, "pyversion": None}


# --------------------------------------------------------------------------- corpus


def _corpus_cases(ctx: Ctx) -> tuple[list[Any], dict[str, Any]]:
    import re

    files = corpus.files_matching("check-*.test")
    per_file: dict[str, list] = {}
    skipped = Counter()
    for f in files:
        for c in corpus.load_file(f):
            extra = {k: v for k, v in c.files.items() if not re.search(r"\.\d+$", k)}
            if not any(k.endswith((".py", ".pyi")) for k in extra):
                continue  # single-file case
            if "skip" in c.tags or "xfail" in c.tags:
                skipped["tagged skip/xfail"] += 1
                continue
            if any(t.startswith(BAD_FLAG_PREFIXES) or t.endswith("-report") for t in c.flags):
                skipped["flags that redirect cache/config/reports"] += 1
                continue
            if any(k.endswith((".ini", ".toml", ".cfg")) for k in extra):
                skipped["has config file"] += 1
                continue
            c.files = extra  # first-step files only (incremental scripts are inputs here, not oracles)
            per_file.setdefault(os.path.basename(f), []).append(c)
    names = sorted(per_file)
    if ctx.thorough:
        chosen = names
        cap = None
    else:
        always = ["check-serialize.test"]
        rest = [n for n in names if n not in always and len(per_file[n]) >= 8]
        chosen = always + seeded_order(rest, ctx.seed + 1)[:4]
        cap = 40
    cases = []
    for n in chosen:
        cs = per_file[n]
        cases.extend(cs if cap is None else cs[:cap])
    info = {"corpus_files_with_multi_file_cases": len(names), "corpus_files_selected": sorted(chosen),
            "corpus_multi_file_cases_total": sum(len(v) for v in per_file.values()), "corpus_cases_selected": len(cases),
            "corpus_cases_excluded": dict(skipped)}
    return cases, info


def _corpus_job(case: Any, root: str, keep: bool = False) -> dict[str, Any]:
    from mypy.test.helpers import testfile_pyversion

    os.makedirs(os.path.join(root, "tmp"), exist_ok=True)
    corpus.materialize(case, os.path.join(root, "tmp"))
    spec = {"root": root, "sources": [("tmp/main.py", "__main__")], "fixtures": True, "flags": list(case.flags) or None,
            "pyversion": list(testfile_pyversion(case.file))}
    return {"id": case.id, "lane": "corpus", "root": root, "spec": spec, "timeout": 300, "keep": keep}


# --------------------------------------------------------------------------- hash-seed lane


def _hashseed_run(job: dict[str, Any]) -> dict[str, Any]:
    """One real interpreter per seed; returns per-module data bytes hashes and interface hashes."""
    res: dict[str, Any] = {"fmt": job["fmt"], "seeds": {}}
    for seed in job["seeds"]:
        root = os.path.join(job["root"], f"seed{seed}")
        spec = _write_main(root, job["imports"])
        spec.update(fmt=job["fmt"], cache_dir=os.path.join(root, "cache"), dump=os.path.join(root, "fresh.pkl"))
        sp, op = os.path.join(root, "spec.pkl"), os.path.join(root, "out.pkl")
        with open(sp, "wb") as f:
            pickle.dump(spec, f)
        env = dict(os.environ, PYTHONHASHSEED=str(seed), PYTHONPATH=VERIF + os.pathsep + "/repo")
        p = subprocess.run([sys.executable, "-m", "mc.c11_build", sp, op], cwd=VERIF, env=env, capture_output=True,
                           text=True, timeout=job["timeout"])
        if p.returncode != 0 or not os.path.exists(op):
            res["seeds"][seed] = {"error": (p.stderr or p.stdout)[-2000:]}
            continue
        with open(op, "rb") as f:
            out = pickle.load(f)
        res["seeds"][seed] = {"crashed": out.get("crashed"), "hash_probe": out.get("hash_probe"),
                              "modules": {m: (i.get("data_sha"), i.get("interface_hash"), i.get("data_len"))
                                          for m, i in (out.get("modules") or {}).items()}}
    shutil.rmtree(job["root"], ignore_errors=True)
    return res


# --------------------------------------------------------------------------- aggregation


class Agg:
    def __init__(self) -> None:
        self.walk: dict[str, dict[str, Any]] = {}  # field -> {fmts, first, n, lanes}
        self.viol: list[Violation] = []
        self.herr: list[str] = []
        self.n = Counter()
        self.samples: list[Any] = []
        self.walk_fields_by_unit: dict[tuple, dict[str, set]] = {}

    def add_walk(self, field: str, fmt: str, lane: str, detail: dict[str, Any], n: int = 1) -> None:
        w = self.walk.setdefault(field, {"fmts": set(), "first": None, "n": 0, "lanes": set()})
        w["fmts"].add(fmt)
        w["lanes"].add(lane)
        w["n"] += n
        rank = ({"synthetic": 0, "corpus": 1, "stdlib": 2}.get(lane, 3),) + _complexity(detail.get("label"), field)
        if w["first"] is None or rank < w["first"][0]:
            w["first"] = (rank, dict(detail, lane=lane, fmt=fmt))

    def finish_walk(self) -> None:
        for field in sorted(self.walk):
            w = self.walk[field]
            fm = "+".join(sorted(w["fmts"]))
            d = w["first"][1]
            self.viol.append(Violation(
                f"walk|{field}|{fm}",
                f"{field}: freshly analysed {d.get('fresh')} vs loaded from {fm} cache {d.get('loaded')} "
                f"({w['n']} occurrences; lanes {sorted(w['lanes'])}; first at {d.get('path', '')[:160]})",
                dict(d, occurrences=w["n"], lanes=sorted(w["lanes"]))))


def _complexity(label: dict | None, field: str = "") -> tuple:
    """Simplest-first order of synthetic variants: the class the field belongs to, few flags, few non-default fields."""
    if not label:
        return (9, 0, "")
    nz = sum(1 for v in (label.get("fields") or {}).values() if v)
    return (0 if label.get("class") == field.split(".")[0] else 1, len(label.get("flags") or ()) + nz,
            repr(sorted((label.get("fields") or {}).items())) + repr(label.get("flags")))


def _absorb_program(agg: Agg, res: dict[str, Any]) -> None:
    lane, pid = res["lane"], res["id"]
    agg.n[f"{lane}_programs"] += 1
    per_fmt_fields: dict[str, dict[str, set]] = {}
    loaded_ok: dict[str, dict[str, Any]] = {}
    crashes: dict[str, str] = {}
    for fmt in FORMATS:
        r = res["fmt"].get(fmt, {})
        c = r.get("cold", {})
        if c.get("options_rejected"):
            agg.n[f"{lane}_options_rejected"] += 1
            return
        if c.get("exec_error") == "timeout":
            agg.herr.append(f"{lane} {pid} [{fmt}] cold build timed out")
            return
        if c.get("crashed"):
            crashes[fmt] = str(c["crashed"])
            continue
        if c.get("blocker"):
            agg.n[f"{lane}_blocker"] += 1
            return
        for e in c.get("dump_errors") or []:
            agg.herr.append(f"{lane} {pid} [{fmt}] dump of fresh tree failed: {e[:600]}")
        if c.get("opaque"):
            agg.n["opaque_values"] += sum(c["opaque"].values())
        ld = r.get("load")
        if ld is None:
            continue
        if ld.get("exec_error"):
            agg.herr.append(f"{lane} {pid} [{fmt}] load process failed: {ld.get('exec_info', '')[-600:]}")
            continue
        if ld.get("crashed"):
            agg.viol.append(Violation(f"load-crash|{fmt}|{_last_line(ld['crashed'])}",
                                      f"{pid}: warm build over the {fmt} cache crashed: {_last_line(ld['crashed'])}",
                                      {"lane": lane, "id": pid, "fmt": fmt, "crash": str(ld["crashed"])[-2500:]}))
            continue
        if ld.get("load_error"):
            agg.viol.append(Violation(f"load-crash|{fmt}|{_last_line(ld['load_error'])}",
                                      f"{pid}: loading modules from the {fmt} cache raised {_last_line(ld['load_error'])}",
                                      {"lane": lane, "id": pid, "fmt": fmt, "crash": ld["load_error"]}))
            continue
        if ld.get("rechecked") or ld.get("stale"):
            agg.n[f"{lane}_not_fully_fresh"] += 1  # not C11's business (C02/C03); those modules are not compared
        else:
            agg.n[f"{lane}_fully_fresh_loads"] += 1
        fields: dict[str, set] = {}
        for mid, info in (ld.get("modules") or {}).items():
            if info.get("error"):
                agg.viol.append(Violation(f"reload-crash|{fmt}|{_last_line(info['error'])}",
                                          f"{pid}:{mid}: walking/re-serializing the tree loaded from {fmt} failed: "
                                          f"{_last_line(info['error'])}",
                                          {"lane": lane, "id": pid, "fmt": fmt, "module": mid, "error": info["error"]}))
                continue
            if "diffs" not in info:
                agg.n["modules_loaded_as_dependency_only"] += 1
                continue
            agg.n[f"{lane}_modules_compared_{fmt}"] += 1
            agg.n["tolerated_differences"] += info.get("tolerated", 0)
            for field, path, a, b in info.get("diffs", []):
                fields.setdefault(mid, set()).add(field)
                agg.add_walk(field, fmt, lane, {"id": pid, "module": mid, "path": path, "fresh": a, "loaded": b})
            if not info.get("rt_equal", True):
                agg.n["oracle_i_mismatches"] += 1
            if not info.get("rt_equal", True) and fields.get(mid):
                agg.n["oracle_i_mismatches_explained_by_walk"] += 1  # same cause, already reported with its field
            elif not info.get("rt_equal", True):
                agg.viol.append(Violation(
                    f"reserialize|{fmt}|{mid if lane == 'stdlib' else pid.split('::')[0]}",
                    f"{pid}:{mid}: re-serializing the tree loaded from the {fmt} cache does not reproduce the cache bytes",
                    {"lane": lane, "id": pid, "fmt": fmt, "module": mid, "first_diff": info.get("rt_first_diff")}))
            loaded_ok.setdefault(mid, {})[fmt] = info
        per_fmt_fields[fmt] = fields
        if ld.get("counts"):
            for k, v in ld["counts"].items():
                agg.n[f"objects_{k}"] += v
    # format-specific crash of the writer
    if crashes:
        if len(crashes) == len(FORMATS):
            agg.n[f"{lane}_crash_in_both_formats"] += 1
            agg.herr.append(f"{lane} {pid}: cold build crashes in both formats (not format specific): "
                            f"{_last_line(crashes['ff'])}")
        else:
            for fmt, tb in crashes.items():
                agg.viol.append(Violation(f"crash|{fmt}|{_last_line(tb)}|cold-build",
                                          f"{pid}: cold build with the {fmt} cache crashes ({_last_line(tb)}), the other format "
                                          f"does not", {"lane": lane, "id": pid, "fmt": fmt, "crash": tb[-2500:]}))
    # (ii) formats agree
    for mid, by in loaded_ok.items():
        if len(by) < 2:
            continue
        agg.n["oracle_ii_pairs"] += 1
        a, b = by["ff"], by["json"]
        if a["json_sha"] != b["json_sha"] or a["ff_sha"] != b["ff_sha"]:
            agg.n["oracle_ii_mismatches"] += 1
            fa = per_fmt_fields.get("ff", {}).get(mid, set())
            fb = per_fmt_fields.get("json", {}).get(mid, set())
            if fa ^ fb:
                agg.n["oracle_ii_mismatches_explained_by_walk"] += 1
            else:
                agg.viol.append(Violation(
                    f"formats-disagree|{mid if lane == 'stdlib' else pid.split('::')[0]}",
                    f"{pid}:{mid}: the tree loaded from JSON and the tree loaded from binary re-serialize differently "
                    f"and the structural walk shows no format-specific difference",
                    {"lane": lane, "id": pid, "module": mid}))
    if len(agg.samples) < 4 and loaded_ok:
        mid = sorted(loaded_ok)[-1]
        agg.samples.append({"lane": lane, "program": pid, "module": mid,
                            "cache_bytes_sha": {f: i["data_sha"][:12] for f, i in loaded_ok[mid].items()},
                            "reserialized_equal": {f: i["rt_equal"] for f, i in loaded_ok[mid].items()}})


def _last_line(tb: str) -> str:
    lines = [ln.strip() for ln in str(tb).strip().splitlines() if ln.strip()]
    for ln in reversed(lines):
        if ln.startswith(("note:", "error: INTERNAL", "Please report", "version:", "If this issue", "https://")):
            continue
        return ln[:140]
    return lines[-1][:140] if lines else "?"


def _absorb_synth(agg: Agg, r: dict[str, Any], per_class: dict[str, dict]) -> None:
    pc = per_class.setdefault(r["cls"], {"variants": 0, "flags": r["flags"], "flag_sets": r["flag_sets"],
                                         "all_flag_subsets": r["exhaustive_flags"], "varied_fields": r["optional"],
                                         "held_constant": r.get("unvaried"), "not_toggled_unreachable": r.get("unreachable")})
    pc["variants"] += r["variants"]
    if r.get("dense"):
        pc["all_flag_subsets"] = True
        pc["flag_sets"] = max(pc["flag_sets"], r["flag_sets"])
    agg.n["synthetic_variants"] += r["variants"]
    agg.n["synthetic_modules"] += r["modules"]
    agg.n["tolerated_differences"] += r["tolerated"]
    if len(agg.samples) < 8 and r["samples"]:
        agg.samples.append({"lane": "synthetic", "variant": r["samples"][0]})
    for f in r["findings"]:
        det = {k: v for k, v in f.items() if k != "tb"}
        if f["kind"] == "walk":
            agg.add_walk(f["field"], f["fmt"], "synthetic", det, f.get("occurrences", 1))
        elif f["kind"] == "crash":
            agg.viol.append(Violation(
                f"crash|{f['fmt']}|{f['exc']}|{f['where']}",
                f"{f['label']['class']} variant {f['label']}: {f['stage']} raised {f['exc']}: {f['msg']} "
                f"({f.get('occurrences', 1)} variants)", dict(det, lane="synthetic", tb=f.get("tb", "")[-1500:])))
        elif f["kind"] == "bytes":
            if f.get("explained_by"):
                agg.n["synthetic_byte_mismatches_explained_by_walk"] += f.get("occurrences", 1)
            else:
                agg.viol.append(Violation(
                    f"bytes|{f['oracle']}|{f['label']['class']}",
                    f"{f['label']}: byte oracle {f['oracle']} fails although the structural walk sees no difference",
                    dict(det, lane="synthetic")))


# --------------------------------------------------------------------------- run


def _synth_jobs(ctx: Ctx, root: str) -> list[dict[str, Any]]:
    heavy = {"TypeInfo": 16, "FuncDef": 8, "Var": 2}
    jobs = []
    for cls in c11_synth.ALL_CLASSES:
        parts = heavy.get(cls, 1)
        for p in range(parts):
            jobs.append({"cls": cls, "full_limit": 16, "root": os.path.join(root, f"{cls}-{p}"), "part": p, "parts": parts,
                         "group": 128})
    if ctx.thorough:
        for p in range(64):
            jobs.append({"cls": "Var", "full_limit": 16, "root": os.path.join(root, f"Var-dense-{p}"), "part": p,
                         "parts": 64, "group": 256, "dense": True})
    return jobs


def run(ctx: Ctx, only: list[str] | None = None) -> Result:
    """`only` (development / fault demos): subset of lanes {"synth", "std", "corpus", "hs"}; disables the vacuity gate."""
    work = scratch("c11")
    agg = Agg()
    cov: dict[str, Any] = {}
    t0 = time.time()

    # ---- lane jobs
    synth_jobs = _synth_jobs(ctx, os.path.join(work, "synth"))
    cases, corpus_info = _corpus_cases(ctx)
    cov.update(corpus_info)
    corpus_jobs = [_corpus_job(c, os.path.join(work, "corpus", f"c{i}")) for i, c in enumerate(cases)]
    std_root = os.path.join(work, "stdlib-q")
    std_jobs = [{"id": "stdlib:" + "+".join(Q_ROOTS), "lane": "stdlib", "root": std_root, "timeout": 1500,
                 "spec": _write_main(std_root, Q_ROOTS), "keep": True, "formats": (fmt,)} for fmt in FORMATS]
    seeds = [1, 2]
    hs_jobs = [{"fmt": fmt, "seeds": [sd], "imports": HASHSEED_ROOTS, "root": os.path.join(work, f"hs-{fmt}-{sd}"),
                "timeout": 1500} for fmt in FORMATS for sd in seeds]

    # one pool for everything: long items first
    items: list[tuple[str, Any]] = [("std", [j]) for j in std_jobs] + [("hs", j) for j in hs_jobs]
    items += [("synth", j) for j in synth_jobs if j["cls"] in ("TypeInfo", "FuncDef", "Var")]
    items += [("corpus", ch) for ch in chunked(corpus_jobs, 6)]
    items += [("synth", j) for j in synth_jobs if j["cls"] not in ("TypeInfo", "FuncDef", "Var")]
    if only:
        items = [it for it in items if it[0] in only]
    per_class: dict[str, dict] = {}
    hs_results: list[dict] = []
    std_modules: set[str] = set()
    std_merged: dict[str, Any] | None = None
    for _i, (kind, payload), st, val in pmap(_dispatch, items, fresh=False, timeout=3600):
        if st != "ok":
            agg.herr.append(f"{kind} item failed: {str(val)[-800:]}")
            continue
        if kind == "synth":
            _absorb_synth(agg, val, per_class)
        elif kind == "hs":
            hs_results.append(val)
        elif kind == "std":  # the two formats ran as two items: merge into one program result
            for res in val:
                if std_merged is None:
                    std_merged = res
                else:
                    std_merged["fmt"].update(res["fmt"])
        else:
            for res in val:
                _absorb_program(agg, res)
    if std_merged is not None:
        _absorb_program(agg, std_merged)
        for fmt in FORMATS:
            std_modules |= set((std_merged["fmt"].get(fmt, {}).get("load") or {}).get("modules") or {})
    if not ctx.thorough:
        shutil.rmtree(std_root, ignore_errors=True)
    log(f"C11 main lanes done in {time.time() - t0:.0f}s")

    # ---- T: every other stdlib module, in groups on top of a copy of the Q cache
    cov["stdlib_modules_reached_from_roots"] = len(std_modules)
    if ctx.thorough and not only:
        allmods = _stdlib_modules_all()
        rest = [m for m in allmods if m not in std_modules]
        groups = chunked(seeded_order(rest, ctx.seed), 24)
        gjobs = []
        for gi, g in enumerate(groups):
            root = os.path.join(work, f"stdlib-g{gi}")
            gjobs.append([{"id": f"stdlib-group:{gi}", "lane": "stdlib", "root": root, "timeout": 1500,
                           "spec": _write_main(root, list(g)), "base_cache": std_root, "imports": list(g)}])
        seen_t: set[str] = set(std_modules)
        for _i, _it, st, val in pmap(_programs, gjobs, fresh=False, timeout=3600):
            if st != "ok":
                agg.herr.append(f"stdlib group failed: {str(val)[-800:]}")
                continue
            for res in val:
                _absorb_program(agg, res)
                for fmt in FORMATS:
                    seen_t |= set((res["fmt"].get(fmt, {}).get("load") or {}).get("modules") or {})
        cov["stdlib_modules_in_typeshed"] = len(allmods)
        cov["stdlib_modules_loaded_and_compared"] = len(seen_t & set(allmods))
        cov["stdlib_modules_not_available_for_default_target"] = sorted(set(allmods) - seen_t)[:60]
        shutil.rmtree(std_root, ignore_errors=True)

    # ---- (iv) hash seeds
    hs_compared = 0
    probes: set = set()
    merged_hs: dict[str, dict] = {}
    for r in hs_results:  # one interpreter per (format, seed): regroup by format
        merged_hs.setdefault(r["fmt"], {"fmt": r["fmt"], "seeds": {}})["seeds"].update(r["seeds"])
    for r in merged_hs.values():
        fmt = r["fmt"]
        ok = {s: v for s, v in r["seeds"].items() if "modules" in v and not v.get("crashed")}
        for s, v in r["seeds"].items():
            if s not in ok:
                agg.herr.append(f"hash-seed run {fmt} seed {s} failed: {str(v)[-600:]}")
        if len(ok) < 2:
            continue
        (s1, a), (s2, b) = sorted(ok.items())[:2]
        probes |= {a["hash_probe"], b["hash_probe"]}
        for mid in sorted(set(a["modules"]) & set(b["modules"])):
            hs_compared += 1
            if a["modules"][mid][:2] != b["modules"][mid][:2]:
                agg.viol.append(Violation(
                    f"hashseed|{fmt}|{mid}",
                    f"{mid}: cold builds under PYTHONHASHSEED={s1} and {s2} write different {fmt} bytes / interface hash",
                    {"lane": "hashseed", "fmt": fmt, "module": mid, "imports": HASHSEED_ROOTS, "seeds": [s1, s2],
                     "a": a["modules"][mid], "b": b["modules"][mid]}))
    cov["hashseed_modules_compared"] = hs_compared
    cov["hashseed_interpreters_really_differ"] = len(probes) >= 2

    agg.finish_walk()
    # simplest first: synthetic crashes, then walk fields, then the rest
    order = {"crash": 0, "walk": 1}
    agg.viol.sort(key=lambda v: (order.get(v.signature.split("|")[0], 2), v.signature,
                                 _complexity(v.detail.get("label")) if v.detail.get("lane") == "synthetic" else (9,)))

    n = agg.n
    compared = sum(v for k, v in n.items() if "_modules_compared_" in k)
    objects = {k[8:]: v for k, v in n.items() if k.startswith("objects_")}
    # vacuity gates
    vac = []
    if n["synthetic_variants"] < 5000 or len(per_class) < len(c11_synth.ALL_CLASSES):
        vac.append(f"synthetic lane too small ({n['synthetic_variants']} variants, {len(per_class)} classes)")
    if n["stdlib_fully_fresh_loads"] < 2 or len(std_modules) < 100:
        vac.append(f"stdlib lane did not load from cache ({n['stdlib_fully_fresh_loads']} fresh loads, {len(std_modules)} modules)")
    if n["corpus_fully_fresh_loads"] < 40:
        vac.append(f"corpus lane too small ({n['corpus_fully_fresh_loads']} fully fresh loads)")
    if hs_compared < 30 or len(probes) < 2:
        vac.append(f"hash-seed lane vacuous ({hs_compared} modules, {len(probes)} distinct hash probes)")
    if objects.get("TypeInfo", 0) < 1000 or objects.get("CallableType", 0) < 5000:
        vac.append(f"walk saw too few objects: {objects}")
    if vac and not only:
        raise RuntimeError("vacuous exploration: " + "; ".join(vac))

    cov.update({
        "evaluations": compared + n["synthetic_variants"] * 2,
        "distinct_nontrivial": compared + n["synthetic_variants"],
        "rule": "a case = one (module, format) loaded from its cache file by a second process and compared with its freshly "
                "analysed tree, or one synthetic (class, flag subset, field combination) variant round-tripped through both "
                "formats; non-trivial iff the module was really loaded from cache (is_cache_skeleton, nothing rechecked) "
                "resp. the variant was serialized, deserialized, fixed up and walked",
        "exhaustive": True,
        "exhaustive_note": "every module of the stated program sets and every variant of the stated object families was "
                           "evaluated; Var (20 flags) uses subsets of size <=2 plus complements in quick and all 2^20 in "
                           "thorough; optional-field combinations are crossed with {no flag, all flags}, flag subsets with "
                           "{all fields at first value, all at last value}",
        "modules_compared": compared,
        "by_lane": {k: v for k, v in sorted(n.items()) if not k.startswith("objects_")},
        "objects_walked_in_loaded_trees": objects,
        "synthetic_classes": per_class,
        "walk_skip_list": c11_walk.skip_table(),
        "walk_tolerated_rules": [{"field": f, "why": w} for f, _p, w in c11_walk.TOLERATED],
        "synthetic_unreachable_attributes": [{"class": c, "field": f, "why": w} for (c, f), w in sorted(c11_synth.UNREACHABLE.items())],
        "walk_fields_differing": {f: {"formats": sorted(w["fmts"]), "occurrences": w["n"], "lanes": sorted(w["lanes"])}
                                  for f, w in sorted(agg.walk.items())},
        "distinct_outcomes": len({v.signature for v in agg.viol}) + 1,
        "samples": agg.samples[:8],
        "tier_bounds": "Q: stdlib closure of " + ",".join(Q_ROOTS) + "; corpus slice; T: whole stdlib, whole corpus, Var 2^20",
    })
    return Result(PROPERTY, LEVEL, cov, agg.viol, assumptions=[
        "fresh side = trees in memory at the end of the cold build (the state write_cache serialized, plus whatever later "
        "modules of the same build did to them)",
        "attributes in the walk skip list / tolerated rules / unreachable list (all reported in coverage with their "
        "justification) are not required to survive",
        "corpus cases run on fixture stubs with the flags of the case; cases whose flags redirect the cache or need a "
        "config file are excluded (counted)",
        "librt.internal primitives are exercised only through the Python-level write/read paths (DESIGN lane (v), a "
        "rebuilt librt, is not built)",
    ], harness_errors=agg.herr)


def _dispatch(item: tuple[str, Any]) -> Any:
    kind, payload = item
    if kind == "synth":
        return run_isolated(c11_synth.run_job, payload, timeout=3000)
    if kind == "hs":
        return _hashseed_run(payload)
    return _programs(payload)


# --------------------------------------------------------------------------- replay


def replay(ctx: Ctx, rec: dict) -> Result:
    d = rec["detail"]
    lane = d.get("lane")
    work = scratch("c11-replay")
    agg = Agg()
    per_class: dict[str, dict] = {}
    if lane == "synthetic":
        r = run_isolated(c11_synth.replay_variant, {"root": os.path.join(work, "synth"), "label": d["label"]}, timeout=600)
        r.update(cls=d["label"]["class"], flags=[], flag_sets=0, exhaustive_flags=True, optional=[], samples=[])
        for f in r["findings"]:
            f.setdefault("occurrences", 1)
            print("finding:", {k: v for k, v in f.items() if k != "tb"})
        _absorb_synth(agg, r, per_class)
    elif lane == "stdlib":
        root = os.path.join(work, "std")
        mods = [d["module"]] if d.get("module") else Q_ROOTS
        job = {"id": "stdlib:" + "+".join(mods), "lane": "stdlib", "root": root, "timeout": 1500,
               "spec": _write_main(root, mods)}
        _absorb_program(agg, _program(job))
    elif lane == "corpus":
        fname, cname = d["id"].split("::")
        case = next(c for c in corpus.load_file(os.path.join(corpus.UNIT, fname)) if c.name == cname)
        import re

        case.files = {k: v for k, v in case.files.items() if not re.search(r"\.\d+$", k)}
        _absorb_program(agg, _program(_corpus_job(case, os.path.join(work, "case"))))
    elif lane == "hashseed":
        r = _hashseed_run({"fmt": d["fmt"], "seeds": d["seeds"], "imports": d["imports"], "root": os.path.join(work, "hs"),
                           "timeout": 1500})
        (s1, a), (s2, b) = sorted(r["seeds"].items())[:2]
        for mid in sorted(set(a.get("modules", {})) & set(b.get("modules", {}))):
            if a["modules"][mid][:2] != b["modules"][mid][:2]:
                agg.viol.append(Violation(f"hashseed|{d['fmt']}|{mid}", f"{mid} differs between seeds", {}))
    agg.finish_walk()
    want = rec.get("signature")
    hit = [v for v in agg.viol if v.signature == want] or [v for v in agg.viol if v.signature.split("|")[:2] == str(want).split("|")[:2]]
    for v in agg.viol:
        print("observed:", v.signature, "::", v.what[:200])
    return Result(PROPERTY, LEVEL, {}, hit, harness_errors=agg.herr)
