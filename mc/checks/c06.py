"""C06 — compiled code is memory safe: balanced reference counts, no undefined reads (model_checking).

Static lane (the deciding step): for every program of the repository's mypyc corpus the REAL pipeline
(`emitmodule.compile_scc_to_ir` / `compile_modules_to_ir`, observed through wrappers of the two names
emitmodule calls -- mc/c06_ir.py) produces FuncIR; every function is explored TWICE by the explicit-state
ownership search of mc/c06_model.py: right after `insert_ref_count_opcodes` and after the last pass
(`do_flag_elimination`; spill, lower and copy propagation run in between), so a violation that exists only
in the final IR is attributed to the later passes.

Dynamic lanes (bind the model to the implementation; oracle = CPython itself): a generated family of net
neutral functions and the undefined-read family (mc/c06_gen.py) are compiled with mypyc -- the model runs in
the compiling process on exactly the IR that becomes C (mc/c06_build.py) and predicts "no ownership
violation on any path" -- then executed under PYTHONMALLOC=debug in subprocesses (mc/c06_driver.py):
sys.getrefcount of every tracked object before/after 64 calls, weakref census of live tracked instances,
outcome vs the interpreted twin; a signal exit is a violation.

Generated families of the second generation (mc/c06_fam.py; finite products enumerated completely, every function
is model-checked at both stages in the build process AND executed against its interpreted twin):
  * multi-steal family: source construct reaching a stealing op (list/tuple displays below, at and above the
    CPyList_Build threshold, starred displays, TupleSet, SetAttr, list __setitem__/append, Assign, Return, str +=,
    unpack/swap; set/dict displays and calls as non-stealing controls) x operand shape (which slots hold the SAME
    value) x provenance of that value (borrowed/reassigned argument, owned local dead/live afterwards, attribute load,
    literal, short/big int, float, native instance, Optional, str, Final, global, value tuple) x provenance of the
    other value.  Besides the 64-call refcount deltas the driver compares, with CPython, the references the RESULT
    holds on every identity-carrying object while it is alive (an object freed too early is otherwise silent).
  * nested protected-region family: outer region {none, try/except, try/finally, with, except body, finally body,
    loop body} (thorough: two nested outers) x inner try/except | try/finally x first assignment {before, outer
    body, first statement of the inner try (raising call), later statement, inner handler} x reader set x
    pre-statement x local type {object, int, i64}, run for every raise point.  Oracle: CPython.
  * CFG invariant (all lanes, corpus included): the CFG that uninit.py's must-defined analysis receives from the real
    get_cfg has, for every block, the edges documented there (own handler, handlers of the normal successors).
  * functions whose C the compiler rejects (-Werror=maybe-uninitialized) are reported and the module is rebuilt
    without them.
"""

from __future__ import annotations

import json
import os
import re
import shutil
import signal
import subprocess
import sys
import time
from collections import Counter
from concurrent.futures import ThreadPoolExecutor
from typing import Any

from mc import c06_fam, c06_gen, corpus
from mc.common import Ctx, Result, Violation, scratch, seeded_order
from mc.kernel import ExecError, pmap, run_isolated

PROPERTY = "C06"
LEVEL = "model_checking"

QUICK_FILES = ["refcount.test", "irbuild-basic.test", "irbuild-classes.test", "irbuild-try.test"]
QUICK_SLICE = 200  # seed-selected cases from the rest of the corpus
BATCH = 6
MAX_STATES = 300000


# --------------------------------------------------------------------------- corpus


def corpus_files() -> list[str]:
    out = []
    for pat in ("refcount.test", "irbuild-*.test", "run-*.test", "exceptions*.test", "lowering-*.test", "opt-*.test"):
        out += [os.path.basename(p) for p in corpus.files_matching(pat, base=corpus.MYPYC_DATA)]
    return sorted(set(out))


def case_job(c: corpus.Case) -> dict:
    files = dict(c.files)
    for attr, target in (("typing", "typing.pyi"), ("builtins", "builtins.pyi")):
        fx = getattr(c, attr)
        if fx:
            with open(os.path.join(corpus.MYPYC_DATA, fx), encoding="utf-8") as f:
                files[target] = f.read()
    return {"kind": "run" if c.file.startswith("run-") else "single", "file": c.file, "case": c.name,
            "main": c.main, "files": files}


def load_jobs(ctx: Ctx, only_files: list[str] | None = None) -> tuple[list[dict], dict]:
    names = corpus_files()
    if only_files:
        names = [n for n in names if n in only_files]
    by_file = {n: corpus.load_file(os.path.join(corpus.MYPYC_DATA, n)) for n in names}
    total = sum(len(v) for v in by_file.values())
    if ctx.thorough or only_files:
        cases = [c for n in names for c in by_file[n]]
        sel = {"selection": "all"}
    else:
        fixed = [c for n in QUICK_FILES for c in by_file.get(n, [])]
        rest = [c for n in names if n not in QUICK_FILES for c in by_file[n]]
        picked = seeded_order(rest, ctx.seed + 1)[:QUICK_SLICE]
        cases = fixed + picked
        sel = {"selection": f"{QUICK_FILES} complete + {len(picked)} of {len(rest)} other cases chosen by seed"}
    sel.update({"corpus_files": len(names), "corpus_cases": total, "selected_cases": len(cases)})
    return [case_job(c) for c in cases], sel


# --------------------------------------------------------------------------- static lane (child side)


def _compile_and_check(job: dict) -> dict:
    """Runs in a freshly forked child: real pipeline + model on every function, both stages."""
    from mypyc.ir.pprint import format_func

    from mc import c06_ir, c06_model

    funcs: list[dict] = []
    shown = [0]

    def obs(stage: str, fn: Any, mod: str) -> None:
        r = c06_model.check_function(fn, stage, MAX_STATES)
        rec = {"module": mod, "cls": fn.class_name, "fn": fn.name, "stage": stage}
        rec.update({k: r[k] for k in ("states", "transitions", "entry_states", "capped", "blocks", "ops", "tracked",
                                      "escaped", "ends", "n_increfs", "n_decrefs", "violations",
                                      "arg_null_combos_capped", "malformed")})
        only = job.get("only_function")
        if r["violations"] and shown[0] < 3 and (only is None or only == [fn.class_name, fn.name]):
            shown[0] += 1
            rec["ir"] = "\n".join(format_func(fn))[:6000]
        funcs.append(rec)

    cfg = {"functions": 0, "functions_with_handlers": 0, "blocks": 0, "blocks_with_handler": 0, "missing": []}

    def cfg_obs(fn: Any, missing: list, nblocks: int, nhandled: int) -> None:
        cfg["functions"] += 1
        cfg["functions_with_handlers"] += bool(nhandled)
        cfg["blocks"] += nblocks
        cfg["blocks_with_handler"] += nhandled
        for m in missing:
            cfg["missing"].append(dict(m, fn=fn.name, cls=fn.class_name))

    patch = job.get("patch")
    if patch:
        import mypy.build  # noqa: F401  (import order: mypy first, as every real entry point does)
        import mypyc.codegen.emitmodule  # noqa: F401

        exec(compile(open(patch).read(), patch, "exec"), {})
    root = scratch("c06", f"w{os.getpid()}")
    st = c06_ir.compile_program(job["kind"], root, job["case"], job["main"], job["files"], obs, cfg_obs)
    return {"status": st, "functions": funcs, "cfg": cfg}


def run_batch(batch: list[dict]) -> list[dict]:
    out = []
    for job in batch:
        t0 = time.time()
        try:
            r = run_isolated(_compile_and_check, job, timeout=job.get("timeout", 900))
            r["error"] = None
        except ExecError as e:
            r = {"status": {"status": "harness_" + e.kind}, "functions": [], "cfg": {}, "error": e.info[-1500:]}
        r["file"], r["case"], r["seconds"] = job["file"], job["case"], round(time.time() - t0, 2)
        out.append(r)
    return out


def synthesized_origin(cls: str | None, fn: str) -> str:
    """Compiler-synthesised methods (generator/env classes) are a cause of their own; user functions are not."""
    base = re.sub(r"___\d+$", "", cls or "")
    for suffix in ("gen", "env"):
        if base.endswith("_" + suffix):
            return f"synth:{suffix}.{fn}"
    return "fn"


def static_violations(file: str, case: str, funcs: list[dict], lane: str = "corpus") -> list[Violation]:
    """Attribute per function: a violation present right after refcount insertion -> 'refcount'; present only
    in the final IR -> 'later-pass'."""
    by_fn: dict[tuple, dict[str, dict]] = {}
    for f in funcs:
        by_fn.setdefault((f["module"], f["cls"], f["fn"]), {})[f["stage"]] = f
    out = []
    for (mod, cls, name), stages in by_fn.items():
        a = stages.get("refcount", {"violations": []})
        b = stages.get("final", {"violations": []})
        # later passes rename values (copy propagation), so "the same violation" is judged by kind: a kind that the
        # function already shows right after refcount insertion is not re-attributed to the later passes
        kinds_a = {v["kind"] for v in a["violations"]}
        todo = [("refcount", v, a) for v in a["violations"]]
        todo += [("later-pass", v, b) for v in b["violations"] if v["kind"] not in kinds_a]
        done: set = set()
        for attr, v, rec in todo:
            key = (attr, v["kind"], v["at"], v["value"])
            if key in done:
                continue
            done.add(key)
            if v["value"] in ("register", "arg") and v["kind"] in ("null-deref", "null-store"):
                # one cause whatever the consuming op: a register that holds the error value on this path is used
                sig = f"static|{attr}|null-register-use|{synthesized_origin(cls, name)}"
            else:
                sig = f"static|{attr}|{v['kind']}|at:{v['at']}|value:{v['value']}|{synthesized_origin(cls, name)}"
            also = "" if attr == "later-pass" else (
                " (also in final IR)" if (v["kind"], v["at"], v["value"]) in
                {(w["kind"], w["at"], w["value"]) for w in b["violations"]} else " (not in final IR)")
            what = (f"{file}::{case} {cls + '.' if cls else ''}{name}: {v['kind']} of {v['value']} at {v['at']} "
                    f"(block L{v['block']} op {v['op_index']}, path {v['path_blocks'][:12]}) in IR after "
                    f"{'insert_ref_count_opcodes' if attr == 'refcount' else 'the later passes only'}{also}")
            out.append(Violation(sig, what, {"lane": "static", "source": lane, "file": file, "case": case,
                                             "module": mod, "cls": cls, "fn": name, "attribution": attr,
                                             "violation": v, "ir": rec.get("ir")}))
    return out


# --------------------------------------------------------------------------- dynamic lanes


def _driver_env() -> dict[str, str]:
    env = dict(os.environ)
    env["PYTHONPATH"] = "/verif"
    env["PYTHONDONTWRITEBYTECODE"] = "1"
    env["PYTHONHASHSEED"] = "0"
    env["PYTHONMALLOC"] = "debug"
    return env


def _run_driver(job: dict, tag: str, timeout: float) -> dict:
    """Run the driver; on a signal exit record the measurement in flight and continue after it (finished
    measurements are kept: the driver appends each one to its out file)."""
    d = job["build_dir"]
    crashes: list[dict] = []
    herr: list[str] = []
    skip: list = []
    outp = os.path.join(d, f"{tag}.out")

    def finished() -> list[dict]:
        try:
            with open(outp) as f:
                return [json.loads(line) for line in f if line.strip()]
        except OSError:
            return []

    def key_of(m: dict) -> list:
        return [m["name"], m["k"]] if "k" in m else [m["name"], m["input"]]

    for attempt in range(400):
        j = dict(job, skip=skip + [key_of(m) for m in finished()], progress=os.path.join(d, f"{tag}.progress"), out=outp)
        jf = os.path.join(d, f"{tag}.job{attempt}")
        with open(jf, "w") as f:
            json.dump(j, f)
        try:
            p = subprocess.run([sys.executable, "-m", "mc.c06_driver", jf], cwd=d, env=_driver_env(),
                               stdout=subprocess.PIPE, stderr=subprocess.STDOUT, timeout=timeout)
            rc, out = p.returncode, p.stdout.decode("utf8", "replace")[-3000:]
        except subprocess.TimeoutExpired:
            herr.append(f"driver {tag} timeout after {timeout}s")
            break
        if rc == 0 and os.path.exists(outp + ".done"):
            break
        if rc < 0:
            try:
                with open(j["progress"]) as f:
                    where = json.load(f)
            except (OSError, ValueError):
                herr.append(f"driver {tag} died with signal {-rc} before any measurement: {out[-500:]}")
                break
            if where in skip:
                herr.append(f"driver {tag} died with signal {-rc} outside a measurement (after {where}): {out[-500:]}")
                break
            crashes.append({"where": where, "signal": -rc, "stderr": out[-1500:]})
            skip.append(where)
            continue
        herr.append(f"driver {tag} failed rc={rc}: {out[-1500:]}")
        break
    else:
        herr.append(f"driver {tag}: more than 400 signal exits, remaining measurements not taken")
    return {"results": finished(), "crashes": crashes, "harness_errors": herr}


DRIVER_LANE = {"conformance": "conformance", "ms": "conformance", "undef": "undef", "nr": "undef"}


def dynamic_lane(work: str, lane: str, mod: str, source: str, specs: list[dict], split: int, patch: str | None,
                 calls: int | None = None, opt: str = "0") -> dict:
    """lane = family: conformance | ms (multi-steal; conformance driver + result census) | undef | nr (nested
    protected regions; undef driver with explicit inputs)."""
    from mc.c06_build import build

    d = os.path.join(work, f"{mod}-O{opt}")
    t0 = time.time()
    assembled = all("source" in sp for sp in specs)  # family modules: `source` is the prelude, functions come with the specs
    rejected: list[dict] = []
    build_seconds = 0.0
    for _round in range(4):
        text = c06_fam.assemble(source, specs) if assembled else source
        b = build({"dir": d, "mod": mod, "source": text, "opt": opt, "patch": patch,
                   "extra_files": {"c06trk.py": c06_gen.TRACK_MODULE, mod + "_ref.py": text}})
        build_seconds += b["seconds"]
        bad = {e["fn"] for e in b["c_errors"]} & {sp["name"] for sp in specs}
        if b["ok"] or not assembled or not bad:
            break
        # the C compiler rejects some generated functions (e.g. -Werror=maybe-uninitialized): reported as violations;
        # the module is rebuilt without them so that the other functions are still measured
        seen = set()
        for e in b["c_errors"]:
            if e["fn"] in bad and (e["fn"], e["message"]) not in seen:
                seen.add((e["fn"], e["message"]))
                rejected.append(dict(e, spec={k: v for k, v in next(sp for sp in specs if sp["name"] == e["fn"]).items()
                                              if k != "source"}))
        specs = [sp for sp in specs if sp["name"] not in bad]
        shutil.rmtree(d, ignore_errors=True)
    specs = [{k: v for k, v in sp.items() if k != "source"} for sp in specs]
    out: dict = {"lane": lane, "mod": mod, "opt": opt, "build_ok": b["ok"], "build_seconds": round(build_seconds, 2),
                 "lib_rt": b["lib_rt"], "static": b["static"], "cfg": b.get("cfg") or {}, "specs": specs, "results": [],
                 "crashes": [], "harness_errors": [], "c_rejected": rejected}
    if not b["ok"]:
        out["harness_errors"].append(f"mypyc build of {mod} failed rc={b['rc']}: {b['log'][-2500:]}")
        shutil.rmtree(d, ignore_errors=True)
        return out
    chunks = [specs[i::split] for i in range(split)] if split > 1 else [specs]
    jobs = []
    for i, ch in enumerate(chunks):
        j = {"lane": DRIVER_LANE[lane], "modname": mod, "refname": mod + "_ref", "specs": ch, "build_dir": d}
        if calls:
            j["calls"] = calls
        jobs.append((j, f"drv{i}"))
    with ThreadPoolExecutor(max_workers=len(jobs)) as ex:
        for r in ex.map(lambda jt: _run_driver(jt[0], jt[1], 1500), jobs):
            out["results"] += r["results"]
            out["crashes"] += r["crashes"]
            out["harness_errors"] += r["harness_errors"]
    out["seconds"] = round(time.time() - t0, 1)
    shutil.rmtree(d, ignore_errors=True)  # build trees are removed as soon as they were measured
    return out


def conformance_verdicts(dyn: dict) -> tuple[list[Violation], list[str], Counter, list[dict]]:
    viol: list[Violation] = []
    herr: list[str] = []
    st = Counter()
    samples: list[dict] = []
    alarmed_classes = {re.sub(r"_(gen|env)(___\d+)?$", "", f["cls"]) for f in dyn["static"] if f["violations"] and f["cls"]}
    bodies = {"cf_" + n: b for n, _k, b in c06_gen.CONF}

    def predicted_balanced(fname: str) -> bool:
        own = [f for f in dyn["static"] if f["cls"] is None and f["fn"] == fname]
        if not own or any(f["violations"] for f in own):
            return False
        # helpers (generators, closures) the function calls: their synthesized classes carry the helper's name
        return not any(re.search(rf"\b{re.escape(h)}\b", bodies.get(fname, "")) for h in alarmed_classes)

    for m in dyn["results"]:
        rf, cm = m["ref"], m["compiled"]
        st["measurements"] += 1
        ref_neutral = not rf["deltas"] and rf["live_delta"] == 0 and rf["restored"] and rf["stable"]
        if not ref_neutral:
            herr.append(f"conformance function {m['name']} k={m['k']} is not net neutral under CPython itself: {rf}")
            continue
        predicted_clean = predicted_balanced(m["name"])
        st["traces_validated"] += 1
        st["predicted_balanced" if predicted_clean else "predicted_violation"] += 1
        st["outcome:" + cm["outcome"].split(":")[0] + (":" + cm["outcome"].split(":")[1] if cm["outcome"].startswith("exc") else "")] += 1
        if len(samples) < 2 and cm["outcome"].startswith("exc"):
            samples.append({"function": m["name"], "k": m["k"], "outcome": cm["outcome"], "refcount_deltas": cm["deltas"],
                            "live_delta": cm["live_delta"], "model_predicted_balanced": predicted_clean})
        problems = []
        if cm["deltas"]:
            problems.append(("refcount-delta", f"deltas after 64 calls {cm['deltas']}"))
        if cm["live_delta"]:
            problems.append(("live-instances", f"{cm['live_delta']:+d} live tracked instances after 64 calls"))
        if not cm["restored"]:
            problems.append(("state-not-restored", "containers/attributes differ after the call"))
        if cm["outcome"] != rf["outcome"]:
            problems.append(("outcome", f"compiled {cm['outcome']} vs CPython {rf['outcome']}"))
        if not cm["stable"]:
            problems.append(("unstable", "outcome changed between repeated calls"))
        for kind, txt in problems:
            sign = ""
            if kind == "refcount-delta":
                sign = "|leak" if all(v > 0 for v in cm["deltas"].values()) else "|over-release"
            viol.append(Violation(
                f"dynamic|conformance|{kind}{sign}|{m['name']}",
                f"{m['name']}(k={m['k']}): {txt}; static model predicted "
                f"{'balanced (prediction refuted)' if predicted_clean else 'a violation in this function or its helpers (prediction confirmed)'}",
                {"lane": "conformance", "name": m["name"], "k": m["k"], "measurement": m}))
    for c in dyn["crashes"]:
        name, k = c["where"]
        viol.append(Violation(f"dynamic|conformance|crash|{name}",
                              f"{name}(k={k}): process died with signal {c['signal']} "
                              f"({signal.Signals(c['signal']).name if c['signal'] in signal.Signals._value2member_map_ else '?'})",
                              {"lane": "conformance", "name": name, "k": k, "crash": c}))
    return viol, herr, st, samples


def undef_verdicts(dyn: dict) -> tuple[list[Violation], list[str], Counter, list[dict]]:
    viol: list[Violation] = []
    herr: list[str] = []
    st = Counter()
    samples: list[dict] = []
    for m in dyn["results"]:
        rf, cm = m["ref"], m["compiled"]
        kind, typ, _mask = m["name"].split("_")
        st["measurements"] += 1
        st["traces_validated"] += 1
        ro, co = rf["outcome"], cm["outcome"]
        st["ref:" + ro.split(":")[0] + (":" + ro.split(":")[1] if ro.startswith("exc") else "")] += 1
        if ro.startswith("exc"):
            st["undefined_read_cases"] += 1
        if rf["delta_a"] or rf["live_delta"]:
            herr.append(f"undef function {m['name']} {m['input']} not neutral under CPython: {rf}")
            continue
        if len(samples) < 2 and ro.startswith("exc") and ro == co:
            samples.append({"function": m["name"], "input(c,n,r,del)": m["input"], "cpython": ro, "compiled": co})
        if ro != co:
            after_del = bool(m["mask"] & 16) and bool(m["input"][3])
            viol.append(Violation(
                f"dynamic|undef|{'local' if kind == 'ul' else 'attr'}|{typ}|{'after-del' if after_del else 'never-assigned'}|"
                f"{ro.split(':')[0] + (':' + ro.split(':')[1] if ro.startswith('exc') else '')}->"
                f"{co.split(':')[0] + (':' + co.split(':')[1] if co.startswith('exc') else '')}",
                f"{m['name']}{tuple(m['input'])}: CPython {ro}, compiled {co}",
                {"lane": "undef", "name": m["name"], "input": m["input"], "mask": m["mask"], "measurement": m}))
        if cm["delta_a"] or cm["delta_v"] or cm["live_delta"]:
            viol.append(Violation(
                f"dynamic|undef|refcount-delta|{'local' if kind == 'ul' else 'attr'}|{typ}",
                f"{m['name']}{tuple(m['input'])}: refcount deltas a={cm['delta_a']} v={cm['delta_v']} live={cm['live_delta']}",
                {"lane": "undef", "name": m["name"], "input": m["input"], "mask": m["mask"], "measurement": m}))
    for c in dyn["crashes"]:
        name, inp = c["where"]
        kind, typ, _mask = name.split("_")
        viol.append(Violation(f"dynamic|undef|crash|{'local' if kind == 'ul' else 'attr'}|{typ}",
                              f"{name}{tuple(inp)}: process died with signal {c['signal']}",
                              {"lane": "undef", "name": name, "input": inp, "crash": c}))
    return viol, herr, st, samples


def _okind(o: str) -> str:
    return o.split(":")[0] + (":" + o.split(":")[1] if o.startswith("exc") else "")


def ms_verdicts(dyn: dict) -> tuple[list[Violation], list[str], Counter, list[dict]]:
    """Multi-steal family: conformance measurements + census of the references the RESULT holds (vs CPython)."""
    viol: list[Violation] = []
    herr: list[str] = []
    st = Counter()
    samples: list[dict] = []
    spec = {sp["name"]: sp for sp in dyn["specs"]}
    alarmed = {f["fn"] for f in dyn["static"] if f["violations"] and f["cls"] is None}
    for m in dyn["results"]:
        rf, cm = m["ref"], m["compiled"]
        sp = spec[m["name"]]
        st["measurements"] += 1
        if rf["deltas"] or rf["live_delta"] or not rf["restored"] or not rf["stable"]:
            herr.append(f"multi-steal function {m['name']} k={m['k']} is not net neutral under CPython itself: {rf}")
            continue
        predicted_clean = m["name"] not in alarmed
        st["traces_validated"] += 1
        st["predicted_balanced" if predicted_clean else "predicted_violation"] += 1
        st["outcome:" + _okind(cm["outcome"])] += 1
        problems = []
        if cm["deltas"]:
            sign = "leak" if all(v > 0 for v in cm["deltas"].values()) else "over-release"
            problems.append((f"refcount-delta|{sign}", f"deltas after 64 calls {cm['deltas']}"))
        if cm["live_delta"]:
            problems.append(("live-instances", f"{cm['live_delta']:+d} live tracked instances after 64 calls"))
        if not cm["restored"]:
            problems.append(("state-not-restored", "containers/attributes differ after the call"))
        if cm["outcome"] != rf["outcome"]:
            problems.append(("outcome", f"compiled {cm['outcome']} vs CPython {rf['outcome']}"))
        if not cm["stable"]:
            problems.append(("unstable", "outcome changed between repeated calls"))
        if isinstance(rf["census"], list) and isinstance(cm["census"], list):
            st["census_compared"] += 1
            st["census_objects"] += len(rf["census"])
            if len(samples) < 1 and len(rf["census"]) >= 2 and rf["census"] == cm["census"] and sp["shape"].count("x") > 1:
                samples.append({"function": m["name"], "k": m["k"], "outcome": cm["outcome"],
                                "references_held_by_result(label,refcount)": cm["census"], "cpython": rf["census"]})
            if rf["census"] != cm["census"]:
                a, b = dict(map(tuple, rf["census"])), dict(map(tuple, cm["census"]))
                fewer = any(b.get(kk, 0) < v for kk, v in a.items())
                problems.append((f"result-references|{'fewer' if fewer else 'more'}",
                                 f"references held while the result is alive: compiled {cm['census']} vs CPython {rf['census']}"))
        for kind, txt in problems:
            viol.append(Violation(
                f"dynamic|multi-steal|{kind}|{sp['construct']}",
                f"{m['name']}(k={m['k']}): {txt}; static model predicted "
                f"{'balanced (prediction refuted)' if predicted_clean else 'a violation in this function (prediction confirmed)'}",
                {"lane": "ms", "name": m["name"], "k": m["k"], "spec": sp, "measurement": m}))
    for c in dyn["crashes"]:
        name, k = c["where"]
        sp = spec.get(name, {"construct": "?", "prov": "?"})
        viol.append(Violation(f"dynamic|multi-steal|crash|{sp['construct']}",
                              f"{name}(k={k}): process died with signal {c['signal']}",
                              {"lane": "ms", "name": name, "k": k, "spec": sp, "crash": c}))
    return viol, herr, st, samples


def nr_verdicts(dyn: dict) -> tuple[list[Violation], list[str], Counter, list[dict]]:
    """Nested protected regions: outcome (value / UnboundLocalError / propagated Err) vs CPython, refcounts, crashes."""
    viol: list[Violation] = []
    herr: list[str] = []
    st = Counter()
    samples: list[dict] = []
    spec = {sp["name"]: sp for sp in dyn["specs"]}
    for m in dyn["results"]:
        rf, cm = m["ref"], m["compiled"]
        sp = spec[m["name"]]
        st["measurements"] += 1
        st["traces_validated"] += 1
        ro, co = rf["outcome"], cm["outcome"]
        st["ref:" + _okind(ro)] += 1
        if ro == "exc:UnboundLocalError":
            st["undefined_read_cases"] += 1
            st[f"undefined_read_cases_outer:{sp['outer']}"] += 1
        if rf["delta_a"] or rf["live_delta"]:
            herr.append(f"nested-region function {m['name']} {m['input']} not neutral under CPython: {rf}")
            continue
        if len(samples) < 1 and ro == "exc:UnboundLocalError" and ro == co and sp["outer"] != "none" and sp["where"] == "F":
            samples.append({"function": m["name"], "input(raise point)": m["input"], "cpython": ro, "compiled": co})
        if ro != co:
            viol.append(Violation(
                f"dynamic|nested-undef|{sp['typ']}|assigned:{sp['where']}|{_okind(ro)}->{_okind(co)}",
                f"{m['name']}(p={m['input'][0]}) [outer {sp['outer']}, inner {sp['inner']}]: CPython {ro}, compiled {co}",
                {"lane": "nr", "name": m["name"], "input": m["input"], "spec": sp, "measurement": m}))
        if cm["delta_a"] or cm["delta_v"] or cm["live_delta"]:
            viol.append(Violation(
                f"dynamic|nested-undef|refcount-delta|{sp['typ']}|outer:{sp['outer']}|inner:{sp['inner']}",
                f"{m['name']}(p={m['input'][0]}): refcount deltas a={cm['delta_a']} v={cm['delta_v']} live={cm['live_delta']}",
                {"lane": "nr", "name": m["name"], "input": m["input"], "spec": sp, "measurement": m}))
    for c in dyn["crashes"]:
        name, inp = c["where"]
        sp = spec.get(name, {"typ": "?", "where": "?", "read": "?", "outer": "?", "inner": "?"})
        viol.append(Violation(f"dynamic|nested-undef|crash|{sp['typ']}|assigned:{sp['where']}",
                              f"{name}(p={inp[0]}) [outer {sp['outer']}, inner {sp['inner']}]: process died with signal "
                              f"{c['signal']}",
                              {"lane": "nr", "name": name, "input": inp, "spec": sp, "crash": c}))
    return viol, herr, st, samples


def c_reject_violations(dyn: dict) -> list[Violation]:
    out = []
    for e in dyn.get("c_rejected", []):
        kind = "maybe-uninitialized" if "uninitialized" in e["message"] else "other"
        out.append(Violation(f"build|c-compiler-error|{kind}|{dyn['lane']}",
                             f"{e['fn']}: the C generated for this function is rejected by the C compiler: {e['message']}",
                             {"lane": dyn["lane"], "name": e["fn"], "spec": e["spec"], "message": e["message"], "build": True}))
    return out


def cfg_violations(where: str, cfg: dict) -> list[Violation]:
    out = []
    for m in cfg.get("missing", []):
        sig = f"static|cfg|{m['kind']}" + (f"|from-protected-block:{m['own_handler']}" if "own_handler" in m else "")
        out.append(Violation(sig, f"{where} {m.get('cls') or ''}.{m['fn']}: CFG given to the must-defined analysis lacks the "
                                  f"{m['kind']} from block {m['block']} to {m['to']}"
                                  + (f" (handler of its successor {m['via']})" if "via" in m else ""),
                             {"lane": "cfg", "where": where, "missing": m, "fn": m["fn"], "cls": m.get("cls")}))
    return out


MS_MODULES_Q, NR_MODULES_Q = 12, 8
MS_MODULES_T, NR_MODULES_T = 32, 16


def start_dynamic(ctx: Ctx, work: str, patch: str | None = None) -> list:
    """Launch the dynamic lanes on threads (they spend their time in subprocesses).  Largest modules first."""
    ex = ThreadPoolExecutor(max_workers=16)
    futs = []
    for mod, src, specs in c06_fam.ms_modules(ctx.thorough, MS_MODULES_T if ctx.thorough else MS_MODULES_Q):
        futs.append((f"multi-steal-{mod}", ex.submit(dynamic_lane, work, "ms", mod, src, specs, 1, patch)))
    for mod, src, specs in c06_fam.nr_modules(["obj", "int", "i64"], ctx.thorough, NR_MODULES_T if ctx.thorough else NR_MODULES_Q):
        futs.append((f"nested-regions-{mod}", ex.submit(dynamic_lane, work, "nr", mod, src, specs, 1, patch)))
    futs.append(("conformance", ex.submit(dynamic_lane, work, "conformance", "c06conf", c06_gen.conformance_source(),
                                          c06_gen.conformance_specs(), 1, patch)))
    if ctx.thorough:
        futs.append(("conformance-O3", ex.submit(dynamic_lane, work, "conformance", "c06conf", c06_gen.conformance_source(),
                                                 c06_gen.conformance_specs(), 1, patch, None, "3")))
        for mod, src, specs in c06_fam.ms_modules(False, 2):
            futs.append((f"multi-steal-O3-{mod}", ex.submit(dynamic_lane, work, "ms", mod, src, specs, 1, patch, None, "3")))
        for mod, src, specs in c06_fam.nr_modules(["obj", "int", "i64"], False, 2):
            futs.append((f"nested-regions-O3-{mod}", ex.submit(dynamic_lane, work, "nr", mod, src, specs, 1, patch, None, "3")))
    types = ["obj", "int", "i64"]
    for t in types:
        futs.append((f"undef-{t}", ex.submit(dynamic_lane, work, "undef", f"c06und_{t}",
                                             c06_gen.undef_source(["local", "attr"], [t]),
                                             c06_gen.undef_specs(["local", "attr"], [t]), 1, patch)))
    ex.shutdown(wait=False)
    return futs


# --------------------------------------------------------------------------- run


def _cpu() -> float:
    t = os.times()
    return t.user + t.system + t.children_user + t.children_system


def run(ctx: Ctx, only_files: list[str] | None = None, patch: str | None = None, dynamic: bool = True) -> Result:
    cpu0 = _cpu()
    work = scratch("c06", "dyn")
    futs = start_dynamic(ctx, work, patch) if dynamic else []
    jobs, sel = load_jobs(ctx, only_files)
    if patch:
        for j in jobs:
            j["patch"] = patch
    # heavy (run-*) cases first so the pool tail is short; order inside is canonical
    jobs.sort(key=lambda j: (j["kind"] != "run", j["file"], j["case"]))
    batches = [jobs[i:i + BATCH] for i in range(0, len(jobs), BATCH)]
    tot = Counter()
    status = Counter()
    violations: list[Violation] = []
    herr: list[str] = []
    samples: list[Any] = []
    per_file: dict[str, Counter] = {}
    biggest = {"states": 0}
    malformed: list[str] = []
    not_compiled: list[str] = []
    cfgtot = Counter()
    for _i, batch, st, val in pmap(run_batch, batches, fresh=False, timeout=7200):
        if st != "ok":
            herr.append(f"batch failed: {val}")
            continue
        for r in val:
            s = r["status"]["status"]
            status[s] += 1
            pf = per_file.setdefault(r["file"], Counter())
            pf["cases"] += 1
            if s.startswith("harness_"):
                herr.append(f"{r['file']}::{r['case']}: {s}: {r['error']}")
                continue
            if s != "ok":
                if s != "skipped":
                    not_compiled.append(f"{r['file']}::{r['case']}: {s}: {(r['status'].get('messages') or ['?'])[0][:140]}")
                continue
            pf["compiled"] += 1
            for f in r["functions"]:
                tot["functions_" + f["stage"]] += 1
                tot["states"] += f["states"]
                tot["transitions"] += f["transitions"]
                tot["entry_states"] += f["entry_states"]
                pf["states"] += f["states"]
                if f["malformed"]:
                    tot["malformed_ir_functions"] += 1
                    malformed.append(f"{r['file']}::{r['case']} {f['fn']} ({f['stage']})")
                if f["capped"]:
                    tot["capped_functions"] += 1
                if f["arg_null_combos_capped"]:
                    tot["arg_null_combos_capped"] += 1
                for k, v in f["ends"].items():
                    tot["paths_" + k] += v
                if f["stage"] == "final":
                    if f["n_decrefs"] and sum(f["ends"].values()) >= 2:
                        tot["nontrivial_functions"] += 1
                    tot["escaped_registers"] += f["escaped"]
                    tot["tracked_values"] += f["tracked"]
                    tot["ops"] += f["ops"]
                    if f["states"] > biggest["states"]:
                        biggest = {"states": f["states"], "function": f"{r['file']}::{r['case']} {f['cls']}.{f['fn']}",
                                   "blocks": f["blocks"], "ops": f["ops"]}
                if f["violations"]:
                    tot["functions_with_alarm_" + f["stage"]] += 1
            vs = static_violations(r["file"], r["case"], r["functions"])
            vs += cfg_violations(f"{r['file']}::{r['case']}", r.get("cfg") or {})
            for k in ("functions", "functions_with_handlers", "blocks", "blocks_with_handler"):
                cfgtot[k] += (r.get("cfg") or {}).get(k, 0)
            violations += vs
            if len(samples) < 2 and r["functions"] and not vs:
                f = max(r["functions"], key=lambda f: f["states"])
                samples.append({"case": f"{r['file']}::{r['case']}", "function": f["fn"], "stage": f["stage"],
                                "abstract_states": f["states"], "transitions": f["transitions"], "path_ends": f["ends"],
                                "inc_refs": f["n_increfs"], "dec_refs": f["n_decrefs"], "verdict": "balanced on every path"})
    # canonical (simplest-first) order of violations: by file, case
    violations.sort(key=lambda v: (v.signature, len(v.detail.get("ir") or "") or 10 ** 9, v.detail.get("file", ""),
                                   v.detail.get("case", "")))

    # ---- dynamic lanes
    dyn_cov: dict[str, Any] = {}
    traces = 0
    dyn_static_viol = 0
    fam = Counter()
    steal_kinds = Counter()
    for name, fut in futs:
        dyn = fut.result()
        herr += dyn["harness_errors"]
        for f in dyn["static"]:
            tot["functions_" + f["stage"]] += 1
            tot["gen_functions_" + f["stage"]] += 1
            tot["states"] += f["states"]
            tot["transitions"] += f["transitions"]
            if f["capped"]:
                tot["capped_functions"] += 1
            if f["stage"] == "refcount":
                fam[dyn["lane"] + "_functions"] += 1
                fam[dyn["lane"] + "_states_x2"] += f["states"]
                fam[dyn["lane"] + "_transitions_x2"] += f["transitions"]
                fam[dyn["lane"] + "_ops_stealing_one_value_more_than_once"] += f.get("multi_steal_ops", 0)
                if dyn["lane"] == "ms":
                    steal_kinds.update(f.get("steal_kinds") or {})
            else:
                fam[dyn["lane"] + "_states_x2"] += f["states"]
                fam[dyn["lane"] + "_transitions_x2"] += f["transitions"]
        by_stage = [dict(f, module=dyn["mod"], blocks=0) for f in dyn["static"]]
        sv = static_violations("generated:" + dyn["mod"], dyn["lane"], by_stage, lane="generated")
        sv += cfg_violations("generated:" + dyn["mod"], dyn["cfg"])
        sv += c_reject_violations(dyn)
        for k in ("functions", "functions_with_handlers", "blocks", "blocks_with_handler"):
            cfgtot[k] += dyn["cfg"].get(k, 0)
        dyn_static_viol += len(sv)
        violations += sv
        v, h, stc, smp = {"conformance": conformance_verdicts, "undef": undef_verdicts, "ms": ms_verdicts,
                          "nr": nr_verdicts}[dyn["lane"]](dyn)
        violations += v
        herr += h
        if smp and not fam[dyn["lane"] + "_sampled"]:
            fam[dyn["lane"] + "_sampled"] = 1
            samples.insert(0, smp[0])
        traces += stc["traces_validated"]
        fam[dyn["lane"] + "_executions_compared"] += stc["traces_validated"]
        fam[dyn["lane"] + "_crashes"] += len(dyn["crashes"])
        if dyn["lane"] == "ms":
            fam["ms_result_census_compared"] += stc["census_compared"]
            fam["ms_result_census_objects"] += stc["census_objects"]
        if dyn["lane"] == "nr":
            for k, n in stc.items():
                if k.startswith("undefined_read_cases") or k.startswith("ref:"):
                    fam["nr_" + k] += n
        dyn_cov[name] = {"build_ok": dyn["build_ok"], "build_seconds": dyn["build_seconds"], "lib_rt": dyn["lib_rt"],
                         "functions_model_checked_x2": len(dyn["static"]), "measurements": stc["measurements"],
                         "crashes": len(dyn["crashes"]), "predicted_balanced": stc.get("predicted_balanced"),
                         "predicted_violation": stc.get("predicted_violation"), "outcomes": {k: n for k, n in sorted(stc.items()) if ":" in k},
                         "undefined_read_cases": stc.get("undefined_read_cases", 0),
                         "violating_measurements": len(v), "seconds": dyn.get("seconds")}
    shutil.rmtree(work, ignore_errors=True)

    # ---- vacuity gates
    vac = []
    if tot["functions_refcount"] != tot["functions_final"]:
        vac.append(f"stage counts differ: {tot['functions_refcount']} vs {tot['functions_final']}")
    if tot["functions_final"] < (20 if only_files else 300):
        vac.append(f"only {tot['functions_final']} functions reached the model")
    if tot["nontrivial_functions"] < (5 if only_files else 100):
        vac.append("too few functions with dec_refs and several path ends")
    if tot["paths_error_return"] == 0 or tot["paths_return"] == 0:
        vac.append("no normal or no error return explored")
    if dynamic and not only_files:
        if traces < 100:
            vac.append(f"only {traces} executions compared with the model's prediction")
        und = sum(d.get("undefined_read_cases", 0) for d in dyn_cov.values())
        if und < 50:
            vac.append(f"only {und} undefined-read executions")
        if fam["ms_ops_stealing_one_value_more_than_once"] < 100:
            vac.append(f"only {fam['ms_ops_stealing_one_value_more_than_once']} ops stealing one value more than once")
        if fam["ms_result_census_compared"] < 500:
            vac.append(f"only {fam['ms_result_census_compared']} result censuses compared")
        if fam["nr_undefined_read_cases"] < 300:
            vac.append(f"only {fam['nr_undefined_read_cases']} nested-region executions that CPython ends in UnboundLocalError")
        if cfgtot["blocks_with_handler"] < 1000:
            vac.append(f"only {cfgtot['blocks_with_handler']} protected blocks seen by the CFG invariant")
    if vac:
        raise RuntimeError("vacuous exploration: " + "; ".join(vac) + f"; harness errors: {herr[:2]}")

    cov = {
        "states": tot["states"], "transitions": tot["transitions"], "traces_validated_against_impl": traces,
        "block_entry_states": tot["entry_states"],
        "functions_checked_after_refcount": tot["functions_refcount"], "functions_checked_final_ir": tot["functions_final"],
        "functions_generated_modules_x2": tot["gen_functions_final"],
        "evaluations": tot["functions_refcount"] + tot["functions_final"],
        "distinct_nontrivial": tot["nontrivial_functions"],
        "rule": "function counted non-trivial iff its final IR contains dec_ref ops and the search reached at least two "
                "path ends (returns / error returns / yields)",
        "exhaustive": tot["capped_functions"] == 0 and not any(s.startswith("harness_") for s in status),
        "corpus": sel, "case_status": dict(status),
        "path_ends": {k[6:]: v for k, v in tot.items() if k.startswith("paths_")},
        "ops_final_ir": tot["ops"], "tracked_values": tot["tracked_values"],
        "untracked_address_taken_registers": tot["escaped_registers"],
        "malformed_ir_functions_not_checkable": sorted(malformed)[:10],
        "cases_rejected_by_mypy_or_mypyc": sorted(not_compiled)[:60],
        "capped_functions": tot["capped_functions"], "arg_null_combos_capped": tot["arg_null_combos_capped"],
        "functions_with_alarm_after_refcount": tot["functions_with_alarm_refcount"],
        "functions_with_alarm_final": tot["functions_with_alarm_final"],
        "largest_function": biggest,
        "dynamic": dyn_cov, "static_alarms_in_generated_modules": dyn_static_viol,
        "families": dict(sorted(fam.items())),
        "multi_steal_family": {
            "space": "construct x operand shape x provenance of x (x provenance of y in thorough)",
            "constructs": sorted(list(c06_fam.CONSTRUCTS) + list(c06_fam.STR_ONLY)), "provenances": sorted(c06_fam.PROVENANCE),
            "stealing_op_kinds_reached(after refcount insertion)": dict(sorted(steal_kinds.items())),
        },
        "nested_region_family": {
            "space": "outer region x inner try x first assignment x reader x pre-statement x local type x raise point",
            "outer": c06_fam.NR_OUTER, "inner": c06_fam.NR_INNER, "assigned": c06_fam.NR_WHERE, "read": c06_fam.NR_READ,
            "pre": c06_fam.NR_PRE, "types": sorted(c06_fam.NR_TYPES), "raise_points": c06_fam.NR_INPUTS,
            "depth3_obj": bool(ctx.thorough),
        },
        "cfg_invariant": dict(cfgtot),
        "per_file_cases": {k: dict(v) for k, v in sorted(per_file.items())} if ctx.thorough else
                          {k: v["cases"] for k, v in sorted(per_file.items())},
        "samples": samples[:6],
        "cpu_seconds": round(_cpu() - cpu0, 1),
        "bounds": "every CFG path of every function (states deduplicated on block entry x abstract ownership of "
                  f"live/owned values; per-function cap {MAX_STATES} states, caps counted); dynamic: all k of every "
                  "conformance function, all (c,n,r,del) inputs of all 32 subsets x {local,attr} x {object,int,i64}; "
                  "multi-steal and nested-region products complete (k in {0,1}; raise point p in {0,1,2,3})",
    }
    from mc.c06_model import CORRECTIONS

    return Result(PROPERTY, LEVEL, cov, violations, assumptions=[
        "C functions of lib-rt honour the steals/is_borrowed/error_kind they declare (checked only dynamically)",
        "fixture builtins (mypyc/test-data/fixtures/ir.py) for the corpus lane, as in mypyc's own irbuild/run tests; "
        "bundled typeshed for the compiled generated modules",
        "registers whose address is taken and raw pointers are not tracked; struct/vec fields only via declared steals",
        "model corrections (calibration): " + " || ".join(CORRECTIONS),
    ], harness_errors=herr)


# --------------------------------------------------------------------------- replay


def replay(ctx: Ctx, rec: dict) -> Result:
    d = rec["detail"]
    viol: list[Violation] = []
    scratch("c06")  # create the scratch root in THIS process so forked children share (and we remove) it
    if d.get("lane") == "static" and d.get("source") == "corpus":
        cases = [c for c in corpus.load_file(os.path.join(corpus.MYPYC_DATA, d["file"])) if c.name == d["case"]]
        job = case_job(cases[0])
        job["only_function"] = [d["cls"], d["fn"]]
        r = run_batch([job])[0]
        for v in static_violations(d["file"], d["case"], r["functions"]):
            if v.detail["fn"] == d["fn"] and v.detail["cls"] == d["cls"]:
                print(v.what)
                if v.detail.get("ir"):
                    print(v.detail["ir"])
                if v.signature == rec["signature"]:
                    viol.append(v)
        return Result(PROPERTY, LEVEL, {}, viol)
    work = scratch("c06", "replay")
    if d.get("lane") == "cfg" and not str(d.get("where", "")).startswith("generated:"):
        file, case = d["where"].split("::", 1)
        cases = [c for c in corpus.load_file(os.path.join(corpus.MYPYC_DATA, file)) if c.name == case]
        r = run_batch([case_job(cases[0])])[0]
        for x in cfg_violations(d["where"], r.get("cfg") or {}):
            print(x.signature, "::", x.what)
            if x.signature == rec["signature"]:
                viol.append(x)
        return Result(PROPERTY, LEVEL, {}, viol[:1])
    fname = d.get("name") or d.get("fn") or ""
    if fname.startswith("ms_") or fname.startswith("nr_"):
        # families: rebuild a module that holds just this function (plus the prelude) and re-measure / re-check it
        if fname.startswith("ms_"):
            lane, prelude = "ms", c06_fam.MS_PRELUDE
            specs = [f for f in c06_fam.ms_functions(True) + c06_fam.ms_functions(False) if f["name"] == fname][:1]
        else:
            lane, prelude = "nr", c06_fam.NR_PRELUDE
            specs = [f for f in c06_fam.nr_functions(["obj", "int", "i64"], True) if f["name"] == fname][:1]
        dyn = dynamic_lane(work, lane, "c06replay", prelude, specs, 1, None)
        v = (ms_verdicts if lane == "ms" else nr_verdicts)(dyn)[0]
        v += static_violations("generated:" + dyn["mod"], dyn["lane"], [dict(f, module=dyn["mod"], blocks=0) for f in dyn["static"]],
                               lane="generated")
        v += cfg_violations("generated:" + dyn["mod"], dyn["cfg"]) + c_reject_violations(dyn)
        for h in dyn["harness_errors"]:
            print("harness error:", h[-2000:])
        for x in v:
            print(x.signature, "::", x.what)
            if x.signature == rec["signature"]:
                viol.append(x)
        shutil.rmtree(work, ignore_errors=True)
        return Result(PROPERTY, LEVEL, {}, viol[:1])
    # dynamic lanes / generated modules: rebuild the module the record came from and re-measure
    if d.get("lane") == "conformance" or (d.get("lane") == "static" and d.get("case") == "conformance"):
        specs = [s for s in c06_gen.conformance_specs() if d.get("lane") == "static" or s["name"] == d["name"]]
        dyn = dynamic_lane(work, "conformance", "c06conf", c06_gen.conformance_source(), specs, 1, None)
        v, _h, _s, _ = conformance_verdicts(dyn)
    else:
        t = (d.get("name") or "x_obj_0").split("_")[1] if d.get("lane") == "undef" else d["module"].split("_")[-1]
        specs = [s for s in c06_gen.undef_specs(["local", "attr"], [t]) if d.get("lane") == "static" or s["name"] == d["name"]]
        dyn = dynamic_lane(work, "undef", f"c06und_{t}", c06_gen.undef_source(["local", "attr"], [t]), specs, 1, None)
        v, _h, _s, _ = undef_verdicts(dyn)
    v += static_violations("generated:" + dyn["mod"], dyn["lane"], [dict(f, module=dyn["mod"], blocks=0) for f in dyn["static"]],
                           lane="generated")
    for x in v:
        print(x.signature, "::", x.what)
        if x.signature == rec["signature"]:
            viol.append(x)
    shutil.rmtree(work, ignore_errors=True)
    return Result(PROPERTY, LEVEL, {}, viol[:1])
